#!/usr/bin/env python3
"""Regenerates /verif/MANIFEST.json from lib/registry.py + lib/props_meta.py."""
import json
import os
import subprocess
import sys

ROOT = os.path.dirname(os.path.dirname(os.path.abspath(__file__)))
sys.path.insert(0, os.path.join(ROOT, "lib"))
from registry import PROPS  # noqa: E402

props = [json.loads(l) for l in open(os.path.join(ROOT, "properties.jsonl"))]
hooks_commits = []
hf = os.path.join(ROOT, "lib", "hook_commits.txt")
if os.path.exists(hf):
    hooks_commits = [l.split()[0] for l in open(hf) if l.strip() and not l.startswith("#")]

checks, na, engines = [], [], {}
for p in props:
    pid = p["id"]
    spec = PROPS.get(pid)
    if spec and spec.get("ready"):
        engine = "+".join(s.get("name", s.get("crate", "")) for s in spec["steps"])
        checks.append({
            "property_id": pid,
            "quick_cmd": f"./check {pid} --tier quick",
            "thorough_cmd": f"./check {pid} --tier thorough",
            "evidence_file": f"evidence/{pid}.json",
            "replay_cmd_template": f"./check {pid} --replay {{path}}",
            "engine": engine,
            "level_claimed": {
                "category": spec.get("level", "exploration"),
                "text": spec.get("text") or "Runtime monitoring: an independent oracle judged every generated execution of the real code; held on the executions observed, nothing more.",
                "design_ref": spec.get("design") or f"DESIGN.md section 5, {pid}",
            },
            "level_note": spec.get("note") or "Trusted: the harness generators, the reference model/oracle in the monitor, rustc. Verdict covers only the executions produced.",
            "technique": spec.get("technique") or "runtime monitoring: seeded workload + reference-model oracle over the real code",
        })
        for s in spec["steps"]:
            name = s.get("name", s.get("crate"))
            e = engines.setdefault(name, {"name": name, "path": "harness/" + s.get("crate", name), "serves_properties": [],
                                          "kind_free_text": s.get("kind", "Rust monitor binary linking the real fuel-core crates by path")})
            e["serves_properties"].append(pid)
    else:
        reason = (spec or {}).get("na_reason") or "monitor not built yet (see DESIGN.md section 5 for the planned runtime monitor)"
        na.append({"property_id": pid, "reason": reason})

manifest = {
    "version": 1,
    "setup_cmd": "./setup.sh",
    "hooks": {
        "guard": "verif-hooks (cargo feature on fuel-core, fuel-core-txpool, fuel-core-sync, fuel-core-p2p; off by default)",
        "enable": "the harness workspace (/verif/harness/Cargo.toml) depends on the /repo crates by path with features = [\"verif-hooks\"]; every ./check rebuilds from /repo's working tree",
        "baseline_off_cmd": "cd /repo && cargo nextest run --workspace --no-fail-fast --tool-config-file pb:/w/lib/nextest.toml --profile pb --test-threads 8 --offline",
        "source_commits": hooks_commits,
        "add_only": True,
    },
    "engines": list(engines.values()),
    "checks": checks,
    "not_applicable": na,
    "notes": "Technique family: runtime monitoring and sanitizers. ./check <ID> --tier quick|thorough; exit 0 held, 1 violation (VIOLATION line), 2 inconclusive. VERIF_SEED / VERIF_TIER honoured. known_findings.json lists genuine defects (open = reported as KNOWN-FINDING; fixed = repaired by a fix: commit in /repo).",
}
json.dump(manifest, open(os.path.join(ROOT, "MANIFEST.json"), "w"), indent=1)
print(f"checks={len(checks)} not_applicable={len(na)}")
try:
    import jsonschema
    jsonschema.validate(manifest, json.load(open("/root/.vp/MANIFEST.schema.json")))
    print("manifest valid")
except ImportError:
    print("jsonschema not available; not validated")
