#!/usr/bin/env python3
"""C42, Miri leg: runs /verif/harness/miri-seqlock (which #[path]-includes the real
/repo/crates/services/src/seqlock.rs) under `cargo +nightly miri run` with
-Zmiri-many-seeds as a seed-controlled pre-emptive scheduler and aggregates the
RESULT lines into a monitor result file (same format as the Rust monitors)."""
import concurrent.futures as cf
import json
import os
import re
import subprocess
import sys
import time

ROOT = os.path.dirname(os.path.dirname(os.path.abspath(__file__)))
CRATE = os.path.join(os.environ.get("VERIF_HARNESS", os.path.join(ROOT, "harness")), "miri-seqlock")


def parse_args(argv):
    a = {}
    i = 0
    while i < len(argv):
        a[argv[i].lstrip("-")] = argv[i + 1] if i + 1 < len(argv) else ""
        i += 2
    return a


def run_range(lo, hi, rate, extra, target):
    env = dict(os.environ)
    env["MIRIFLAGS"] = (f"-Zmiri-disable-data-race-detector -Zmiri-disable-stacked-borrows "
                        f"-Zmiri-many-seeds={lo}..{hi} -Zmiri-preemption-rate={rate}")
    env["CARGO_TARGET_DIR"] = target
    env["CARGO_NET_OFFLINE"] = "true"
    cmd = ["cargo", "+nightly", "miri", "run", "--offline", "--quiet", "--"] + extra
    try:
        p = subprocess.run(cmd, cwd=CRATE, env=env, stdout=subprocess.PIPE, stderr=subprocess.PIPE,
                           text=True, timeout=1500)
    except subprocess.TimeoutExpired:
        return lo, hi, rate, None, "timeout"
    return lo, hi, rate, p.stdout, (p.stderr[-2000:] if p.returncode != 0 else "")


def main():
    a = parse_args(sys.argv[1:])
    seed = int(a.get("seed", "0"))
    tier = a.get("tier", "quick")
    out = a["out"]
    selftest = a.get("selftest", "0")
    t0 = time.time()
    target = os.environ.get("CARGO_TARGET_DIR", os.path.join(os.environ.get("VERIF_HARNESS", os.path.join(ROOT, "harness")), "target")) + "/miri"
    per = 32
    nproc = 8 if tier == "quick" else 128
    rates = [0.02, 0.05, 0.1, 0.2, 0.35, 0.5, 0.75, 0.9]
    base = (seed * 7919) % 1_000_000
    shapes = [["--writes", "10", "--reads", "14", "--readers", "2"],
              ["--writes", "16", "--reads", "10", "--readers", "3"],
              ["--writes", "6", "--reads", "24", "--readers", "1"]]
    if a.get("replay"):
        r = json.load(open(a["replay"])).get("replay", {})
        jobs = [(r["miri_seed"], r["miri_seed"] + 1, r["rate"], r["args"])]
    else:
        jobs = []
        for k in range(nproc):
            lo = base + k * per
            jobs.append((lo, lo + per, rates[k % len(rates)], shapes[k % len(shapes)] + ["--selftest", selftest]))
    # first invocation alone so that concurrent processes do not race to build
    results = [run_range(*jobs[0], target)]
    with cf.ThreadPoolExecutor(max_workers=16) as ex:
        results += list(ex.map(lambda j: run_range(*j, target), jobs[1:]))
    evals = 0
    sigs = set()
    counters = {"miri_executions": 0, "reads": 0, "reads_overlapping_a_write": 0, "miri_processes": len(jobs)}
    violations, samples, inconclusive = [], [], []
    for lo, hi, rate, stdout, err in results:
        if stdout is None or err:
            inconclusive.append(f"miri run seeds {lo}..{hi} failed: {err[-600:]}")
            if stdout is None:
                continue
        n = 0
        for line in stdout.splitlines():
            if not line.startswith("RESULT "):
                continue
            try:
                r = json.loads(line[7:])
            except Exception as e:  # noqa: BLE001
                inconclusive.append(f"unparsable RESULT line: {e}")
                continue
            miri_seed = lo + n  # many-seeds prints in seed order only when run sequentially; used as a hint
            n += 1
            counters["miri_executions"] += 1
            counters["reads"] += r["reads"]
            counters["reads_overlapping_a_write"] += r["overlapped"]
            evals += 1
            if r["overlapped"] > 0:
                sigs.add(r["sig"])
            if len(samples) < 3:
                samples.append({"miri_seed_range": [lo, hi], "preemption_rate": rate, "reads": r["sample"]})
            for v in r["violations"]:
                kind = v.split(" ")[0]
                pre = "selftest:" if selftest != "0" else ""
                violations.append({"signature": f"{pre}miri_{kind}_read", "detail": v,
                                   "replay": {"miri_seed": lo, "miri_seed_range": [lo, hi], "rate": rate,
                                              "args": jobs[0][3], "note": "re-run the whole seed range to reproduce"}})
    res = {
        "property": "C42", "tier": tier, "seed": seed, "level": "exploration",
        "evaluations": evals, "distinct_nontrivial": len(sigs),
        "rule": "one evaluation = one complete execution of (1 writer, 1-3 readers) over the real seqlock.rs under Miri with a distinct scheduler seed and preemption rate; distinct = distinct observed read histories (hash of every (reader, completed-before, value, completed-after) tuple) among executions in which at least one read overlapped a write",
        "samples": samples, "counters": counters, "thresholds": {"miri_executions": 64, "reads_overlapping_a_write": 50},
        "exhaustive": False,
        "assumptions": ["Miri's data-race detector and Stacked Borrows are disabled: the plain accesses of a seqlock are flagged by both by construction (documented in DESIGN.md section 4); Miri is used as a scheduler, the value oracle decides"],
        "violations": violations[:6], "violation_signature_counts": {},
        "inconclusive": inconclusive, "notes": [], "info": {}, "wall_s": time.time() - t0,
    }
    for v in violations:
        res["violation_signature_counts"][v["signature"]] = res["violation_signature_counts"].get(v["signature"], 0) + 1
    for k, m in res["thresholds"].items():
        if counters.get(k, 0) < m:
            res["inconclusive"].append(f"threshold not met: {k} observed {counters.get(k, 0)} < required {m}")
    json.dump(res, open(out, "w"), indent=1)


if __name__ == "__main__":
    main()
