"""Per-property metadata: readiness, level, technique, assurance text, trusted base.
One entry per property; edited as monitors land."""

META = {
    "C42": {
        "ready": True,
        "technique": "runtime monitoring: value oracle over (a) real-thread stress of the public SeqLock API and (b) Miri many-seeds as a seed-controlled pre-emptive scheduler over the real seqlock.rs",
        "text": "Every value returned by SeqLockReader::read in the produced executions was a completely written value (all 8 words equal), not older than the last write completed before the read began, monotone per reader, and reads return promptly once the writer is quiescent (also after a panicking closure). Held on ~10^8 real-thread reads (x86-64, 1-15 readers) and 256 (quick) / 4096 (thorough) Miri schedules with distinct seeds and preemption rates; nothing is claimed about schedules not produced or about weaker memory models than x86-64/Miri's.",
        "note": "Trusted: the harness oracle (completed-counter published with SeqCst after each write returns), Miri's scheduler, this machine's x86-64 memory model. Miri's data-race detector and Stacked Borrows are disabled because a seqlock's plain accesses are flagged by construction; that language-level finding is recorded in DESIGN.md section 7 and is outside C42 (which is about returned values).",
        "design": "DESIGN.md section 5, C42 and section 4",
    },

    "C10": {
        "ready": True,
        "technique": "runtime monitoring: seeded op-sequence exploration of the real nested StorageTransaction vs a stack-of-maps reference model",
        "text": "On ~1.9M (quick) / 40M (thorough) generated operations over nested storage transactions (depth <=4, raw and typed ops, read offsets around the value length, sibling merges), every return value, every post-commit/drop/merge read sweep, the pending change set and the base content equalled an independent layered-map model; Fail-policy merges were rejected exactly when key sets overlapped. Held on the executions produced only.",
        "note": "Trusted: the map model (mon-kv/src/c10.rs), InMemoryStorage test helper as base; read_* boundary semantics taken from kv_store.rs docs; state after a legitimately rejected merge not judged.",
    },
    "C13": {
        "ready": True,
        "technique": "runtime monitoring: seeded op sequences on the real merklized FuelBlocks table vs an own RFC-6962 accumulator model",
        "text": "After every generated insert/replace/remove/take/batch op on FuelBlocks (in-memory transaction and GenesisDatabase; direct / child / grand-child transactions) all stored blocks, per-height roots and Primary/Latest metadata were re-read and compared with an independent RFC-6962 root over block ids in insertion order; ops on existing heights must fail and leave everything unchanged.",
        "note": "Trusted: mon-kv/src/rfc6962.rs (cross-checked against fuel-merkle every run), block id hashing of fuel-core-types; failed batches may apply a fresh prefix (counted).",
    },
    "C14": {
        "ready": True,
        "technique": "runtime monitoring: seeded op sequences on the real sparse-merklized compression tables vs a from-scratch sparse root oracle",
        "text": "After every generated single/batched op on the 8 merkleized compression tables (direct, in transactions, nested; committed and dropped) each table's recorded root equalled fuel-merkle's root_from_set over the table's current raw entries read back by iteration (+pending overlays), contents equalled a map model, and no op changed another table's root.",
        "note": "Trusted: fuel-merkle in-memory sparse tree, the Changes overlay for uncommitted views; one tree per table (primary key = column id).",
    },
    "C32": {
        "ready": True,
        "technique": "runtime monitoring: seeded request/growth histories against the real CachedView + real on-chain DB with a differential oracle; generated codec round-trips at the size boundary; two real p2p services over loopback for the range limit",
        "text": "For every generated history of header/transaction range requests (cache capacity 1-8, ranges within, across, beyond the tip, empty, reversed, huge, overlapping earlier requests, chain growing in between, also 4 threads on one cache) the CachedView answered exactly what the database answered at that moment and what was written. Every request/response variant (Ok and all error codes, V1/V2) decoded to the original when the limit >= encoded size and was rejected when the limit was smaller. A real peer refused ranges longer than max_headers_per_request and served ranges <= the limit identical to its database.",
        "note": "Trusted: harness chain writer/record, structural equality of messages, in-memory DB backend, libp2p loopback; chain growth only (no reorg); PoolTransaction form not generated.",
    },
    "C37": {
        "ready": True,
        "technique": "runtime monitoring: generated coin sets in a real in-memory on-chain/off-chain DB, 4 entry points, brute-force soundness/admissibility oracle",
        "text": "Over ~1.4M (quick) / 17M (thorough) answers for dust clusters, equal amounts, whales, u64::MAX coins, 250-300-coin sets, targets at S-1/S/S+1 and top(max)+-1, max 0/1/2/255/n+-1, exclusions of the largest or boundary coin, and allow_partial, every Ok answer contained only unspent resources of the owner and asset, nothing excluded, no duplicate, <= max, and total >= target unless partial; every InsufficientCoins/MaxCoinsReached error occurred only when the max largest non-excluded resources could not reach the target. Known finding: the indexed path returns Ok([]) for max=0, target>0.",
        "note": "Trusted: harness model of inserted resources, a consistent index (C36's job); error kind not distinguished; the ReadView::coins_to_spend leg checks amounts only.",
    },
    "C38": {
        "ready": True,
        "technique": "runtime monitoring with exhaustive enumeration of the bounded input space through hook H4, an independent page model, plus GraphQL end-to-end walks",
        "text": "For every collection size 0..=8, page size 0..=10 and i32::MAX, both directions and every cursor position (each entry, each gap, none), from a generated source and from the real owned-coins iterator with UtxoId cursors, the real query_pagination returned exactly the model page; every page <= requested size; has_next_page direction-relative ('more entries remain'); has_previous_page true exactly when a cursor that is an entry was given; cursor-following walks enumerated the collection exactly once; unsupported argument combinations rejected; same walks through GraphQL for coins, messages and blocks. exhaustive: true for the stated region.",
        "note": "Trusted: ~40-line page model; flags are direction-relative as pinned by tests/tests/tx.rs::get_transactions; has_previous_page not judged for cursors that are not entries; storage errors inside the stream are out of scope (noted: they are swallowed).",
    },

    "C22": {
        "ready": True,
        "technique": "runtime monitoring: seeded hostile publication/subscription histories against the real tx-status-manager service (public API, paused tokio clock), subscriber-end recording, offline per-subscriber oracle",
        "text": "Across ~73k (quick) subscriber streams over all three write routes, batches, lagging/draining/dropped subscribers, limits 1-8 and TTL expiry, every stream was in publication order, duplicate-free, silent after the first final status and after its end; every draining subscriber received exactly the owed statuses up to the first final one and its stream ended. The workload includes value-identical re-publications (judged by value sequence) and two deliberately different finite TTLs (subscription vs cache).",
        "note": "Trusted: harness final-status list, publication log/serial stamping, barrier assumption (biased select: writes before reads), exclusion rules for completeness; subscription-limit behaviour not judged.",
    },
    "C23": {
        "ready": True,
        "technique": "runtime monitoring: seeded publication/advance/query histories on the real service with a paused tokio clock stepping around the TTL boundary; per-query oracle from a last-publication model",
        "text": "In ~857k (quick) judged queries, get_status always returned the latest publication while it was Submitted or younger than the TTL (including ttl-1ms, republished-after-expired-predecessor and mixed Submitted/non-Submitted sequences), never an older one, and never a status for an unpublished tx; forgetting was only observed at age >= TTL. Includes value-identical re-publications refreshing the TTL, fractional TTLs, and a subscription TTL different from the cache TTL.",
        "note": "Trusted: the model (last publication + virtual time), the check that the cache reads tokio Instant; retention beyond the TTL is accepted by the property (a mutant that only delays pruning is invisible by design).",
    },
    "C44": {
        "ready": True,
        "technique": "runtime monitoring through the P2P and protocol-key ports: seeded delegation/preconfirmation gossip with by-construction validity, key rotation, tampering, replays, and real waiting across expirations under the wall-clock discipline of DESIGN 3.7",
        "text": "In ~67k (quick) gossip messages, batches changed statuses (broadcast, preconfirmation listener, cache) only when signed by the delegate key registered for their expiration by a delegation signed by the then-current protocol key and clearly unexpired; all other judged batches and delegations got exactly one Reject report and had no effect; batches valid before an expiration were rejected after it, also after the expired delegation was re-gossiped.",
        "note": "Trusted: construction-time knowledge of signer and tamper, the model delegation table, the TAI wall stamps with a 1 s/2 s margin (ambiguous cases counted, not judged); expired-but-validly-signed delegations, rotated-since-registration and overwritten-key batches judged for consistency only.",
    },
    "C15": {
        "ready": True,
        "technique": "runtime monitoring: mutation workload over real sealed chains judged per gate (verify_block_fields via production VerifierAdapter on a real on-chain DB, verify_consensus, Block::try_from_executed) against an independent chain/key-schedule model",
        "text": "For every generated valid PoA / PoAV2 block (incl. blocks at key-change heights and with da/time equal to the parent) all three gates accepted; for every one of ~2x10^5 (quick) single-field mutations (each header field in stale/rehash/resign form, height 0, wrong prev_root, da/time below parent, stale application hash, tx root/count, tx insert/remove/swap/byte flip/witness-only, seal bit flips, foreign keys, shifted schedules) the gate responsible for the violated rule rejected, un-violated re-sealed variants were accepted, and no accepted content change kept the block id. Nothing is claimed about mutations not generated or V2 headers.",
        "note": "Trusted: harness model (RFC-6962 root over block ids / tx bytes, parent da/time, own key-schedule lookup), fuel-crypto secp256k1, sha2, postcard. Debug-assert build: stale-app-hash cases are judged only at verify_block_fields.",
    },
    "C33": {
        "ready": True,
        "technique": "runtime monitoring: end-to-end round trip of block sequences through the real compression-service storage (separate compressor and decompressor Database<CompressionDatabase>, real on-chain DB for history lookups) with an equality oracle",
        "text": "In every produced session (30-60 blocks, small value alphabets, retention 2-600 s with time steps 0,1,R-1,R,R+1,2R+1, evictor placed below the 24-bit wrap and repeatedly below live keys: ~10^4 overwrites of live keys, ~10^3 wraps, ~4x10^4 reuse hits per quick run) each compressed block deserialised and decompressed, in order, to the original header and to the original transactions with exactly the format's non-transported (execution-filled) fields reset; tx ids equal. Not claimed: histories not generated, V1/fault-proving payloads, RocksDB backend. Incl. byte-identical values in different registry keyspaces (script/predicate code, address/asset/contract ids) in the same and in different blocks.",
        "note": "Trusted: structural block generator + ledger (coins/messages/FuelBlocks written by the harness), the normalisation list of skipped fields, moving the evictor pointer as a model of a full key cycle, postcard.",
    },
    "C43": {
        "ready": True,
        "technique": "runtime monitoring: generated-input round trip (message structs and prost wire) with field-level diff oracle; store-sequence histories against a contiguity model on StorageDB over a plain KV store and the production database",
        "text": "Every generated block (all tx kinds, both upgrade purposes, all input/output/receipt variants, all 64 policy masks, all 256 panic-reason bytes, None/empty/some optional data; header generated fields derived from txs+receipts) converted to protobuf and back equal to the original; store_block accepted exactly the first and current+1 heights and left state untouched on rejection in ~1.3x10^5 ops (two defects found by this monitor were repaired by fix: commits).",
        "note": "Trusted: prost, fuel-tx constructors, the harness KV store, the 10-line contiguity model; blocks whose header is inconsistent with their receipts are outside the conversion's domain and not generated.",
    },
    "C39": {
        "ready": True,
        "technique": "runtime monitoring: seeded export/regenesis round trips through the real Exporter and genesis importer with a table-by-table byte oracle",
        "text": "For several hundred seeded chain states per run, written directly into the tables (contracts with 0, 1 and many storage slots spanning 3 or more groups), every combination of json/parquet, group size 1/2/3/7/default and memory/rocksdb backends is exported with Exporter::write_full_snapshot and imported through execute_and_commit_genesis_block. The regenesis database must hold byte-identical coins, messages, contract code, balances, state, latest utxo and blobs; for parquet also identical processed tx ids and block Merkle data/metadata; height = source height + 1 with prev_root = source blocks root; the Merkle root after the regenesis block equals an independent fuel_merkle root over all block ids.",
        "note": "Trusted: the storage codecs (shared by both sides), fuel_merkle's in-memory tree, direct table population as the source of generated states. JSON snapshots do not carry processed tx ids and block Merkle data by design (state.rs: 'Do not include these for now'): excluded for JSON and counted under excluded.json.*. Off-chain history tables are observed only.",
    },
    "C40": {
        "ready": True,
        "level": "fault_enumeration",
        "technique": "runtime monitoring with exhaustive fault enumeration at the storage/cancellation boundary of the real genesis importer",
        "text": "For every generated multi-table snapshot (16 per quick run; parquet or json; inline and racing table workers) the import is interrupted at every one of the G group commits: cancellation right after commit k for k=0..G, failure of commit k for k=1..G, and failure of every data-column read; then restarted as a new process until it completes. Each (migration, group) must be committed exactly once across attempts, the committed change sets must equal the uninterrupted import's, and every on-chain and off-chain column must end byte-identical to it.",
        "note": "Trusted: the FaultStore wrapper sees all writes (cross-checked by replaying its log against the store); a restart is modelled by a new runtime + watcher after all old workers ended. Not injected: failures of the snapshot reader, of progress-table reads, and anything after the last group commit (not-judged probes show balances double-count there; see DESIGN.md section 7).",
    },
    "C27": {
        "ready": True,
        "technique": "runtime monitoring with exhaustive input enumeration through hook H2 and a partition oracle",
        "text": "Every cache content/range/batch size over 8 (quick) / 10 (thorough) heights plus a universe next to u32::MAX, and 128k random cases over 24 heights, is chunked by the real Cache::get_chunks and each result is checked to be an exact ordered partition (consecutive, non-overlapping, non-empty, each <= batch size) with cached batches carrying exactly the cached items of their heights.",
        "note": "Trusted: hook H2 forwarding (builds a real Cache by single-item inserts) and the 40-line judge. Ranges ending at u32::MAX cannot be expressed.",
    },
    "C28": {
        "ready": True,
        "technique": "runtime monitoring: reachable-state closure + exhaustive short sequences + random long ones vs a two-number reference model",
        "text": "Every operation from every reachable (State, model) pair over three height universes, all explicit sequences to length 4-7 and random sequences of length <= 40 agree with the (C,B) reference model of DESIGN.md; the committed height never decreases.",
        "note": "Trusted: Debug rendering of State (status() is cfg(test)), cross-checked with process_range, and the C/B model.",
    },
    "C30": {
        "ready": True,
        "technique": "runtime monitoring of the real Producer with scripted ports and a u128 prefix oracle",
        "text": "About 1.1M productions by the real Producer over generated relayer cost/tx-count profiles (exact-limit, limit+1, u64 near-overflow, unlisted heights, finalized behind/equal/ahead, injected relayer errors) yield exactly the largest fitting DA prefix, or fail when required; the DA height never decreases nor passes the finalized height.",
        "note": "Trusted: harness ports, u128 oracle, tx budget u16::MAX-1. Cases with gas limit == u64::MAX whose exact sum exceeds u64::MAX are not judged (counted).",
    },
    "C31": {
        "ready": True,
        "technique": "runtime monitoring: exhaustive short connect/disconnect histories + random mixed histories against a set model, observing the handshake flag through the real ConnectionState reader",
        "text": "All connect/disconnect histories of length 6-7 over 1 reserved + 3 non-reserved peers for limits 1..=3 and 80k mixed histories (identify, heartbeat, app-score, gossip-score, decay) keep the non-reserved count <= limit, admission and the handshake flag equal to 'slot free' after every operation, reserved peers never refused or banned, scores <= MAX_APP_SCORE.",
        "note": "Trusted: the set model; flag read via the SeqLock reader that ConnectionTracker consults; limit 0 not judged (a fresh ConnectionState says 'available'; counted).",
    },
    "C34": {
        "ready": True,
        "technique": "runtime monitoring: long random update histories on the real AlgorithmUpdaterV1 with bound/rate oracles",
        "text": "22M updater calls over 16k configurations keep exec price >= min, DA price within [min,max], per-call moves within the configured percentages (1-unit rounding allowance, clamps exempt), and wrong heights are rejected without any state change. Per-call moves of the exec and DA price are bounded exactly by floor(prev*pct/100) in the scaled domain (no rounding allowance).",
        "note": "Trusted: the arithmetic oracle; config domain min <= max and min*factor fits u64; panics map to inconclusive.",
    },
    "C35": {
        "ready": True,
        "technique": "runtime monitoring: exhaustive grid over the precomputed-table region and its boundary + random families, through 4 public entry points, each call under catch_unwind",
        "text": "Every horizon/percentage 0..=64 for 26 prices (incl. 2^53+-1, the compensation cutoff, u64::MAX) through cumulative_percentage_change, AlgorithmV1::worst_case (exec and DA) and UniversalGasPriceProvider::worst_case_gas_price is total, monotone in the horizon and >= exact saturating integer compounding, except the documented f64-precision class (<= 2^-40 relative above 2^46; open known finding).",
        "note": "Trusted: oracle = saturating c + floor(c*q/100) per block. The table-edge panic found by this monitor was repaired by a fix: commit. Float-rounding deficits are split by the documented compensation cutoff: below it, and above it only where the propagated rounding bound exceeds 2000, they are open known findings; any deficit where the +2000 compensation must suffice is an alarm.",
    },

    "C24": {
        "ready": True,
        "technique": "runtime monitoring: the real fuel_core_poa service (MainTask + SyncTask under ServiceRunner) driven through harness-implemented ports on a paused tokio clock by seeded schedules of triggers, manual requests, network/reconciliation/predefined blocks, clock changes and port faults; offline oracle over the recorded port-call history",
        "text": "In every produced execution (6.4k schedules quick / 48k thorough, ~70% non-trivial and distinct) each produce/commit request was at exactly the next height after what the task had been told (start header, own successful commits, successful reconciliation imports, latest_block_height replies), or within the envelope of headers still in flight on the block stream; committed timestamps never decreased along the task's own chain nor below a synced header it built on; every committed block was the producer's block, sealed by the signer for exactly that block between production and commit (signature verified); after a failed production/timeout/seal/commit (incl. lost acknowledgements) the next attempt stayed at the same height and no time from a failed attempt leaked; under Trigger::Interval every trigger-produced block started >= block_time of virtual time after its committed predecessor. Nothing is claimed about schedules not generated. Trigger-driven productions were always at mock-chain-tip+1, taken at the leader-state query, regardless of whether the task queried the tip.",
        "note": "Trusted: the mock ports/mock chain (accepts only tip+1 like the real importer; delivers valid chain continuations), the event recorder, the oracle's knowledge model (must-know vs may-know heights), tokio's paused-time semantics. Interval spacing is judged only for pairs without a foreign block in between; reconciliation imports after a failed import in the same batch are not judged. The harness empties fuel-core's global metrics registry between schedules (performance only).",
    },
    "C41": {
        "ready": True,
        "technique": "runtime monitoring: the real ServiceRunner over a scripted RunnableService/RunnableTask with 1-3 client tasks issuing start/stop/await in seeded orders; deterministic mode (current-thread runtime, paused time, seeded yields) and stress mode (4-thread runtime, distinct interleaving signatures counted); offline oracle over the recorded history",
        "text": "In all produced executions (64k cases quick / 1.12M thorough; 37k deterministic and 22k multi-threaded distinct interleavings in quick) observed states only moved forward through NotStarted<Starting<Started<Stopping<Stopped/StoppedWithError and never changed once stopped; no hook ran after a stopped state was observed; no run was entered after a hook returned following a recorded stop; into_task and shutdown ran at most once; await_stop/stop_and_await/StateWatcher waits only ever returned stopped states and, in deterministic mode, always resolved after stop was requested (1 h virtual time, all tasks idle), for init ok/err/panic/slow, run continue/stop/error/panic/blocks-until-stop, shutdown ok/err/panic/slow. One defect found by this monitor (StateWatcher::wait_stopping_or_stopped never resolving) was repaired by a fix: commit.",
        "note": "Trusted: the scripted hooks are finite in virtual time, tokio paused-time auto-advance, the shared logical clock used to order cross-thread observations. Liveness is judged only in deterministic mode; in stress mode a hung case is 'inconclusive'. 'Shutdown exactly once' and Stopped-vs-StoppedWithError consistency are not part of the statement and not judged.",
    },

    "C25": {
        "ready": True,
        "technique": "runtime monitoring: real RedisLeaderLeaseAdapter replicas over loopback TCP against in-process fake Redis nodes executing the repo's real Lua scripts; seeded fault switchboard plus directed adversarial scenarios; offline history oracle",
        "text": "In every explored run no two replicas committed different blocks at one height, no atomic snapshot of the nodes showed two block ids of one height each on a quorum, and no node's fencing epoch ever decreased while it kept its data. A quick run covers 12 directed scenarios and 16 universes of 22 s, with 2-3 replicas and 3-5 nodes each; faults: partitions, lost requests and replies, late script execution after client timeout, resets, forced lease expiry, data loss on <= budget nodes, replica crashes, crash between publish and commit. Runs without elections, publishes, rejections of each kind, repairs, late writes, wipes or completed scenarios are inconclusive. The fork defect found by this monitor (write_block.lua early exit) was repaired by a fix: commit.",
        "note": "Trusted base: a self-written Redis emulation (RESP2 framing, EVALSHA/NOSCRIPT/SCRIPT LOAD flow, GET/SET PX NX/DEL/INCR/PEXPIRE/TIME/XADD/XRANGE/XREVRANGE/XLEN/XTRIM, strings with TTL, streams with monotonic ids, per-node atomic script execution, Redis 7 Lua<->RESP conversion) and a Lua 5.1 subset interpreter, checked at every start by 227 hand-computed expectations incl. every branch of the six scripts on frozen reference copies; anything outside the emulated subset makes the run inconclusive. The replica loop is the harness's mirror of MainTask::try_to_produce_block plus the importer. Interleavings are those produced; stream trimming is not exercised; no clock skew between nodes (forced lease expiry stands in).",
    },
    "C01": {
        "ready": True,
        "technique": 'runtime monitoring: seeded generated chain sessions on the real upgradable executor (chaingen) + independent oracle',
        "text": 'Held on the executions produced: every block produced from generated transaction lists (all tx types, reverts/panics, invalid and colliding txs, 8 source behaviours, relayer events) was accepted by validate() on the same parent with identical canonical Changes, statuses and events; two validations agreed. Open finding: stale events of a skipped tx with utxo validation off.',
        "note": 'Trusted: chaingen harness, sorted-Changes comparison, Debug rendering of statuses/events; in-memory parents only.',
    },
    "C02": {
        "ready": True,
        "technique": 'runtime monitoring: seeded generated chain sessions on the real upgradable executor (chaingen) + independent oracle',
        "text": "Held on the executions produced: after every committed block the real Coins/Messages tables equalled an independent UTXO model and the reported coin/message events equalled both the model's expectation and the real table diff; no zero-amount or re-used coin ids; DA height respected on message spends.",
        "note": "Trusted: UtxoModel (written from the property text), the harness's copy of the relayer history; UTXO validation on.",
    },
    "C03": {
        "ready": True,
        "technique": 'runtime monitoring: seeded generated chain sessions on the real upgradable executor (chaingen) + independent oracle',
        "text": 'Held on the executions produced: every produced block ended in exactly one mint with the right index, price, asset and amount = sum of charged fees; gas and count limits held for limit-ignoring sources; validate() refused every mutated mint (8-13 mutants per block, with original and regenerated header). Open findings: size limit not enforced by the executor / exceeded by forced txs; fee minted vs charged for predicate inputs.',
        "note": "Trusted: arithmetic over block and statuses; DA advances follow the producer's cost rule; count limit = max_tx_count() of this build (1024, feature limited-tx-count).",
    },
    "C04": {
        "ready": True,
        "technique": 'runtime monitoring: seeded generated chain sessions on the real upgradable executor (chaingen) + independent oracle',
        "text": 'Held on the executions produced: failed scripts, executed alone, changed only the allowed tables (inputs, outputs, processed id, latest utxo, coinbase balance), kept retryable messages, produced no outbox message and paid their fee; skipped txs changed nothing, alone and in context.',
        "note": 'Trusted: attribution by single-tx block vs empty block on the same parent; the storage-write-before-failure evidence comes from receipts; fee equality not demanded for predicate inputs (only that a positive fee left the payer).',
    },
    "C05": {
        "ready": True,
        "technique": 'runtime monitoring: seeded generated chain sessions on the real upgradable executor (chaingen) + independent oracle',
        "text": "Held on the executions produced: blocks imported exactly the relayer's events of heights p+1..=d in order, no message twice over the history, every forced tx was executed or reported failed, and event_inbox_root matched an own RFC 6962 root; the block also validated.",
        "note": "Trusted: the harness's copy of the relayer history, own Merkle root; event hashes taken from the event types; both tx-id and relayed-tx-id forms of ForcedTransactionFailed accepted (counted).",
    },
    "C06": {
        "ready": True,
        "technique": 'runtime monitoring: seeded generated chain sessions on the real upgradable executor (chaingen) + independent oracle',
        "text": 'Held on the executions produced: no tx id executed twice over generated histories with same-block, next-block and late resubmissions (also without UTXO validation); the processed table equalled the history; validate() refused all hand-assembled blocks containing processed ids.',
        "note": "Trusted: the session's own log of committed blocks; no regenesis leg (C39 covers processed ids across regenesis).",
    },
    "C07": {
        "ready": True,
        "technique": 'runtime monitoring: seeded generated chain sessions on the real upgradable executor (chaingen) + independent oracle',
        "text": 'Held on the executions produced: native and WASM executors over the same parent agreed on produced block, Changes, statuses, events, skipped ids and error variants, dry runs, and accept/reject (with error variant) of valid and invalid blocks. Also compared: an executor whose native version differs from the block version (uploaded-WASM fallback path) for production, validation and dry_run under every utxo-validation override, and relayer faults inside the DA range (accept/reject + error variant).',
        "note": "Trusted: the WASM blob embedded by the harness build (rebuilt from /repo by the crate's build.rs); error variants compared by name; blocks far below 1024 txs.",
    },

    "C08": {
        "ready": True,
        "technique": "runtime monitoring: seeded hostile call histories (sequential + concurrent) against the real Importer over real databases, with fault injection at ports and storage",
        "text": "Across the observed sequential histories (46k judged calls per quick run, with duplicate/stale/skipped/tampered blocks, port and storage faults, back-pressure timeouts, on in-memory and RocksDB backends) and concurrent races of 2-4 callers, every successful import was for exactly the next height (or genesis on an empty database), found no pre-existing block/seal/transaction, carried no write to the block Merkle columns, left all its data readable and was announced exactly once, in commit order and never before its storage commit began; every failed import left the raw database dump and the height unchanged and announced nothing. Two defects found by this monitor (MemoryStore partial commit; historical ChangesList flatten) were repaired by fix: commits.",
        "note": "Trusted: harness ports and recording storage wrapper, typed reads through Database<OnChain>, raw column iteration for dumps (restricted to written columns on RocksDB), the height-link model. Only interleavings the scheduler produced are judged; injected storage failure happens before the backend is touched.",
    },
    "C26": {
        "ready": True,
        "technique": "runtime monitoring: real Import driven over repeated import() rounds against scripted peer/consensus/importer ports; offline oracle over the boundary log",
        "text": "In 38k generated cases per quick run (batch 1-5, buffer 1-4, up to 50% faulty answers: missing/short/misplaced/forged headers, missing/garbled transactions, errors, delays, importer and consensus failures, cache reuse across failed rounds) every execute_and_commit call was for committed+1, carried the authentic header, seal and transactions, and followed a successful consensus check; every header that failed the check, every short/misplaced header answer, every data:None transaction answer and every wrong first transaction list was followed by the matching peer report, and no peer was reported for a defect it did not produce.",
        "note": "Trusted: the scripted ports' own log, authenticity = equality with the generated chain. Report obligations are limited to defects the pipeline certainly reaches; SuccessfulBlockImport reports are only counted. Deterministic single-thread schedules with seeded yields.",
    },
    "C29": {
        "ready": True,
        "technique": "runtime monitoring: production relayer service (QuorumProvider over HTTP JSON-RPC, adaptive pager, retry loop) against a scripted DA node, writes observed at the RelayerDb port over a real Database<Relayer>",
        "text": "In about 900 cases per quick run (page sizes 1-7 shrinking and growing, max-logs limits, 2-6 finalized-head steps, restarts mid-sync, JSON-RPC/HTTP/garbage/closed-connection failures, storage failures) every insert was for exactly the next DA height, the stored heights were contiguous from the deploy height, each height at or below the synced height held exactly the generated fuel events in log-index order (responses were shuffled, unfinalized blocks carried a bogus extra log), nothing beyond the finalized head was stored, and the announced synced height never decreased nor exceeded what was stored.",
        "note": "Trusted: harness DA node (filters like a real node), expected events built from generator fields, reads of EventsHistory. DA block 0 is outside the domain when deploy height is 0 (relayer treats it as seen). A relayer that stops progressing is inconclusive (watchdog), not a violation; uses real wall time and localhost sockets.",
    },

    "C09": {
        "ready": True,
        "technique": "runtime monitoring: seeded commit histories through the real Database<D> of all five descriptions (memory + RocksDB, reopen), HeightLinkModel + map oracle",
        "text": "Held on the histories produced: every observed commit that was accepted carried exactly one height equal to latest+1 (or the first), every well-formed commit was accepted, rejected commits changed neither content nor height, and latest_height / persisted metadata / latest_view height equalled the last accepted height after every commit and reopen.",
        "note": "Trusted: mon-db/src/model.rs map model, the harness' row encoders (the table codecs themselves), the equivalent height lookup used for lists on non-on-chain databases. No crash-point injection inside commits; restarts are clean.",
    },
    "C11": {
        "ready": True,
        "technique": "runtime monitoring: differential execution of MemoryStore, RocksDb, HistoricalRocksDB (all rewind policies) and ChangesIterator against a sorted-map model with systematic prefix/start/direction enumeration over a boundary-heavy key alphabet",
        "text": "Held on the histories produced: after every accepted commit every backend held the model's contents, every get and every in-contract (prefix,start,direction) query over the alphabet {00,01,7F,FE,FF}^0..3 returned the model's entries in order, and held snapshots did not change. Three defects found by this monitor (reverse prefix iteration x2, ChangesList flatten) were repaired by fix: commits.",
        "note": "Trusted: filter+sort model_iter. Excluded and counted: duplicate-key lists (backends legitimately differ in how they reject), start outside prefix (outside the documented contract), forward prefixes shorter than a column's fixed prefix extractor. A valgrind memcheck pass (0 errors) was run by hand and is not part of the registered command. C11/C12 histories run in child processes with per-call breadcrumbs: a backend crash (SIGSEGV/SIGABRT) is reported as an attributable violation.",
    },
    "C12": {
        "ready": True,
        "steps": [{"crate": "mon-db", "name": "mon-db", "args_quick": {"per-shard": 2}}],
        "technique": "runtime monitoring: seeded histories of block commits, restarts with changing StateRewindPolicy, rollbacks and re-commits on a RocksDB-backed Database<OnChain>; view_at for every height after every step vs a per-height map model",
        "text": "Held on the histories produced: every successful view (fresh or held across later commits and rollbacks) returned exactly the state after its block whenever all diffs above it exist, every rollback restored the previous state and height (also after reopen), and failures were only the no-history error. Open known finding: wrong answers when the history above h has a gap after a rewind-policy change. One defect found by this monitor (held view reading history outside its snapshot) was repaired by a fix: commit.",
        "note": "Trusted: per-height map model and the diff-presence rule used only to label the known finding; view errors (no-history) are never judged; no crash points; fixed-length keys per column.",
    },
    "C16": {
        "ready": True,
        "technique": 'runtime monitoring: seeded hostile operation histories against the real PoolWorker (hook H1), snapshot after every operation, oracle derived from transaction contents',
        "text": 'Held on the histories produced: after each of ~0.9M executed pool operations (quick tier; inserts with collisions, evictions and dependencies, extraction, block import, preconfirmation success/failure/squeeze-out/stale, TTL, pending expiry; tiny and default limits) no two pooled txs shared a coin, message, created contract or blob, and published TxPoolStats and the accounting fields equalled the sums over pooled txs; no accounting, collision or selection assertion fired.',
        "note": "Trusted: hook verif.rs (thin calls into the worker's own methods), harness chain and status ports, TransactionBuilder with into_checked_basic and Metadata::new_test. The verification stage (signatures, fees, predicates, service-level TTL timers) is bypassed; Upgrade/Upload txs are not generated; block and preconfirmation environments are always chain-valid; pool panics are judged only by the owning property.",
    },
    "C17": {
        "ready": True,
        "technique": 'runtime monitoring: seeded hostile operation histories against the real PoolWorker (hook H1), snapshot after every operation, oracle derived from transaction contents',
        "text": 'Held on the histories produced: after each of ~0.9M executed pool operations the content-derived dependency graph stayed acyclic, diamond-free and within max_txs_chain_count; extraction listed parents first; every non-inclusion removal (collision, eviction, TTL, skip, rollback) took all transitive dependents with it.',
        "note": "Trusted: hook verif.rs (thin calls into the worker's own methods), harness chain and status ports, TransactionBuilder with into_checked_basic and Metadata::new_test. The verification stage (signatures, fees, predicates, service-level TTL timers) is bypassed; Upgrade/Upload txs are not generated; block and preconfirmation environments are always chain-valid; pool panics are judged only by the owning property.",
    },
    "C18": {
        "ready": True,
        "technique": 'runtime monitoring: seeded hostile operation histories against the real PoolWorker (hook H1), snapshot after every operation, oracle derived from transaction contents',
        "text": 'Held on the histories produced: every extraction (random gas, size, count, min-price and excluded-contract constraints, ~130k per run) respected all limits, was conflict-free, parent-first, ordered by (tip+1)/max_gas among simultaneously executable txs, and left none of its txs pooled.',
        "note": "Trusted: hook verif.rs (thin calls into the worker's own methods), harness chain and status ports, TransactionBuilder with into_checked_basic and Metadata::new_test. The verification stage (signatures, fees, predicates, service-level TTL timers) is bypassed; Upgrade/Upload txs are not generated; block and preconfirmation environments are always chain-valid; pool panics are judged only by the owning property.",
    },
    "C19": {
        "ready": True,
        "technique": 'runtime monitoring: seeded hostile operation histories against the real PoolWorker (hook H1), snapshot after every operation, oracle derived from transaction contents',
        "text": 'Held on the histories produced: every accepted submission (~210k per run) had a non-duplicate id, inputs that exist (on chain, in the pool or as an unsettled output) with matching fields and not handed out, existing contracts, and on collision a strictly higher tip/gas than each collided subtree, which was evicted; ~115k plain submissions were all accepted. Open known finding: the bounded spent-input cache (S6). A stale-subtree-totals defect found by the thorough tier was repaired by a fix: commit.',
        "note": "Trusted: hook verif.rs (thin calls into the worker's own methods), harness chain and status ports, TransactionBuilder with into_checked_basic and Metadata::new_test. The verification stage (signatures, fees, predicates, service-level TTL timers) is bypassed; Upgrade/Upload txs are not generated; block and preconfirmation environments are always chain-valid; pool panics are judged only by the owning property.",
    },
    "C20": {
        "ready": True,
        "technique": 'runtime monitoring: seeded hostile operation histories against the real PoolWorker (hook H1), snapshot after every operation, oracle derived from transaction contents',
        "text": 'Held on the histories produced: after every block import the included txs left the pool, omitted preconfirmed txs had their dependents evicted and their outputs, contracts and spent marks withdrawn (probed by ~30k follow-up inserts), could be resubmitted, and stale preconfirmations changed nothing. A debug-assertion panic on blocks containing a pooled parent and child was repaired by a fix: commit.',
        "note": "Trusted: hook verif.rs (thin calls into the worker's own methods), harness chain and status ports, TransactionBuilder with into_checked_basic and Metadata::new_test. The verification stage (signatures, fees, predicates, service-level TTL timers) is bypassed; Upgrade/Upload txs are not generated; block and preconfirmation environments are always chain-valid; pool panics are judged only by the owning property.",
    },
    "C21": {
        "ready": True,
        "technique": 'runtime monitoring: seeded hostile operation histories against the real PoolWorker (hook H1), snapshot after every operation, oracle derived from transaction contents',
        "text": 'Held on the histories produced: for every operation the status-sink log contained exactly one squeezed-out report per non-inclusion exit (~130k) and none for handed-out, committed, preconfirmed or still-pooled txs.',
        "note": "Trusted: hook verif.rs (thin calls into the worker's own methods), harness chain and status ports, TransactionBuilder with into_checked_basic and Metadata::new_test. The verification stage (signatures, fees, predicates, service-level TTL timers) is bypassed; Upgrade/Upload txs are not generated; block and preconfirmation environments are always chain-valid; pool panics are judged only by the owning property.",
    },

    "C36": {
        "ready": True,
        "technique": "runtime monitoring: chaingen block histories fed block by block through the real worker event processing into a real off-chain DB (+ in-process node leg with the real worker task); indexes recomputed from the on-chain tables after every block",
        "text": "After every one of ~3.8k (quick) / ~120k (thorough) generated blocks - coin creation and consumption in 3 assets, coins created and spent within one block, zero-amount outputs, coin-like and data messages imported from the relayer and consumed, reverted scripts keeping data messages - CoinBalances equalled the sum of each owner's unspent coins per asset, MessageBalances the retryable/non-retryable sums of unspent messages, and OwnedCoins, OwnedMessageIds and CoinsToSpendIndex listed exactly the unspent coins and messages with the right owner, asset, amount and retryable flag; a real ReadView (balance, balances, owned coins/messages, coins_to_spend at total and total+1) answered accordingly; the same held on an in-process node after every produced block.",
        "note": "Trusted: on-chain Coins/Messages tables (C02), the ~30-line recomputation, retryable = message with data. Session leg calls the public process_transactions/process_executor_events (Task::process_block is private; covered only by the node leg). ReadView::balance adds non-retryable messages only (upstream TODO); zero balances == absent.",
    },
    "C45": {
        "ready": True,
        "technique": "runtime monitoring: byte-wise database dumps around every read-only request, duplicate requests, production before/after dry runs; real Producer::dry_run over chaingen sessions (in-memory and HistoricalRocksDB) and a FuelService node through FuelClient",
        "text": "For ~9k (quick) / ~120k (thorough) dry-run requests at producer level (valid, reverting, invalid and unknown-contract transactions, singly and in groups; latest, next, past and future heights; utxo validation on/off; gas price given/default; storage-read recording) every on-chain and relayer column was byte-identical before and after, the repeated request gave the identical answer, and each block produced after all its dry runs was identical to the one produced before them; on an in-process node dry_run, dry_run_opt (incl. past heights), record_storage_reads, estimate_predicates, assemble_tx and 12 read-only queries left the on-chain, off-chain and relayer databases byte-identical, deterministic endpoints repeated their answers, and dry-run transactions (and the signed assembled transaction) were then accepted by the pool and included.",
        "note": "Trusted: dump covers the Column enums (not RocksDB history CFs, gas-price/compression DBs); node dumps taken while quiescent (manual blocks). Producer-level relayer/gas-price/params ports are stubs. assemble_tx/coins_to_spend are randomised: only side effects judged. Pool refusals are judged only for inputs never given to the pool. The producer-level relayer port reports a finalized DA height that the harness advances between the two identical requests; answers must not depend on it.",
    },
}
