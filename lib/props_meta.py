"""Per-property metadata: readiness, level, technique, assurance text, trusted base.
One entry per property; edited as monitors land."""

META = {
}
