"""Property -> monitor steps. `ready` properties are the ones claimed in MANIFEST.json."""


def cargo(crate, **kw):
    d = {"crate": crate, "name": crate}
    d.update(kw)
    return d


def P(steps, level="exploration", ready=False, technique="", text="", note="", design=""):
    return {"steps": steps, "level": level, "ready": ready, "technique": technique,
            "text": text, "note": note, "design": design}


PROPS = {}


def reg(pid, crate, **kw):
    steps = kw.pop("steps", None) or [cargo(crate)]
    PROPS[pid] = P(steps, **kw)


for pid in ["C01", "C02", "C03", "C04", "C05", "C06"]:
    reg(pid, "mon-exec")
reg("C07", "mon-wasm")
reg("C08", "mon-importer")
for pid in ["C10", "C13", "C14"]:
    reg(pid, "mon-kv")
for pid in ["C09", "C11", "C12"]:
    reg(pid, "mon-db")
reg("C15", "mon-consensus")
for pid in ["C16", "C17", "C18", "C19", "C20", "C21"]:
    reg(pid, "mon-txpool")
for pid in ["C22", "C23", "C44"]:
    reg(pid, "mon-status")
reg("C24", "mon-poa")
reg("C25", "mon-ha")
reg("C26", "mon-sync")
for pid in ["C27", "C28", "C31", "C34", "C35"]:
    reg(pid, "mon-pure")
reg("C29", "mon-relayer")
reg("C30", "mon-producer")
reg("C32", "mon-p2p")
reg("C33", "mon-compress")
for pid in ["C36", "C37", "C38", "C45"]:
    reg(pid, "mon-api")
for pid in ["C39", "C40"]:
    reg(pid, "mon-genesis")
reg("C41", "mon-service")
reg("C42", "mon-seqlock", steps=[cargo("mon-seqlock"), {"name": "miri-seqlock", "crate": "miri-seqlock", "build": [], "run": ["python3", "{root}/lib/miri_seqlock.py"], "replayable": False, "kind": "cargo +nightly miri run over a crate that #[path]-includes the real seqlock.rs"}])
reg("C43", "mon-aggregator")

# per-property overrides (level, readiness, texts) live in props_meta.py so that
# monitor authors can edit them without touching this file.
try:
    from props_meta import META
    for pid, m in META.items():
        PROPS[pid].update(m)
except ImportError:
    pass
