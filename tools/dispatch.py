#!/usr/bin/env python3
"""Lead-only helper: adopts confirmed seeded changes and runs the property's quick check
against each one on whichever test lane is idle. Loops until /tmp/lead/dispatch.stop exists."""
import glob, json, os, subprocess, time

ROOT = "/verif"
LANES = ["lane2", "lane3", "lane4", "repo"]
busy = {}  # lane -> (Popen, sid)
done_or_running = set(open("/tmp/lead/dispatch.skip").read().split()) if os.path.exists("/tmp/lead/dispatch.skip") else set()


def lane_ready(lane):
    if lane == "repo":
        return True
    return os.path.exists(f"/tmp/{lane}/harness/target/release/mon-wasm")


def adopted():
    out = []
    for mp in sorted(glob.glob(f"{ROOT}/seeded/*/meta.json")):
        m = json.load(open(mp))
        out.append((m["id"], m))
    return out


while not os.path.exists("/tmp/lead/dispatch.stop"):
    # adopt newly confirmed
    for cj in glob.glob("/tmp/seed/out/*/confirm.json"):
        d = os.path.dirname(cj)
        sid = os.path.basename(d)
        mp = f"{ROOT}/seeded/{sid}/meta.json"
        if os.path.exists(mp) and "status" not in json.load(open(mp)).get("confirmed_by_lead", {}):
            continue
        try:
            c = json.load(open(cj))
        except Exception:
            continue
        subprocess.run([f"{ROOT}/tools/adopt_seed.py", d], stdout=subprocess.DEVNULL, stderr=subprocess.DEVNULL)
    # reap
    for lane in list(busy):
        p, sid = busy[lane]
        if p.poll() is not None:
            del busy[lane]
    # assign
    todo = [sid for sid, m in adopted() if not m.get("check_results") and sid not in done_or_running]
    # keep seeds of the same property apart in time is not needed; just go in order
    for lane in LANES:
        if lane in busy or not lane_ready(lane) or not todo:
            continue
        if os.path.exists(f"/tmp/lead/{lane}.hold"):
            continue
        sid = todo.pop(0)
        done_or_running.add(sid)
        log = open(f"/tmp/lead/dispatch_{lane}.log", "a")
        p = subprocess.Popen(["python3", f"{ROOT}/tools/seedrun.py", lane, sid], stdout=log, stderr=subprocess.STDOUT, cwd=ROOT)
        busy[lane] = (p, sid)
    time.sleep(30)
