#!/usr/bin/env python3
"""Confirm a GROUP of seeded changes that live in the same (expensive) crate with few builds:
   all demos are applied at once; each demo must pass without its patch; then per seed the
   patch is applied, its demo must fail and the existing tests (minus the group's demo tests
   of that seed) must pass.  Writes <deliverable>/confirm.json for each.
Usage: confirm_group.py <worktree> <target-dir> <deliverable-dir>..."""
import json, os, re, subprocess, sys, time

wt, target = sys.argv[1:3]
dirs = [d.rstrip("/") for d in sys.argv[3:]]
env = dict(os.environ, CARGO_NET_OFFLINE="true", CARGO_TARGET_DIR=target)


def sh(cmd, timeout=5400):
    t = time.time()
    try:
        p = subprocess.run(["bash", "-c", cmd], cwd=wt, env=env, stdout=subprocess.PIPE, stderr=subprocess.STDOUT, text=True, timeout=timeout)
        return p.returncode, p.stdout[-4000:], round(time.time() - t, 1)
    except subprocess.TimeoutExpired:
        return 124, "timeout", round(time.time() - t, 1)


def git(*a):
    return subprocess.run(["git", "-C", wt] + list(a), stdout=subprocess.PIPE, stderr=subprocess.STDOUT, text=True)


def clean():
    git("checkout", "--", "."); git("clean", "-fdq", "crates", "tests", "bin")


def strip(cmd):
    def _pre(x):
        m = re.search(r"cargo\s+(test|nextest|check|run)\b.*", x)
        if m:
            x = m.group(0)
            x = re.sub(r"\s{2,}\(.*$", "", x)
            x = re.sub(r"\s+\((after|without|with|run|note)\b.*$", "", x)
        return x
    parts = [_pre(x.strip()) for x in cmd.split("&&")]
    keep = [x for x in parts if x and not x.startswith("cd ") and not x.startswith(". ") and not x.startswith("source ")
            and not x.startswith("export ") and not x.startswith("mkdir ") and not x.startswith("cp ") and "git apply" not in x
            and "git checkout" not in x and "git stash" not in x and "git clean" not in x]
    keep = [re.sub(r"\b(CARGO_TARGET_DIR|CARGO_HOME|CARGO_NET_OFFLINE|ROCKSDB_LIB_DIR|ROCKSDB_STATIC)=\S+\s*", "", x) for x in keep]
    def core(x):
        m = re.search(r"cargo\s+(test|nextest|check|run)\b.*", x)
        x = m.group(0) if m else x
        x = re.sub(r"\s{2,}\(.*$", "", x)
        x = re.sub(r"\s+\((after|without|with|run|note)\b.*$", "", x)
        return x
    keep = [core(x) for x in keep]
    keep = [x.strip().lstrip("[]() ").rstrip("[]() ") for x in keep]
    keep = [x for x in keep if x]
    return " && ".join(keep)


def failed_names(out):
    return sorted({l.strip() for l in out.splitlines() if l.startswith("    ") and "::" in l and " " not in l.strip()})


LOAD_SENSITIVE = ("import__execution_error_on_header_4_when_awaits_for_1000000_blocks",
                  "executes_5_tasks_for_5_seconds_with_one_thread", "executes_10_tasks_for_5_seconds_with_one_thread",
                  "tests_preconf_rollback::", "test_gossipped_transaction_with_transient_error_ignored",
                  "prune_expired", "test_prune_transactions_the_oldest", "insert__tx_depends_one_extracted_and_one_pool_tx",
                  "max_peers_connected_works", "reserved_nodes_reconnect_works")

clean()
head = subprocess.run(["git", "-C", "/repo", "rev-parse", "HEAD"], stdout=subprocess.PIPE, text=True).stdout.strip()
git("checkout", "-q", "--detach", head)
subprocess.run(["bash", "-c", "find crates bin tests -name lib.rs -o -name main.rs -o -name build.rs | grep -v /target | xargs -r touch"], cwd=wt)

metas, res, demo_fns = {}, {}, {}
for d in dirs:
    metas[d] = json.load(open(os.path.join(d, "meta.json")))
    res[d] = {"deliverable": d, "worktree": wt, "repo_head": head, "mode": "group (all demos of the group applied together)"}
    r = git("apply", "--check", os.path.join(d, "patch.diff"))
    res[d]["patch_applies"] = r.returncode == 0
    demo = os.path.join(d, "demo.diff")
    fns = re.findall(r"^\+\s*(?:pub\s+)?(?:async\s+)?fn\s+(\w+)\s*\(", open(demo).read(), re.M) if os.path.exists(demo) else []
    demo_fns[d] = fns
    r = git("apply", demo)
    if r.returncode != 0:
        # several demos append at the same place: let patch(1) place the hunk with fuzz
        r = subprocess.run(["patch", "-p1", "-F3", "-N", "--no-backup-if-mismatch", "-i", demo], cwd=wt,
                           stdout=subprocess.PIPE, stderr=subprocess.STDOUT, text=True)
        subprocess.run(["bash", "-c", "find . -name '*.rej' -newer /tmp/lead/cutoff -not -path './target*' -delete"], cwd=wt)
    res[d]["demo_applies"] = r.returncode == 0
    if r.returncode != 0:
        res[d]["error"] = "demo.diff does not apply together with the others: " + r.stdout[-300:]

# 1) all demos without any patch
for d in dirs:
    if not (res[d]["patch_applies"] and res[d]["demo_applies"]):
        continue
    rc, out, t = sh(strip(metas[d].get("demo_cmd", "")))
    res[d]["demo_without_patch"] = {"rc": rc, "secs": t, "tail": out[-600:]}
    print(d, "demo without patch rc", rc, t, flush=True)

# 2) per seed with its patch
for d in dirs:
    if "demo_without_patch" not in res[d]:
        continue
    patch = os.path.join(d, "patch.diff")
    r = git("apply", patch)
    if r.returncode != 0:
        res[d]["error"] = "patch does not apply on top of the demos: " + r.stdout[-300:]
        continue
    rc, out, t = sh(strip(metas[d].get("demo_cmd", "")))
    res[d]["demo_with_patch"] = {"rc": rc, "secs": t, "tail": out[-600:]}
    ex_cmd = strip(metas[d].get("existing_tests_cmd", ""))
    skips = " ".join(f"--skip {f}" for f in demo_fns[d])
    # every cargo-test invocation in the command gets the skips
    cmds = []
    for part in ex_cmd.split(" && "):
        if "cargo test" in part and skips:
            part = part + (" " if " -- " in part or part.endswith(" --") else " -- ") + skips
        cmds.append(part)
    ex_cmd2 = " && ".join(cmds)
    attempts = []
    for _ in range(2):
        rc2, out2, t2 = sh(ex_cmd2)
        attempts.append({"rc": rc2, "secs": t2, "failed_tests": failed_names(out2)[:10]})
        if rc2 == 0:
            break
    only_flaky = rc2 != 0 and all(a["failed_tests"] and all(any(k in x for k in LOAD_SENSITIVE) for x in a["failed_tests"]) for a in attempts)
    res[d]["existing_tests_with_patch"] = {"rc": rc2, "secs": t2, "tail": out2[-800:], "attempts": attempts, "cmd": ex_cmd2,
                                           "only_load_sensitive_failures": only_flaky}
    res[d]["confirmed"] = (res[d]["demo_without_patch"]["rc"] == 0 and rc != 0 and rc != 124 and (rc2 == 0 or only_flaky))
    git("apply", "-R", patch)
    print(d, "confirmed" if res[d]["confirmed"] else "NOT confirmed", "demo_with", rc, "existing", rc2, attempts[-1]["failed_tests"][:3], flush=True)

clean()
for d in dirs:
    res[d].setdefault("confirmed", False)
    json.dump(res[d], open(os.path.join(d, "confirm.json"), "w"), indent=1)
