#!/bin/sh
# Runs every registered check once: tools/run_all.sh [quick|thorough] [seed]  -> summary on stdout
TIER=${1:-quick}; SEED=${2:-20260921}
cd "$(dirname "$0")/.." || exit 1
for i in $(seq -w 1 45); do
  P=C$i
  t0=$(date +%s)
  out=$(VERIF_SEED=$SEED ./check $P --tier $TIER 2>&1); rc=$?
  t1=$(date +%s)
  echo "$P exit=$rc secs=$((t1-t0)) $(echo "$out" | grep -E '^(HELD|VIOLATION|INCONCLUSIVE|KNOWN-FINDING)' | cut -c1-150 | tr '\n' '|')"
done
