#!/usr/bin/env python3
import glob, json, os
caught=missed=pending=inc=0; ml=[]; unconf=[]
for mp in sorted(glob.glob('/verif/seeded/*/meta.json')):
    m=json.load(open(mp)); r=m.get('check_results',[])
    if 'status' in m.get('confirmed_by_lead',{}): unconf.append(m['id'])
    if not r: pending+=1
    elif any(x['exit']==1 for x in r): caught+=1
    elif any(x['exit']==0 for x in r): missed+=1; ml.append(m['id'])
    else: inc+=1; ml.append(m['id']+'(exit %s)'%r[0]['exit'])
print(f"caught={caught} missed={missed} other={inc} pending={pending} unconfirmed={len(unconf)}")
print("missed/other:", ' '.join(ml))
