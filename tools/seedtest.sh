#!/bin/sh
# Usage: tools/seedtest.sh <seeded-dir> <PROPERTY> [tier]
# Applies /verif/seeded/<dir>/patch.diff to /repo, runs the property's check,
# and ALWAYS reverts /repo afterwards. Prints the check's exit code.
set -u
D="$1"; P="$2"; T="${3:-quick}"
cd /repo || exit 9
if [ -n "$(git status --porcelain --untracked-files=no)" ]; then echo "seedtest: /repo has uncommitted changes, refusing"; exit 9; fi
git apply "/verif/seeded/$D/patch.diff" || { echo "seedtest: patch does not apply"; exit 9; }
cd /verif && ./check "$P" --tier "$T"; rc=$?
git -C /repo checkout -- . 
echo "seedtest: $D property=$P tier=$T check_exit=$rc"
exit 0
