#!/usr/bin/env python3
"""Run the property's check against adopted seeded changes and record the results.
Usage: seedrun.py lane2|repo <seed-id>...     (lane2 = scratch worktree lane; repo = /repo itself)"""
import json, os, subprocess, sys, time
ROOT = "/verif"
lane = sys.argv[1]
import fcntl
_lk = open(f"/tmp/lead/{lane}.lock", "w")
fcntl.flock(_lk, fcntl.LOCK_EX)  # one run per lane at a time, even across dispatcher restarts
for sid in sys.argv[2:]:
    meta = json.load(open(f"{ROOT}/seeded/{sid}/meta.json"))
    prop = meta["property"]
    patch = f"{ROOT}/seeded/{sid}/patch.diff"
    t0 = time.time()
    if lane.startswith("lane"):
        out = f"/tmp/{lane}/out"
        p = subprocess.run([f"{ROOT}/tools/lane2.sh", patch, prop], env=dict(os.environ, LANE_DIR=f"/tmp/{lane}"), stdout=subprocess.PIPE, stderr=subprocess.STDOUT, text=True)
    else:
        out = ROOT + "/seedout"
        os.makedirs(out, exist_ok=True)
        st = subprocess.run(["git", "-C", "/repo", "status", "--porcelain", "--untracked-files=no"], stdout=subprocess.PIPE, text=True).stdout
        if st.strip():
            print("repo dirty, refusing"); sys.exit(9)
        a = subprocess.run(["git", "-C", "/repo", "apply", patch])
        if a.returncode != 0:
            print(f"{sid}: patch does not apply"); continue
        try:
            env = dict(os.environ, VERIF_OUT=out)
            p = subprocess.run([f"{ROOT}/check", prop, "--tier", "quick"], cwd=ROOT, env=env, stdout=subprocess.PIPE, stderr=subprocess.STDOUT, text=True)
            p.stdout += f"\nlane2: patch={patch} property={prop} check_exit={p.returncode}\n"
        finally:
            subprocess.run(["git", "-C", "/repo", "checkout", "--", "."])
    ex = None
    for l in p.stdout.splitlines():
        if "check_exit=" in l:
            ex = int(l.rsplit("check_exit=", 1)[1])
    sig = ""
    try:
        ev = json.load(open(f"{out}/evidence/{prop}.json"))
        sigs = ev["coverage"].get("new_violation_signatures", [])
        sig = sigs[0] if sigs else ("inconclusive: " + "; ".join(ev["coverage"].get("inconclusive_reasons", []))[:200] if ex == 2 else "")
    except Exception as e:  # noqa
        sig = f"(no evidence: {e})"
    if ex is None:
        ex = 9; sig = p.stdout[-300:]
    subprocess.run([f"{ROOT}/tools/adopt_seed.py", "--result", sid, prop, "quick", str(ex), sig], stdout=subprocess.DEVNULL)
    print(f"{sid}: property={prop} exit={ex} sig={sig[:120]} ({time.time()-t0:.0f}s)", flush=True)
