#!/bin/sh
# Second test lane (lead only): scratch worktree /tmp/lane2/repo + copy of the harness
# pointing at it. Usage: tools/lane2.sh <patch.diff> <PROPERTY>... 
# Applies the patch in the scratch worktree, runs the checks there, reverts.
set -u
PATCH="$1"; shift
L=${LANE_DIR:-/tmp/lane2}
[ -d $L/cargo-home ] && export CARGO_HOME=$L/cargo-home
( cd /verif/harness && rsync -a --exclude target --exclude 'target-*' ./ $L/harness/ && cd $L/harness && sed -i "s#/repo/#$L/repo/#g" Cargo.toml miri-seqlock/src/main.rs )
git -C $L/repo checkout -q --detach "$(git -C /repo rev-parse HEAD)" 2>/dev/null
git -C $L/repo checkout -- . 
git -C $L/repo apply "$PATCH" || { echo "lane2: patch does not apply: $PATCH"; exit 9; }
for P in "$@"; do
  ( cd /verif && VERIF_HARNESS=$L/harness VERIF_OUT=$L/out ./check "$P" --tier quick ); rc=$?
  echo "lane2: patch=$PATCH property=$P check_exit=$rc"
done
git -C $L/repo checkout -- .
