#!/usr/bin/env python3
"""Independently confirm a seeded change in a scratch worktree:
   (1) patch applies; (2) demo fails with the patch; (3) demo passes without it;
   (4) the existing tests named in meta.json pass with the patch.
Usage: confirm_seed.py <deliverable-dir> <worktree> <target-dir>
Writes <deliverable-dir>/confirm.json."""
import json, os, subprocess, sys, time

d, wt, target = sys.argv[1:4]
meta = json.load(open(os.path.join(d, "meta.json")))
env = dict(os.environ, CARGO_NET_OFFLINE="true", CARGO_TARGET_DIR=target)

def sh(cmd, timeout=3600):
    t = time.time()
    p = subprocess.run(["bash", "-c", cmd], cwd=wt, env=env, stdout=subprocess.PIPE, stderr=subprocess.STDOUT, text=True, timeout=timeout)
    return p.returncode, p.stdout[-3000:], round(time.time() - t, 1)

def git(*a):
    return subprocess.run(["git", "-C", wt] + list(a), stdout=subprocess.PIPE, stderr=subprocess.STDOUT, text=True)

def clean():
    git("checkout", "--", "."); git("clean", "-fdq", "crates", "tests", "bin")

def strip(cmd):
    # run the agent's command inside our worktree; we apply/revert patches ourselves
    parts = [x.strip() for x in cmd.split("&&")]
    keep = [x for x in parts if x and not x.startswith("cd ") and "git apply" not in x
            and "git checkout" not in x and "git stash" not in x and "git clean" not in x]
    import re
    keep = [re.sub(r"\b(CARGO_TARGET_DIR|CARGO_HOME|CARGO_NET_OFFLINE)=\S+\s*", "", x) for x in keep]
    return " && ".join(keep)

res = {"deliverable": d, "worktree": wt}
clean()
patch, demo = os.path.join(d, "patch.diff"), os.path.join(d, "demo.diff")
r = git("apply", "--check", patch); res["patch_applies"] = r.returncode == 0
if not res["patch_applies"]:
    res["error"] = r.stdout[-500:]
else:
    has_demo = os.path.exists(demo)
    res["has_demo_diff"] = has_demo
    demo_cmd = strip(meta.get("demo_cmd", ""))
    ex_cmd = strip(meta.get("existing_tests_cmd", ""))
    # without patch
    if has_demo:
        r = git("apply", demo); res["demo_applies"] = r.returncode == 0
    rc, out, t = sh(demo_cmd); res["demo_without_patch"] = {"rc": rc, "secs": t, "tail": out[-600:]}
    # with patch
    git("apply", patch)
    rc, out, t = sh(demo_cmd); res["demo_with_patch"] = {"rc": rc, "secs": t, "tail": out[-600:]}
    # existing tests with patch, without the demo
    clean(); git("apply", patch)
    rc, out, t = sh(ex_cmd); res["existing_tests_with_patch"] = {"rc": rc, "secs": t, "tail": out[-800:]}
    res["confirmed"] = (res["demo_without_patch"]["rc"] == 0 and res["demo_with_patch"]["rc"] != 0
                        and res["existing_tests_with_patch"]["rc"] == 0)
clean()
json.dump(res, open(os.path.join(d, "confirm.json"), "w"), indent=1)
print(d, "confirmed" if res.get("confirmed") else "NOT confirmed", {k: (v["rc"] if isinstance(v, dict) else v) for k, v in res.items() if k not in ("deliverable", "worktree")})
