#!/usr/bin/env python3
"""Independently confirm a seeded change in a scratch worktree:
   (1) patch applies; (2) demo fails with the patch; (3) demo passes without it;
   (4) the existing tests named in meta.json pass with the patch.
Usage: confirm_seed.py <deliverable-dir> <worktree> <target-dir>
Writes <deliverable-dir>/confirm.json."""
import json, os, re, subprocess, sys, time

d, wt, target = sys.argv[1:4]
meta = json.load(open(os.path.join(d, "meta.json")))
env = dict(os.environ, CARGO_NET_OFFLINE="true", CARGO_TARGET_DIR=target)

def sh(cmd, timeout=3600):
    t = time.time()
    p = subprocess.run(["bash", "-c", cmd], cwd=wt, env=env, stdout=subprocess.PIPE, stderr=subprocess.STDOUT, text=True, timeout=timeout)
    return p.returncode, p.stdout[-3000:], round(time.time() - t, 1)

def git(*a):
    return subprocess.run(["git", "-C", wt] + list(a), stdout=subprocess.PIPE, stderr=subprocess.STDOUT, text=True)

def clean():
    git("checkout", "--", "."); git("clean", "-fdq", "crates", "tests", "bin")

def strip(cmd):
    # run the agent's command inside our worktree; we apply/revert patches ourselves
    def _pre(x):
        m = re.search(r"cargo\s+(test|nextest|check|run)\b.*", x)
        if m:
            x = m.group(0)
            x = re.sub(r"\s{2,}\(.*$", "", x)
            x = re.sub(r"\s+\((after|without|with|run|note)\b.*$", "", x)
        return x
    parts = [_pre(x.strip()) for x in cmd.split("&&")]
    keep = [x for x in parts if x and not x.startswith("cd ") and not x.startswith(". ") and not x.startswith("source ")
            and not x.startswith("export ") and not x.startswith("mkdir ") and not x.startswith("cp ") and "git apply" not in x
            and "git checkout" not in x and "git stash" not in x and "git clean" not in x]
    import re
    keep = [re.sub(r"\b(CARGO_TARGET_DIR|CARGO_HOME|CARGO_NET_OFFLINE)=\S+\s*", "", x) for x in keep]
    def core(x):
        m = re.search(r"cargo\s+(test|nextest|check|run)\b.*", x)
        x = m.group(0) if m else x
        x = re.sub(r"\s{2,}\(.*$", "", x)
        x = re.sub(r"\s+\((after|without|with|run|note)\b.*$", "", x)
        return x
    keep = [core(x) for x in keep]
    keep = [x.strip().lstrip("[]() ").rstrip("[]() ") for x in keep]
    keep = [x for x in keep if x]
    return " && ".join(keep)

res = {"deliverable": d, "worktree": wt}
clean()
# confirm against the CURRENT /repo HEAD (hooks + fix: commits), not the commit the
# seeding agent started from
head = subprocess.run(["git", "-C", "/repo", "rev-parse", "HEAD"], stdout=subprocess.PIPE, text=True).stdout.strip()
git("checkout", "-q", "--detach", head)
res["repo_head"] = head
# The target dir is shared by several scratch worktrees (sequentially): mark every workspace
# crate of THIS worktree dirty so that nothing built from another worktree's (possibly
# patched) sources is reused.
subprocess.run(["bash", "-c", "find crates bin tests -name lib.rs -o -name main.rs -o -name build.rs | grep -v /target | xargs -r touch"], cwd=wt)
patch, demo = os.path.join(d, "patch.diff"), os.path.join(d, "demo.diff")
r = git("apply", "--check", patch); res["patch_applies"] = r.returncode == 0
if not res["patch_applies"]:
    res["error"] = r.stdout[-500:]
else:
    has_demo = os.path.exists(demo)
    res["has_demo_diff"] = has_demo
    demo_cmd = strip(meta.get("demo_cmd", ""))
    ex_cmd = strip(meta.get("existing_tests_cmd", ""))
    # without patch
    if has_demo:
        r = git("apply", demo); res["demo_applies"] = r.returncode == 0
    rc, out, t = sh(demo_cmd); res["demo_without_patch"] = {"rc": rc, "secs": t, "tail": out[-600:]}
    # with patch
    git("apply", patch)
    rc, out, t = sh(demo_cmd); res["demo_with_patch"] = {"rc": rc, "secs": t, "tail": out[-600:]}
    # existing tests with patch, without the demo
    clean(); git("apply", patch)
    attempts = []
    for _ in range(3):  # wall-clock-sensitive tests of the repo fail under machine load: retry
        rc, out, t = sh(ex_cmd)
        fails = [l.strip() for l in out.splitlines() if l.startswith("    ") and "::" in l and " " not in l.strip()]
        attempts.append({"rc": rc, "secs": t, "failed_tests": sorted(set(fails))[:10]})
        if rc == 0:
            break
    res["existing_tests_with_patch"] = {"rc": rc, "secs": t, "tail": out[-800:], "attempts": attempts}
    # wall-clock-sensitive tests of the repo that fail on the UNPATCHED tree too when the
    # machine is loaded (hard 1 s / 50 ms timeouts); a run whose only failures are these is
    # accepted and the fact recorded
    LOAD_SENSITIVE = ("import__execution_error_on_header_4_when_awaits_for_1000000_blocks",
                      "executes_5_tasks_for_5_seconds_with_one_thread", "executes_10_tasks_for_5_seconds_with_one_thread",
                      "tests_preconf_rollback::", "test_gossipped_transaction_with_transient_error_ignored",
                      "prune_expired", "test_prune_transactions_the_oldest", "insert__tx_depends_one_extracted_and_one_pool_tx",
                      "executes_10_blocks", "_awaits_")
    ex = res["existing_tests_with_patch"]
    only_flaky = ex["rc"] != 0 and all(a["failed_tests"] and all(any(k in t for k in LOAD_SENSITIVE) for t in a["failed_tests"]) for a in ex["attempts"])
    ex["only_load_sensitive_failures"] = only_flaky
    res["confirmed"] = (res["demo_without_patch"]["rc"] == 0 and res["demo_with_patch"]["rc"] != 0
                        and (ex["rc"] == 0 or only_flaky))
clean()
json.dump(res, open(os.path.join(d, "confirm.json"), "w"), indent=1)
print(d, "confirmed" if res.get("confirmed") else "NOT confirmed", {k: (v["rc"] if isinstance(v, dict) else v) for k, v in res.items() if k not in ("deliverable", "worktree")})
