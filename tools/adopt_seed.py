#!/usr/bin/env python3
"""Copy a confirmed seeded change into /verif/seeded/<id>/ and (re)generate seeded/RESULTS.md.
Usage: adopt_seed.py <deliverable-dir>            (needs confirm.json with confirmed=true)
       adopt_seed.py --result <id> <PROP> <tier> <exit> <first-signature-or-note>   (record a check result)
       adopt_seed.py --table"""
import json, os, shutil, sys

ROOT = os.path.dirname(os.path.dirname(os.path.abspath(__file__)))
SEEDED = os.path.join(ROOT, "seeded")

def table():
    rows = []
    for d in sorted(os.listdir(SEEDED)):
        mp = os.path.join(SEEDED, d, "meta.json")
        if not os.path.exists(mp):
            continue
        m = json.load(open(mp))
        res = m.get("check_results", [])
        caught = [r for r in res if r["exit"] == 1]
        verdict = "CAUGHT (quick)" if any(r["tier"] == "quick" for r in caught) else ("caught (thorough only)" if caught else ("missed" if res else "not run yet"))
        if m.get("history") and caught:
            verdict = "missed on the first run; " + verdict + " after the monitor was strengthened"
        sig = caught[0]["signature"] if caught else ""
        rows.append(f"| {d} | {m['property']} | {m['needs_to_manifest'][:110].replace('|','/')} | {verdict} | {sig[:90].replace('|','/')} |")
    out = ["# Seeded changes and which checks catch them", "",
           "Each directory holds patch.diff (the change), demo.diff (a test that fails with it and passes without), meta.json (what it breaks, what it needs to manifest, what was run to confirm it and the check results).",
           "", "| seeded change | property | needs to manifest | result of `./check <property>` with the change applied | first violation signature |", "|---|---|---|---|---|"] + rows
    open(os.path.join(SEEDED, "RESULTS.md"), "w").write("\n".join(out) + "\n")
    print(f"{len(rows)} seeded changes")

if sys.argv[1] == "--table":
    table()
elif sys.argv[1] == "--result":
    sid, prop, tier, ex, sig = sys.argv[2], sys.argv[3], sys.argv[4], int(sys.argv[5]), sys.argv[6]
    mp = os.path.join(SEEDED, sid, "meta.json")
    m = json.load(open(mp))
    m.setdefault("check_results", [])
    m["check_results"] = [r for r in m["check_results"] if not (r["property"] == prop and r["tier"] == tier)]
    m["check_results"].append({"property": prop, "tier": tier, "exit": ex, "signature": sig})
    json.dump(m, open(mp, "w"), indent=1)
    table()
elif sys.argv[1] == "--provisional":
    for d in sys.argv[2:]:
        d = d.rstrip("/")
        sid = os.path.basename(d)
        dst = os.path.join(SEEDED, sid)
        if os.path.exists(os.path.join(dst, "meta.json")) or not os.path.exists(os.path.join(d, "meta.json")):
            continue
        src = json.load(open(os.path.join(d, "meta.json")))
        os.makedirs(dst, exist_ok=True)
        for f in ("patch.diff", "demo.diff"):
            if os.path.exists(os.path.join(d, f)):
                shutil.copy(os.path.join(d, f), dst)
        meta = {"id": sid, "property": src["property"], "summary": src.get("summary", ""),
                "breaks_because": src.get("breaks_because", ""), "needs_to_manifest": src.get("needs_to_manifest", ""),
                "files_changed": src.get("files_changed", []),
                "author": "independent sub-agent given only the property text and a scratch worktree",
                "confirmed_by_lead": {"status": "pending: the lead's own confirmation run has not finished yet"},
                "check_results": []}
        json.dump(meta, open(os.path.join(dst, "meta.json"), "w"), indent=1)
    table()
else:
    d = sys.argv[1].rstrip("/")
    if os.path.exists(os.path.join(d, "DROPPED")):
        print("dropped:", d); sys.exit(1)
    c = json.load(open(os.path.join(d, "confirm.json")))
    LOAD_SENSITIVE = ("import__execution_error_on_header_4_when_awaits_for_1000000_blocks",
                      "executes_5_tasks_for_5_seconds_with_one_thread", "executes_10_tasks_for_5_seconds_with_one_thread",
                      "tests_preconf_rollback::", "test_gossipped_transaction_with_transient_error_ignored",
                      "prune_expired", "test_prune_transactions_the_oldest", "insert__tx_depends_one_extracted_and_one_pool_tx")
    ex = c.get("existing_tests_with_patch") or {}
    att = ex.get("attempts") or []
    if not att and ex.get("rc", 0) != 0:
        names = [l.strip() for l in ex.get("tail", "").splitlines() if l.startswith("    ") and "::" in l and " " not in l.strip()]
        att = [{"rc": ex["rc"], "failed_tests": sorted(set(names))}]
        ex["attempts"] = att
    only_flaky = ex.get("rc", 1) != 0 and bool(att) and all(a["failed_tests"] and all(any(k in t for k in LOAD_SENSITIVE) for t in a["failed_tests"]) for a in att)
    ex["only_load_sensitive_failures"] = only_flaky
    if c.get("patch_applies") and "demo_with_patch" in c:
        c["confirmed"] = (c["demo_without_patch"]["rc"] == 0 and c["demo_with_patch"]["rc"] != 0 and (ex.get("rc") == 0 or only_flaky))
    if not c.get("confirmed"):
        print("not confirmed:", d); sys.exit(1)
    src = json.load(open(os.path.join(d, "meta.json")))
    sid = os.path.basename(d)
    dst = os.path.join(SEEDED, sid)
    os.makedirs(dst, exist_ok=True)
    for f in ("patch.diff", "demo.diff"):
        if os.path.exists(os.path.join(d, f)):
            shutil.copy(os.path.join(d, f), dst)
    old = {}
    if os.path.exists(os.path.join(dst, "meta.json")):
        old = json.load(open(os.path.join(dst, "meta.json")))
    meta = {
        "id": sid,
        "property": src["property"],
        "summary": src.get("summary", ""),
        "breaks_because": src.get("breaks_because", ""),
        "needs_to_manifest": src.get("needs_to_manifest", ""),
        "files_changed": src.get("files_changed", []),
        "author": "independent sub-agent given only the property text and a scratch worktree",
        "confirmed_by_lead": {
            "patch_applies": c["patch_applies"],
            "demo_cmd": src.get("demo_cmd", ""),
            "demo_without_patch_exit": c["demo_without_patch"]["rc"],
            "demo_with_patch_exit": c["demo_with_patch"]["rc"],
            "existing_tests_cmd": src.get("existing_tests_cmd", ""),
            "existing_tests_with_patch_exit": c["existing_tests_with_patch"]["rc"],
            "existing_tests_only_load_sensitive_failures": c["existing_tests_with_patch"].get("only_load_sensitive_failures", False),
            "existing_tests_failed_names": sorted({t for a in c["existing_tests_with_patch"].get("attempts", []) for t in a.get("failed_tests", [])}),
            "repo_head": c.get("repo_head", "commit the seeding agent started from (hooks only)"),
            "note": "run by the lead in a scratch worktree with a private target dir (tools/confirm_seed.py)",
        },
        "check_results": old.get("check_results", []),
    }
    if old.get("history"):
        meta["history"] = old["history"]
    json.dump(meta, open(os.path.join(dst, "meta.json"), "w"), indent=1)
    table()
