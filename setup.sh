#!/bin/sh
# Builds the whole monitor workspace once, offline, from /repo's working tree.
# A monitor crate that fails to build does not stop the others (its check then
# reports INCONCLUSIVE); the shared dependencies must build.
cd "$(dirname "$0")/harness" || exit 1
export CARGO_NET_OFFLINE=true
cargo build --release --offline --workspace --keep-going 2>&1 | tail -15
cargo build --release --offline -p vcommon 2>&1 | tail -3
test -f target/release/libvcommon.rlib || ls target/release/deps/libvcommon-*.rlib >/dev/null 2>&1 || { echo "setup: shared dependencies did not build"; exit 1; }
# warm the Miri sysroot/build used by C42 (best effort)
( cd miri-seqlock && CARGO_TARGET_DIR="$PWD/../target/miri" MIRIFLAGS="-Zmiri-disable-data-race-detector -Zmiri-disable-stacked-borrows" cargo +nightly miri run --offline --quiet -- --writes 1 --reads 1 --readers 1 >/dev/null 2>&1 || true )
exit 0
