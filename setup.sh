#!/bin/sh
# Builds the whole monitor workspace once, offline, from /repo's working tree.
set -e
cd "$(dirname "$0")/harness"
export CARGO_NET_OFFLINE=true
cargo build --release --offline --workspace 2>&1 | tail -5
