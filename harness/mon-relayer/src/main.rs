//! C29 — the relayer records every DA block's events exactly once, ordered by log
//! index, no height skipped or written twice, synced height never decreasing, for any
//! page-size adaptation and RPC failure pattern.
//!
//! The *production* relayer (`fuel_core_relayer::new_service`, i.e. `QuorumProvider`
//! over HTTP JSON-RPC, adaptive page sizer, retry-on-error run loop) talks to a
//! harness DA node (`node.rs`: generated logs per DA block, finalized head advancing
//! in steps, scripted RPC failures) and writes through the real relayer storage code
//! into a real in-memory `Database<Relayer>`, wrapped at the `RelayerDb` port so that
//! every write per height is observed (`RecDb`).

mod node;

use fuel_core::database::{
    Database,
    database_description::relayer::Relayer,
};
use fuel_core_relayer::{
    Config,
    ports::RelayerDb,
    storage::EventsHistory,
};
use fuel_core_services::Service as _;
use fuel_core_storage::{
    Result as StorageResult,
    StorageAsRef,
    iter::IteratorOverTable,
};
use fuel_core_types::{
    blockchain::primitives::DaBlockHeight,
    services::relayer::Event,
};
use node::*;
use rand::Rng;
use std::{
    sync::{
        Arc,
        Mutex,
        atomic::{
            AtomicU64,
            Ordering,
        },
    },
    time::Duration,
};
use vcommon::{
    serde_json::{
        Value,
        json,
    },
    *,
};

// ------------------------------------------------------------------ RelayerDb wrapper

#[derive(Clone, Debug)]
pub struct InsertRec {
    pub height: u64,
    pub n_events: usize,
    pub db_height_before: Option<u64>,
    pub injected: bool,
    pub ok: bool,
}

#[derive(Default)]
pub struct DbCtl {
    pub inserts: Mutex<Vec<InsertRec>>,
    /// fail every n-th insert (0 = never)
    pub fail_every: AtomicU64,
    pub calls: AtomicU64,
    pub synced_samples: Mutex<Vec<u64>>,
    pub shared: Mutex<Option<fuel_core_relayer::SharedState>>,
}

impl DbCtl {
    pub fn sample_synced(&self) {
        if let Some(s) = self.shared.lock().unwrap().as_ref() {
            let h: u64 = s.get_finalized_da_height().into();
            let mut g = self.synced_samples.lock().unwrap();
            if g.last() != Some(&h) {
                g.push(h);
            }
        }
    }
}

#[derive(Clone)]
pub struct RecDb {
    inner: Database<Relayer>,
    ctl: Arc<DbCtl>,
}

impl RelayerDb for RecDb {
    fn insert_events(&mut self, da_height: &DaBlockHeight, events: &[Event]) -> StorageResult<()> {
        self.ctl.sample_synced();
        let n = self.ctl.calls.fetch_add(1, Ordering::SeqCst) + 1;
        let before = RelayerDb::get_finalized_da_height(&self.inner).map(u64::from);
        let every = self.ctl.fail_every.load(Ordering::SeqCst);
        if every > 0 && n % every == 0 {
            self.ctl.inserts.lock().unwrap().push(InsertRec {
                height: da_height.0,
                n_events: events.len(),
                db_height_before: before,
                injected: true,
                ok: false,
            });
            return Err(anyhow::anyhow!("injected storage failure").into());
        }
        // the real relayer storage code over the real database
        let r = RelayerDb::insert_events(&mut self.inner, da_height, events);
        self.ctl.inserts.lock().unwrap().push(InsertRec {
            height: da_height.0,
            n_events: events.len(),
            db_height_before: before,
            injected: false,
            ok: r.is_ok(),
        });
        r
    }

    fn get_finalized_da_height(&self) -> Option<DaBlockHeight> {
        RelayerDb::get_finalized_da_height(&self.inner)
    }
}

// ------------------------------------------------------------------ one case

struct CaseCfg {
    deploy: u64,
    page: u64,
    max_logs: u64,
    fault: u32,
    heads: Vec<u64>,
    restarts: Vec<usize>,
    fail_every: u64,
    heavy: bool,
}

fn gen_case(args: &Args, rng: &mut rand::rngs::StdRng) -> CaseCfg {
    let deploy = *pick(rng, &[0u64, 0, 1, 5, 100]);
    let page = rng.gen_range(1..=7u64);
    let long = chance(rng, 25);
    let max_logs = *pick(rng, &[2u64, 4, 8, 10_000]);
    let fault = if long { *pick(rng, &[0u32, 3]) } else { *pick(rng, &[0u32, 10, 25, 40]) };
    let span = if long {
        rng.gen_range(150..=args.by_tier(260u64, 400))
    } else {
        rng.gen_range(8..=60)
    };
    let n_steps = rng.gen_range(2..=5usize);
    let mut heads: Vec<u64> = (0..n_steps).map(|_| deploy + rng.gen_range(0..=span)).collect();
    heads.push(deploy + span);
    heads.sort();
    heads.dedup();
    let restarts = (0..heads.len()).filter(|_| chance(rng, 25)).collect();
    CaseCfg {
        deploy,
        page,
        max_logs,
        fault,
        heads,
        restarts,
        fail_every: *pick(rng, &[0u64, 0, 0, 7, 23]),
        heavy: chance(rng, 40),
    }
}

fn run_case(args: &Args, report: &Report, cs: u64) {
    let mut rng = rng_for(cs, &[0]);
    let cfg = gen_case(args, &mut rng);
    let last_head = *cfg.heads.last().unwrap();
    let st: u32 = args.extra.get("selftest").and_then(|s| s.parse().ok()).unwrap_or(0);
    let sig = |s: &str| if st > 0 { format!("selftest:{s}") } else { s.to_string() };

    let node = Arc::new(DaNode::generate(cs, cfg.deploy, last_head + 12, cfg.fault, cfg.heavy, cfg.max_logs));
    let db = Database::<Relayer>::in_memory();
    let ctl = Arc::new(DbCtl::default());
    ctl.fail_every.store(cfg.fail_every, Ordering::SeqCst);
    let rec = RecDb {
        inner: db.clone(),
        ctl: ctl.clone(),
    };

    let rt = tokio::runtime::Builder::new_current_thread().enable_all().build().expect("runtime");
    let mut failure: Option<String> = None;
    let mut segments = 0u64;
    let outcome = catch(|| {
        rt.block_on(async {
            let addr = match node.clone().serve().await {
                Ok(a) => a,
                Err(e) => {
                    failure = Some(format!("cannot start DA node: {e}"));
                    return;
                }
            };
            let config = Config {
                da_deploy_height: cfg.deploy.into(),
                relayer: Some(vec![url::Url::parse(&format!("http://{addr}")).unwrap()]),
                eth_v2_listening_contracts: vec![contract_address()],
                log_page_size: cfg.page,
                max_logs_per_rpc: cfg.max_logs,
                sync_minimum_duration: Duration::from_millis(1),
                syncing_call_frequency: Duration::from_millis(1),
                syncing_log_frequency: Duration::from_secs(60),
                metrics: false,
            };
            let mut service = None;
            for (i, head) in cfg.heads.iter().enumerate() {
                if service.is_none() {
                    let s = match fuel_core_relayer::new_service(rec.clone(), config.clone()) {
                        Ok(s) => s,
                        Err(e) => {
                            failure = Some(format!("new_service: {e}"));
                            return;
                        }
                    };
                    *ctl.shared.lock().unwrap() = Some(s.shared.clone());
                    ctl.sample_synced();
                    if let Err(e) = s.start_and_await().await {
                        failure = Some(format!("start: {e}"));
                        return;
                    }
                    segments += 1;
                    service = Some(s);
                }
                node.set_head(*head);
                let s = service.as_ref().unwrap();
                if cfg.restarts.contains(&i) {
                    // stop in the middle of the sync: wait for a little progress (bounded), then stop
                    let target = ctl.calls.load(Ordering::SeqCst) + 3;
                    for _ in 0..200 {
                        if ctl.calls.load(Ordering::SeqCst) >= target {
                            break;
                        }
                        tokio::time::sleep(Duration::from_micros(300)).await;
                    }
                    ctl.sample_synced();
                    let _ = s.stop_and_await().await;
                    ctl.sample_synced();
                    service = None;
                    continue;
                }
                let wait = tokio::time::timeout(Duration::from_secs(25), s.shared.await_at_least_synced(&(*head).into())).await;
                ctl.sample_synced();
                match wait {
                    Ok(Ok(())) => {}
                    Ok(Err(e)) => {
                        failure = Some(format!("await_at_least_synced({head}): {e}"));
                        return;
                    }
                    Err(_) => {
                        failure = Some(format!(
                            "watchdog: relayer did not reach DA height {head} within 25 s (synced {:?})",
                            ctl.synced_samples.lock().unwrap().last()
                        ));
                        return;
                    }
                }
                // judged while the service keeps running: everything up to the announced height
                let synced: u64 = s.shared.get_finalized_da_height().into();
                check_stored(report, &sig, cs, &node, &db, cfg.deploy.max(1), synced, "while_running");
            }
            // final segment: make sure a service runs to the last head
            if service.is_none() {
                if let Ok(s) = fuel_core_relayer::new_service(rec.clone(), config.clone()) {
                    *ctl.shared.lock().unwrap() = Some(s.shared.clone());
                    ctl.sample_synced();
                    let _ = s.start_and_await().await;
                    segments += 1;
                    service = Some(s);
                }
            }
            if let Some(s) = service.as_ref() {
                let wait =
                    tokio::time::timeout(Duration::from_secs(25), s.shared.await_at_least_synced(&last_head.into())).await;
                ctl.sample_synced();
                if !matches!(wait, Ok(Ok(()))) {
                    failure = Some(format!("watchdog: relayer did not reach the last DA height {last_head} within 25 s"));
                }
                let _ = s.stop_and_await().await;
                ctl.sample_synced();
            }
        })
    });
    drop(rt);
    if let Err(p) = outcome {
        report.inconclusive(format!("case {cs}: harness panic: {p}"));
        return;
    }
    report.count("cases");
    report.add("segments", segments);
    if let Some(f) = failure {
        if f.starts_with("watchdog") {
            report.count("cases.watchdog");
        }
        report.inconclusive(format!("case {cs}: {f}"));
        // still judge what was written
    }

    // ------------------------------------------------------------ oracle at quiescence
    report.eval();
    let mut inserts = ctl.inserts.lock().unwrap().clone();
    let mut samples = ctl.synced_samples.lock().unwrap().clone();
    if st == 2 && inserts.len() > 3 {
        let d = inserts[2].clone();
        inserts.insert(3, d);
    }
    if st == 3 && samples.len() > 2 {
        let l = samples.len();
        samples.swap(l - 1, l - 2);
    }
    let reqs = node.requests();
    // with deploy height 0 the relayer regards DA block 0 (the DA genesis) as already seen
    let first = cfg.deploy.max(1);
    // (a) every attempted / performed write is for the next height
    let mut written: Option<u64> = None;
    let mut viol: Vec<(String, String)> = vec![];
    for r in inserts.iter() {
        report.count("db.insert_calls");
        let want = match written {
            None => first,
            Some(w) => w + 1,
        };
        if r.height != want {
            let kind = if written.map(|w| r.height <= w).unwrap_or(false) {
                "height_written_twice"
            } else if r.height > want {
                "height_skipped"
            } else {
                "below_deploy_height"
            };
            viol.push((
                format!("insert_not_next kind={kind}"),
                format!(
                    "insert_events called for DA height {} while heights up to {written:?} are stored (deploy height {}); call result ok={}",
                    r.height, cfg.deploy, r.ok
                ),
            ));
            break;
        }
        if r.ok {
            written = Some(r.height);
            report.count("db.insert_ok");
            if r.n_events > 0 {
                report.count("db.insert_nonempty");
            }
        } else if r.injected {
            report.count("db.insert_injected_failure");
        } else {
            report.count("db.insert_rejected");
        }
    }
    // (b) stored content
    let top = RelayerDb::get_finalized_da_height(&db).map(u64::from);
    if top != written {
        viol.push((
            "db_height_vs_inserts".into(),
            format!("database DA height {top:?} but the successful insert_events calls end at {written:?}"),
        ));
    }
    if let Some(t) = top {
        check_stored(report, &sig, cs, &node, &db, first, t, "final");
        if st == 1 {
            // corrupt the expectation of one height: the comparison must notice
            node.corrupt_expectation();
            check_stored(report, &sig, cs, &node, &db, first, t, "final");
        }
    }
    let keys: Vec<u64> = db
        .iter_all_keys::<EventsHistory>(None)
        .filter_map(|k| k.ok())
        .map(u64::from)
        .collect();
    let expect_keys: Vec<u64> = match top {
        Some(t) => (first..=t).collect(),
        None => vec![],
    };
    if keys != expect_keys {
        viol.push((
            "stored_heights_not_contiguous".into(),
            format!(
                "EventsHistory holds {} heights {:?}..{:?}, expected every height {}..={top:?}",
                keys.len(),
                keys.first(),
                keys.last(),
                cfg.deploy
            ),
        ));
    }
    // (c) nothing beyond what the DA node had finalized at the time of the request
    if let Some(t) = top {
        if t > last_head {
            viol.push((
                "stored_beyond_finalized_head".into(),
                format!("stored DA height {t} exceeds the last finalized head {last_head}"),
            ));
        }
    }
    // (d) announced synced height never decreases and never exceeds what is stored
    for w in samples.windows(2) {
        if w[1] < w[0] {
            viol.push(("synced_height_decreased".into(), format!("announced synced height went {} -> {}", w[0], w[1])));
            break;
        }
    }
    report.add("synced.samples", samples.len() as u64);
    if let (Some(s), t) = (samples.iter().max(), top) {
        let floor = cfg.deploy.saturating_sub(1);
        if *s > floor && Some(*s) > t {
            viol.push((
                "synced_beyond_stored".into(),
                format!("announced synced height {s} but the database only holds heights up to {t:?}"),
            ));
        }
    }
    // ------------------------------------------------------------ evidence
    let mut shrinks = 0u64;
    let mut grows = 0u64;
    let mut prev_len: Option<u64> = None;
    let mut prev_to: Option<u64> = None;
    let mut ok_streak = 0u64;
    for r in reqs.iter() {
        report.count(&format!("rpc.{}.{}", r.method, r.behaviour));
        if r.method == "getLogs" {
            let len = r.to - r.from + 1;
            report.count(&format!("page_len.{}", len.min(9)));
            if let (Some(pl), Some(pt)) = (prev_len, prev_to) {
                // only consecutive pages of one stream are comparable, and not the clipped last page
                if r.from == pt + 1 && r.to < r.head {
                    if len < pl {
                        shrinks += 1;
                    } else if len > pl {
                        grows += 1;
                    }
                }
            }
            if r.behaviour.starts_with("ok") {
                ok_streak += 1;
                prev_len = Some(len);
                prev_to = Some(r.to);
            } else {
                ok_streak = 0;
                prev_len = Some(len);
                prev_to = Some(r.from.saturating_sub(1));
            }
        }
    }
    let _ = ok_streak;
    report.add("pager.shrinks_seen", shrinks);
    report.add("pager.grows_seen", grows);
    if segments > 1 {
        report.count("cases.with_restart");
    }
    let had_rpc_fail = reqs.iter().any(|r| !r.behaviour.starts_with("ok"));
    if had_rpc_fail {
        report.count("cases.with_rpc_failure");
    }
    if (shrinks > 0 || grows > 0) && (had_rpc_fail || segments > 1) && written.is_some() {
        let shape: Vec<(u64, u64, bool)> = reqs
            .iter()
            .filter(|r| r.method == "getLogs")
            .map(|r| (r.from - cfg.deploy, r.to - r.from, r.behaviour.starts_with("ok")))
            .collect();
        report.distinct(&(cfg.page, cfg.max_logs, &shape));
    }
    if report.wants_sample() && had_rpc_fail {
        report.sample(json!({"case_seed": cs, "deploy_height": cfg.deploy, "page_size": cfg.page, "max_logs_per_rpc": cfg.max_logs,
            "heads": cfg.heads, "restart_at_steps": cfg.restarts, "fault_percent": cfg.fault, "storage_fail_every": cfg.fail_every,
            "requests": reqs.iter().take(30).map(|r| r.json()).collect::<Vec<_>>(),
            "inserted_heights": inserts.len()}));
    }
    if !viol.is_empty() {
        let rj: Vec<Value> = reqs.iter().take(300).map(|r| r.json()).collect();
        for (s, d) in viol {
            report.violation(
                sig(&s),
                format!(
                    "{d}\ncase: deploy {}, page size {}, max logs/rpc {}, heads {:?}, restarts at steps {:?}, rpc fault {}%, storage failure every {}",
                    cfg.deploy, cfg.page, cfg.max_logs, cfg.heads, cfg.restarts, cfg.fault, cfg.fail_every
                ),
                json!({"case_seed": cs, "requests": rj}),
            );
        }
    }
}

#[allow(clippy::too_many_arguments)]
fn check_stored(
    report: &Report,
    sig: &dyn Fn(&str) -> String,
    cs: u64,
    node: &DaNode,
    db: &Database<Relayer>,
    deploy: u64,
    upto: u64,
    when: &str,
) {
    if upto < deploy {
        return;
    }
    for h in deploy..=upto {
        report.count("heights_compared");
        let stored: Option<Vec<Event>> = db
            .storage::<EventsHistory>()
            .get(&DaBlockHeight(h))
            .ok()
            .flatten()
            .map(|c| c.into_owned());
        let want = node.expected_events(h);
        if !want.is_empty() {
            report.count("heights_compared.nonempty");
        }
        match stored {
            None => {
                report.violation(
                    sig("height_missing_below_synced"),
                    format!("DA height {h} <= synced/stored height {upto} has no EventsHistory entry ({when})"),
                    json!({"case_seed": cs}),
                );
                return;
            }
            Some(got) if got != want => {
                let mut a: Vec<String> = got.iter().map(|e| format!("{:?}", e.hash())).collect();
                let mut b: Vec<String> = want.iter().map(|e| format!("{:?}", e.hash())).collect();
                let kind = if got.len() == want.len() && {
                    a.sort();
                    b.sort();
                    a == b
                } {
                    "wrong_order"
                } else if got.len() != want.len() {
                    "wrong_set"
                } else {
                    "wrong_content"
                };
                report.violation(
                    sig(&format!("stored_events_differ kind={kind}")),
                    format!(
                        "DA height {h}: stored {} events, the DA node reported {} fuel events for the finalized block ({when})",
                        got.len(),
                        want.len()
                    ),
                    json!({"case_seed": cs, "height": h}),
                );
                return;
            }
            _ => {}
        }
    }
}

fn main() {
    let args = Args::parse();
    install_quiet_panic_hook();
    let report = Report::new(&args.property);
    let mut rule = String::new();
    let mut assumptions: Vec<&str> = vec![];
    match args.property.as_str() {
        "C29" => {
            if let Some(rep) = read_replay(&args) {
                let cs = rep.get("case_seed").and_then(|v| v.as_u64()).unwrap_or(0);
                run_case(&args, &report, cs);
            } else {
                let shards = args.by_tier(32usize, 64);
                let per = args.by_tier(28usize, 130);
                let a = args.clone();
                let r = report.clone();
                run_shards(&report, &args, shards, move |_i, s| {
                    for it in 0..per {
                        run_case(&a, &r, mix(s, &[it as u64]));
                    }
                });
                if !args.extra.contains_key("selftest") {
                    let q = !args.is_thorough();
                    report.require("cases", if q { 600 } else { 6_000 });
                    report.require("db.insert_ok", if q { 25_000 } else { 300_000 });
                    report.require("db.insert_nonempty", if q { 10_000 } else { 120_000 });
                    report.require("heights_compared.nonempty", if q { 25_000 } else { 300_000 });
                    report.require("cases.with_restart", 50);
                    report.require("cases.with_rpc_failure", 100);
                    report.require("pager.shrinks_seen", 100);
                    report.require("pager.grows_seen", 20);
                    report.require("rpc.getLogs.ok_too_many_logs", 100);
                    report.require("rpc.getLogs.rpc_error_too_many", 50);
                    report.require("rpc.getLogs.http_500", 50);
                    report.require("rpc.getLogs.garbage_body", 30);
                    report.require("rpc.getBlock.rpc_error", 20);
                    report.require("rpc.getBlock.null_result", 20);
                    report.require("rpc.syncing.syncing_info", 20);
                    report.require("db.insert_injected_failure", 50);
                }
            }
            rule = "a case = generated DA log set (messages, forced transactions, foreign-topic and foreign-contract logs, \
                    shuffled in every response, an extra bogus log on not-yet-finalized blocks), deploy height, page size \
                    1..7, max-logs-per-rpc, 2..6 finalized-head steps, restarts mid-sync, scripted RPC failures per request \
                    and storage failures every n-th insert; non-trivial = the page size was seen to change and an RPC \
                    failure or restart happened; distinct = (page size, max logs, sequence of (offset, length, ok) of the \
                    eth_getLogs requests)."
                .to_string();
            assumptions = vec![
                "the harness DA node answers eth_getLogs / eth_getBlockByNumber(finalized) / eth_syncing over HTTP like a real node (filter by block range, contract address, topic0)",
                "expected fuel events are built from the generator's fields, not by the relayer's log parser",
                "reads of EventsHistory through Database<Relayer> are trusted",
                "a relayer that stops making progress is reported inconclusive (watchdog), not as a violation",
            ];
        }
        other => report.inconclusive(format!("property {other} not implemented in this monitor")),
    }
    report.finish(&args, "exploration", &rule, false, &assumptions);
}
