//! A scripted DA (Ethereum) node speaking just enough HTTP JSON-RPC for the relayer:
//! `eth_syncing`, `eth_getBlockByNumber("finalized")`, `eth_getLogs`.

use fuel_core_relayer::Address as EthAddress;
use fuel_core_types::{
    blockchain::primitives::DaBlockHeight,
    entities::relayer::{
        message::MessageV1,
        transaction::RelayedTransactionV1,
    },
    fuel_types::{
        Address,
        Nonce,
    },
    services::relayer::Event,
};
use rand::{
    Rng,
    seq::SliceRandom,
};
use sha3::{
    Digest,
    Keccak256,
};
use std::{
    collections::BTreeMap,
    net::SocketAddr,
    sync::{
        Arc,
        Mutex,
        atomic::{
            AtomicBool,
            AtomicU64,
            Ordering,
        },
    },
};
use tokio::{
    io::{
        AsyncReadExt,
        AsyncWriteExt,
    },
    net::{
        TcpListener,
        TcpStream,
    },
};
use vcommon::{
    chance,
    hex,
    pick,
    rng_for,
    serde_json::{
        self,
        Value,
        json,
    },
};

fn keccak(s: &str) -> [u8; 32] {
    let mut h = Keccak256::new();
    h.update(s.as_bytes());
    h.finalize().into()
}

pub fn contract_address() -> EthAddress {
    EthAddress::from([0x11u8; 20])
}

fn other_address() -> [u8; 20] {
    [0x22u8; 20]
}

#[derive(Clone, Debug)]
enum Kind {
    Message {
        sender: [u8; 32],
        recipient: [u8; 32],
        nonce: [u8; 32],
        amount: u64,
        data: Vec<u8>,
    },
    Transaction {
        nonce: [u8; 32],
        max_gas: u64,
        bytes: Vec<u8>,
    },
    /// a log of the bridge contract with an unrelated event signature
    ForeignTopic,
}

#[derive(Clone, Debug)]
struct GenLog {
    height: u64,
    log_index: u64,
    /// emitted by the bridge contract (else by some other contract)
    ours: bool,
    kind: Kind,
}

#[derive(Clone, Debug)]
pub struct ReqRec {
    pub method: &'static str,
    pub from: u64,
    pub to: u64,
    pub head: u64,
    pub behaviour: &'static str,
}

impl ReqRec {
    pub fn json(&self) -> Value {
        json!({"m": self.method, "from": self.from, "to": self.to, "head": self.head, "b": self.behaviour})
    }
}

pub struct DaNode {
    seed: u64,
    fault: u32,
    logs: BTreeMap<u64, Vec<GenLog>>,
    head: AtomicU64,
    calls: AtomicU64,
    syncing_left: AtomicU64,
    reqs: Mutex<Vec<ReqRec>>,
    corrupt: AtomicBool,
    max_logs: u64,
    topic_msg: [u8; 32],
    topic_tx: [u8; 32],
}

fn word_u64(v: u64) -> [u8; 32] {
    let mut w = [0u8; 32];
    w[24..].copy_from_slice(&v.to_be_bytes());
    w
}

/// abi.encode(uint64, bytes)
fn abi_u64_bytes(v: u64, b: &[u8]) -> Vec<u8> {
    let mut out = vec![];
    out.extend_from_slice(&word_u64(v));
    out.extend_from_slice(&word_u64(0x40));
    out.extend_from_slice(&word_u64(b.len() as u64));
    out.extend_from_slice(b);
    let pad = (32 - b.len() % 32) % 32;
    out.extend(std::iter::repeat_n(0u8, pad));
    out
}

fn h(b: &[u8]) -> String {
    format!("0x{}", hex(b))
}

fn q(v: u64) -> String {
    format!("0x{v:x}")
}

impl DaNode {
    pub fn generate(seed: u64, deploy: u64, max_height: u64, fault: u32, heavy: bool, max_logs: u64) -> DaNode {
        let mut rng = rng_for(seed, &[11]);
        let mut logs = BTreeMap::new();
        let mut nonce = 0u64;
        for height in deploy.saturating_sub(2)..=max_height {
            let n = if height == 0 {
                0
            } else if heavy && chance(&mut rng, 12) {
                rng.gen_range(4..=9)
            } else {
                *pick(&mut rng, &[0usize, 0, 0, 1, 1, 2, 3])
            };
            let mut v = vec![];
            // log indexes are unique within a block, increasing but not dense
            let mut li = rng.gen_range(0..3u64);
            for _ in 0..n {
                nonce += 1;
                let mut n32 = [0u8; 32];
                n32[24..].copy_from_slice(&nonce.to_be_bytes());
                n32[0] = rng.r#gen();
                let kind = match rng.gen_range(0..10) {
                    0..=4 => {
                        let mut sender = [0u8; 32];
                        let mut recipient = [0u8; 32];
                        rng.fill(&mut sender);
                        rng.fill(&mut recipient);
                        let dl = *pick(&mut rng, &[0usize, 0, 1, 31, 32, 33, 70]);
                        Kind::Message {
                            sender,
                            recipient,
                            nonce: n32,
                            amount: *pick(&mut rng, &[0u64, 1, 1_000_000, u64::MAX]),
                            data: (0..dl).map(|_| rng.r#gen::<u8>()).collect(),
                        }
                    }
                    5..=7 => {
                        let bl = *pick(&mut rng, &[0usize, 5, 32, 64, 100]);
                        Kind::Transaction {
                            nonce: n32,
                            max_gas: *pick(&mut rng, &[0u64, 21_000, u64::MAX]),
                            bytes: (0..bl).map(|_| rng.r#gen::<u8>()).collect(),
                        }
                    }
                    _ => Kind::ForeignTopic,
                };
                v.push(GenLog {
                    height,
                    log_index: li,
                    ours: !chance(&mut rng, 15),
                    kind,
                });
                li += rng.gen_range(1..4u64);
            }
            logs.insert(height, v);
        }
        DaNode {
            seed,
            fault,
            logs,
            head: AtomicU64::new(0),
            calls: AtomicU64::new(0),
            syncing_left: AtomicU64::new(if chance(&mut rng, 15) { rng.gen_range(1..4) } else { 0 }),
            reqs: Default::default(),
            corrupt: AtomicBool::new(false),
            max_logs,
            topic_msg: keccak("MessageSent(bytes32,bytes32,uint256,uint64,bytes)"),
            topic_tx: keccak("Transaction(uint256,uint64,bytes)"),
        }
    }

    pub fn set_head(&self, h: u64) {
        self.head.fetch_max(h, Ordering::SeqCst);
    }

    pub fn requests(&self) -> Vec<ReqRec> {
        self.reqs.lock().unwrap().clone()
    }

    pub fn corrupt_expectation(&self) {
        self.corrupt.store(true, Ordering::SeqCst);
    }

    /// what a correct relayer must have stored for a finalized height
    pub fn expected_events(&self, height: u64) -> Vec<Event> {
        let mut v: Vec<&GenLog> = self
            .logs
            .get(&height)
            .map(|l| l.iter().filter(|g| g.ours).collect())
            .unwrap_or_default();
        v.sort_by_key(|g| g.log_index);
        let mut out: Vec<Event> = v
            .into_iter()
            .filter_map(|g| match &g.kind {
                Kind::Message {
                    sender,
                    recipient,
                    nonce,
                    amount,
                    data,
                } => Some(Event::Message(
                    MessageV1 {
                        sender: Address::from(*sender),
                        recipient: Address::from(*recipient),
                        nonce: Nonce::from(*nonce),
                        amount: *amount,
                        data: data.clone(),
                        da_height: DaBlockHeight(height),
                    }
                    .into(),
                )),
                Kind::Transaction { nonce, max_gas, bytes } => Some(Event::Transaction(
                    RelayedTransactionV1 {
                        nonce: Nonce::from(*nonce),
                        max_gas: *max_gas,
                        serialized_transaction: bytes.clone(),
                        da_height: DaBlockHeight(height),
                    }
                    .into(),
                )),
                Kind::ForeignTopic => None,
            })
            .collect();
        if self.corrupt.load(Ordering::SeqCst) && out.len() >= 2 {
            out.swap(0, 1);
        }
        out
    }

    fn log_json(&self, g: &GenLog) -> Value {
        let addr = if g.ours { contract_address().0.0 } else { other_address() };
        let (topics, data): (Vec<String>, Vec<u8>) = match &g.kind {
            Kind::Message {
                sender,
                recipient,
                nonce,
                amount,
                data,
            } => (
                vec![h(&self.topic_msg), h(sender), h(recipient), h(nonce)],
                abi_u64_bytes(*amount, data),
            ),
            Kind::Transaction { nonce, max_gas, bytes } => (vec![h(&self.topic_tx), h(nonce)], abi_u64_bytes(*max_gas, bytes)),
            Kind::ForeignTopic => (vec![h(&keccak("Other(uint256)")), h(&word_u64(g.log_index))], vec![]),
        };
        json!({
            "address": h(&addr),
            "topics": topics,
            "data": h(&data),
            "blockHash": h(&word_u64(g.height ^ 0xB10C)),
            "blockNumber": q(g.height),
            "transactionHash": h(&word_u64(g.height * 1000 + g.log_index)),
            "transactionIndex": q(g.log_index / 2),
            "logIndex": q(g.log_index),
            "removed": false
        })
    }

    fn block_json(&self, number: u64) -> Value {
        let z32 = h(&[0u8; 32]);
        json!({
            "hash": h(&word_u64(number ^ 0xB10C)),
            "parentHash": z32,
            "sha3Uncles": z32,
            "miner": h(&[0u8; 20]),
            "stateRoot": z32,
            "transactionsRoot": z32,
            "receiptsRoot": z32,
            "logsBloom": h(&[0u8; 256]),
            "difficulty": "0x0",
            "number": q(number),
            "gasLimit": "0x1c9c380",
            "gasUsed": "0x0",
            "timestamp": q(1_700_000_000 + number * 12),
            "extraData": "0x",
            "mixHash": z32,
            "nonce": "0x0000000000000000",
            "baseFeePerGas": "0x7",
            "totalDifficulty": "0x0",
            "size": "0x220",
            "uncles": [],
            "transactions": []
        })
    }

    /// returns (http status, body, close connection)
    fn answer(&self, body: &[u8]) -> (u16, String, bool) {
        let req: Value = match serde_json::from_slice(body) {
            Ok(v) => v,
            Err(_) => return (400, "bad request".into(), false),
        };
        let id = req.get("id").cloned().unwrap_or(Value::Null);
        let method = req.get("method").and_then(|m| m.as_str()).unwrap_or("");
        let n = self.calls.fetch_add(1, Ordering::SeqCst);
        let mut rng = rng_for(self.seed, &[12, n]);
        let head = self.head.load(Ordering::SeqCst);
        let faulty = chance(&mut rng, self.fault);
        let ok = |result: Value| (200u16, json!({"jsonrpc": "2.0", "id": id, "result": result}).to_string(), false);
        let rpc_err = |code: i64, msg: &str| {
            (
                200u16,
                json!({"jsonrpc": "2.0", "id": id, "error": {"code": code, "message": msg}}).to_string(),
                false,
            )
        };
        let rec = |m: &'static str, from: u64, to: u64, b: &'static str| {
            self.reqs.lock().unwrap().push(ReqRec {
                method: m,
                from,
                to,
                head,
                behaviour: b,
            });
        };
        match method {
            "eth_syncing" => {
                if faulty && chance(&mut rng, 50) {
                    rec("syncing", 0, 0, "rpc_error");
                    return rpc_err(-32000, "node busy");
                }
                let left = self.syncing_left.load(Ordering::SeqCst);
                if left > 0 {
                    self.syncing_left.fetch_sub(1, Ordering::SeqCst);
                    rec("syncing", 0, 0, "syncing_info");
                    ok(json!({"startingBlock": "0x0", "currentBlock": q(head / 2), "highestBlock": q(head)}))
                } else {
                    rec("syncing", 0, 0, "ok");
                    ok(json!(false))
                }
            }
            "eth_getBlockByNumber" => {
                let tag = req["params"][0].as_str().unwrap_or("");
                if tag != "finalized" {
                    rec("getBlock", 0, 0, "unexpected_tag");
                    return rpc_err(-32602, "harness: only `finalized` is served");
                }
                if faulty {
                    match rng.gen_range(0..3) {
                        0 => {
                            rec("getBlock", 0, 0, "rpc_error");
                            return rpc_err(-32000, "header not found");
                        }
                        1 => {
                            rec("getBlock", 0, 0, "null_result");
                            return ok(Value::Null);
                        }
                        _ => {
                            rec("getBlock", 0, 0, "http_500");
                            return (500, "internal error".into(), false);
                        }
                    }
                }
                rec("getBlock", 0, 0, "ok");
                ok(self.block_json(head))
            }
            "eth_getLogs" => {
                let f = &req["params"][0];
                let num = |v: &Value| -> Option<u64> {
                    let s = v.as_str()?;
                    u64::from_str_radix(s.trim_start_matches("0x"), 16).ok()
                };
                let (Some(from), Some(to)) = (num(&f["fromBlock"]), num(&f["toBlock"])) else {
                    rec("getLogs", 0, 0, "unparsed_filter");
                    return rpc_err(-32602, "harness: block range expected");
                };
                let addrs: Vec<String> = match &f["address"] {
                    Value::Array(a) => a.iter().filter_map(|x| x.as_str().map(|s| s.to_lowercase())).collect(),
                    Value::String(s) => vec![s.to_lowercase()],
                    _ => vec![],
                };
                let topics0: Vec<String> = match &f["topics"][0] {
                    Value::Array(a) => a.iter().filter_map(|x| x.as_str().map(|s| s.to_lowercase())).collect(),
                    Value::String(s) => vec![s.to_lowercase()],
                    _ => vec![],
                };
                if faulty {
                    match rng.gen_range(0..5) {
                        0 | 1 => {
                            rec("getLogs", from, to, "rpc_error_too_many");
                            return rpc_err(-32005, "query returned more than 10000 results");
                        }
                        2 => {
                            rec("getLogs", from, to, "http_500");
                            return (500, "internal error".into(), false);
                        }
                        3 => {
                            rec("getLogs", from, to, "garbage_body");
                            return (200, "{\"jsonrpc\": \"2.0\", \"id\": oops".into(), false);
                        }
                        _ => {
                            rec("getLogs", from, to, "connection_closed");
                            return (0, String::new(), true);
                        }
                    }
                }
                let mut out: Vec<Value> = vec![];
                for (height, logs) in self.logs.range(from..=to) {
                    for g in logs {
                        let j = self.log_json(g);
                        let a_ok = addrs.is_empty() || addrs.contains(&j["address"].as_str().unwrap().to_lowercase());
                        let t_ok = topics0.is_empty() || topics0.contains(&j["topics"][0].as_str().unwrap().to_lowercase());
                        if a_ok && t_ok {
                            out.push(j);
                        }
                    }
                    if *height > head {
                        // not finalized yet: the block's content is still different from its final content
                        let bogus = GenLog {
                            height: *height,
                            log_index: 0,
                            ours: true,
                            kind: Kind::Message {
                                sender: [0xEE; 32],
                                recipient: [0xEE; 32],
                                nonce: word_u64(0xDEAD_0000 + *height),
                                amount: 1,
                                data: vec![],
                            },
                        };
                        out.push(self.log_json(&bogus));
                    }
                }
                out.shuffle(&mut rng);
                let max_logs_hint = out.len();
                rec(
                    "getLogs",
                    from,
                    to,
                    if to > head {
                        "ok_beyond_head"
                    } else if max_logs_hint as u64 > self.max_logs {
                        "ok_too_many_logs"
                    } else {
                        "ok"
                    },
                );
                ok(Value::Array(out))
            }
            _ => {
                rec("other", 0, 0, "unsupported");
                rpc_err(-32601, "method not found")
            }
        }
    }

    pub async fn serve(self: Arc<Self>) -> std::io::Result<SocketAddr> {
        let listener = TcpListener::bind("127.0.0.1:0").await?;
        let addr = listener.local_addr()?;
        tokio::spawn(async move {
            loop {
                let Ok((stream, _)) = listener.accept().await else { break };
                let me = self.clone();
                tokio::spawn(async move {
                    let _ = me.connection(stream).await;
                });
            }
        });
        Ok(addr)
    }

    async fn connection(&self, mut s: TcpStream) -> std::io::Result<()> {
        let _ = s.set_nodelay(true);
        let mut buf: Vec<u8> = Vec::with_capacity(4096);
        loop {
            // headers
            let header_end = loop {
                if let Some(p) = buf.windows(4).position(|w| w == b"\r\n\r\n") {
                    break p + 4;
                }
                let mut tmp = [0u8; 4096];
                let n = s.read(&mut tmp).await?;
                if n == 0 {
                    return Ok(());
                }
                buf.extend_from_slice(&tmp[..n]);
            };
            let head = String::from_utf8_lossy(&buf[..header_end]).to_lowercase();
            let len = head
                .lines()
                .find_map(|l| l.strip_prefix("content-length:").map(|v| v.trim().parse::<usize>().unwrap_or(0)))
                .unwrap_or(0);
            while buf.len() < header_end + len {
                let mut tmp = [0u8; 4096];
                let n = s.read(&mut tmp).await?;
                if n == 0 {
                    return Ok(());
                }
                buf.extend_from_slice(&tmp[..n]);
            }
            let body = buf[header_end..header_end + len].to_vec();
            buf.drain(..header_end + len);
            let (status, text, close) = self.answer(&body);
            if close {
                return Ok(());
            }
            let reason = if status == 200 { "OK" } else { "Internal Server Error" };
            let resp = format!(
                "HTTP/1.1 {status} {reason}\r\ncontent-type: application/json\r\ncontent-length: {}\r\n\r\n{text}",
                text.len()
            );
            s.write_all(resp.as_bytes()).await?;
            s.flush().await?;
        }
    }
}
