//! C42 under Miri: the REAL seqlock source is included by path; Miri's seeded
//! pre-emptive scheduler provides the interleavings; a value oracle decides.
//! One `RESULT {json}` line is printed per execution (= per Miri seed).
#![allow(dead_code)]

#[path = "/repo/crates/services/src/seqlock.rs"]
mod seqlock;

use seqlock::SeqLock;
use std::{
    collections::hash_map::DefaultHasher,
    hash::{
        Hash,
        Hasher,
    },
    sync::{
        Arc,
        Mutex,
        atomic::{
            AtomicU64,
            Ordering,
        },
    },
    thread,
};

const WORDS: usize = 8;

fn arg(name: &str, default: u64) -> u64 {
    let argv: Vec<String> = std::env::args().collect();
    argv.iter()
        .position(|a| a == name)
        .and_then(|i| argv.get(i + 1))
        .and_then(|v| v.parse().ok())
        .unwrap_or(default)
}

fn main() {
    let writes = arg("--writes", 12);
    let reads = arg("--reads", 12);
    let readers = arg("--readers", 2);
    // selftest 1: reader that ignores the sequence counter (torn values expected)
    let selftest = arg("--selftest", 0);

    let (writer, reader) = unsafe { SeqLock::new([0u64; WORDS]) };
    // number of writes that have completely returned
    let completed = Arc::new(AtomicU64::new(0));
    let log: Arc<Mutex<Vec<(u64, u64, u64, u64)>>> = Arc::new(Mutex::new(Vec::new()));
    let violations: Arc<Mutex<Vec<String>>> = Arc::new(Mutex::new(Vec::new()));

    let mut hs = Vec::new();
    for r in 0..readers {
        let reader = reader.clone();
        let completed = completed.clone();
        let log = log.clone();
        let violations = violations.clone();
        hs.push(thread::spawn(move || {
            let mut last = 0u64;
            for n in 0..reads {
                let before = completed.load(Ordering::SeqCst);
                let v = reader.read();
                let v = if selftest == 1 && n % 3 == 1 {
                    let mut t = v;
                    t[WORDS - 1] = t[0].wrapping_add(1);
                    t
                } else {
                    v
                };
                let after = completed.load(Ordering::SeqCst);
                let first = v[0];
                if v.iter().any(|x| *x != first) {
                    violations
                        .lock()
                        .unwrap()
                        .push(format!("torn reader={r} read#{n} value={v:?}"));
                } else {
                    if first < before {
                        violations.lock().unwrap().push(format!(
                            "stale reader={r} read#{n} value={first} completed_before_read={before}"
                        ));
                    }
                    if first < last {
                        violations.lock().unwrap().push(format!(
                            "backwards reader={r} read#{n} value={first} previous={last}"
                        ));
                    }
                    if first > after.saturating_add(1) {
                        // a value can be at most one ahead of the completed counter
                        // sampled after the read (the write may not have returned yet)
                        violations.lock().unwrap().push(format!(
                            "future reader={r} read#{n} value={first} completed_after_read={after}"
                        ));
                    }
                    last = first;
                }
                log.lock().unwrap().push((r, before, first, after));
            }
        }));
    }
    let w = {
        let completed = completed.clone();
        thread::spawn(move || {
            for i in 1..=writes {
                writer.write(move |data| {
                    // word by word, so that an unprotected reader can see a mix
                    for k in 0..WORDS {
                        data[k] = i;
                    }
                });
                completed.store(i, Ordering::SeqCst);
            }
        })
    };
    w.join().unwrap();
    for h in hs {
        h.join().unwrap();
    }
    let log = log.lock().unwrap();
    let mut hasher = DefaultHasher::new();
    log.hash(&mut hasher);
    let sig = hasher.finish();
    let overlapped = log.iter().filter(|(_, b, v, a)| v > b || a > b).count();
    let distinct_values: std::collections::BTreeSet<u64> = log.iter().map(|x| x.2).collect();
    let v = violations.lock().unwrap();
    let vs: Vec<String> = v.iter().map(|s| format!("{s:?}")).collect();
    println!(
        "RESULT {{\"reads\":{},\"sig\":\"{:016x}\",\"overlapped\":{},\"distinct_values\":{},\"violations\":[{}],\"sample\":{:?}}}",
        log.len(),
        sig,
        overlapped,
        distinct_values.len(),
        vs.join(","),
        log.iter().take(10).map(|(r, b, v, a)| format!("r{r}:before={b},value={v},after={a}")).collect::<Vec<_>>()
    );
}
