//! C07: the WASM and the native state transition function behave identically.
//!
//! The same generated blocks (chaingen, C01 workload at reduced volume) are
//! produced, dry-run and validated by two executors over the *same* databases:
//! `Executor::native` and `Executor::wasm`. Everything observable must agree.

use chaingen::{
    BlockPlan,
    ChainSession,
    GenOptions,
    Produced,
    SessionConfig,
    SourceKind,
    Strategy,
    Validated,
    canon::{
        diff_changes,
        first_debug_diff,
    },
    fuel_core_types::{
        blockchain::{
            block::{
                Block,
                PartialFuelBlock,
            },
            header::PartialBlockHeader,
        },
        fuel_tx::{
            Transaction,
            field::{
                InputContract,
                MintAmount,
                MintAssetId,
                MintGasPrice,
                OutputContract,
                TxPointer as TxPointerField,
            },
        },
        services::executor::{
            Error as ExecutorError,
            TransactionExecutionResult,
        },
    },
};
use vcommon::{
    rand::{
        Rng,
        rngs::StdRng,
    },
    serde_json::{
        Value,
        json,
    },
    *,
};

const RULE: &str = "C01 workload at reduced volume (sessions of generated blocks, all transaction templates, relayer \
events, limit-ignoring sources, blocks far below 1024 txs). For every block, on the same uncommitted parent: production \
by the native, the forced-WASM and the uploaded-bytecode-path executor (native version != block version; same deterministic source), a dry run by both, Executor::dry_run with every config-default x utxo-override combination (native vs uploaded path), production and validation with a relayer that fails for one DA height of the range (accept/reject + error variant), validation of the produced block \
by both, and validation of 3-4 invalid variants of it by both. Compared: block (header and transactions), canonical \
Changes, tx statuses, events, skipped ids with error variants, accept/reject with error variant. Non-trivial block: as \
C01; distinct = multiset of (template, outcome) per block.";

fn err_name(e: &ExecutorError) -> String {
    // variant plus inner variant names, no payload
    let s = format!("{e:?}");
    let mut out = String::new();
    let mut depth = 0;
    let chars: Vec<char> = s.chars().collect();
    let mut i = 0;
    while i < chars.len() {
        let ch = chars[i];
        if ch.is_alphanumeric() || ch == '_' {
            out.push(ch);
        } else if ch == '(' && depth < 3 && chars.get(i + 1).map(|c| c.is_ascii_uppercase()).unwrap_or(false) {
            depth += 1;
            out.push('.');
        } else {
            break;
        }
        i += 1;
    }
    out.trim_end_matches('.').to_string()
}

struct Cmp<'a> {
    report: &'a Report,
    selftest: Option<u32>,
    replay: &'a dyn Fn(&str) -> Value,
}

impl Cmp<'_> {
    fn violation(&self, sig: &str, detail: String, what: &str) {
        let sig = if self.selftest.is_some() {
            format!("selftest:{sig}")
        } else {
            sig.to_string()
        };
        self.report.violation(sig, detail, (self.replay)(what));
    }

    fn production(&self, what: &str, n: &Result<Produced, ExecutorError>, w: &Result<Produced, ExecutorError>) {
        match (n, w) {
            (Err(a), Err(b)) => {
                if err_name(a) != err_name(b) {
                    self.violation(
                        &format!("{what}_error_variants_differ"),
                        format!("native {a:?} vs wasm {b:?}"),
                        what,
                    );
                }
                self.report.count(&format!("c07.{what}.both_error.{}", err_name(a)));
            }
            (Ok(_), Err(e)) => self.violation(
                &format!("{what}_wasm_fails_native_succeeds"),
                format!("wasm: {e:?}"),
                what,
            ),
            (Err(e), Ok(_)) => self.violation(
                &format!("{what}_native_fails_wasm_succeeds"),
                format!("native: {e:?}"),
                what,
            ),
            (Ok(a), Ok(b)) => {
                self.report.count(&format!("c07.{what}.both_ok"));
                if a.block.header() != b.block.header() {
                    self.violation(
                        &format!("{what}_block_headers_differ"),
                        format!("native {:?} vs wasm {:?}", a.block.header(), b.block.header()),
                        what,
                    );
                }
                if a.block.transactions() != b.block.transactions() {
                    let i = a
                        .block
                        .transactions()
                        .iter()
                        .zip(b.block.transactions())
                        .position(|(x, y)| x != y);
                    self.violation(
                        &format!("{what}_block_transactions_differ"),
                        format!(
                            "{} vs {} transactions, first difference at {i:?}",
                            a.block.transactions().len(),
                            b.block.transactions().len()
                        ),
                        what,
                    );
                }
                if let Some(d) = diff_changes(&a.canon(), &b.canon()) {
                    self.violation(&format!("{what}_changes_differ"), format!("native (left) vs wasm (right): {d}"), what);
                }
                if let Some(d) = first_debug_diff(&a.tx_status, &b.tx_status) {
                    self.violation(&format!("{what}_tx_status_differ"), format!("native vs wasm: {d}"), what);
                }
                if let Some(d) = first_debug_diff(&a.events, &b.events) {
                    self.violation(&format!("{what}_events_differ"), format!("native vs wasm: {d}"), what);
                }
                // the skipped *ids* must agree. Error variants are compared too, except for one pair that
                // differs by design: transactions handed in as already-checked cross the WASM boundary as plain
                // transactions (instance.rs converts them), so an expiration that passed since the pool's check is
                // reported by the full re-check (InvalidTransaction) instead of the executor's own TransactionExpired.
                let norm = |e: &ExecutorError| {
                    let n = err_name(e);
                    if n == "TransactionExpired" || n == "InvalidTransaction.Validity.TransactionExpiration" {
                        "expired".to_string()
                    } else {
                        n
                    }
                };
                let ia: Vec<_> = a.skipped.iter().map(|(id, _)| format!("{id:x}")).collect();
                let ib: Vec<_> = b.skipped.iter().map(|(id, _)| format!("{id:x}")).collect();
                if ia != ib {
                    self.violation(
                        &format!("{what}_skipped_ids_differ"),
                        format!("native skipped {ia:?}, wasm skipped {ib:?}"),
                        what,
                    );
                } else {
                    for ((id, ea), (_, eb)) in a.skipped.iter().zip(b.skipped.iter()) {
                        if err_name(ea) != err_name(eb) {
                            self.report.count(&format!("c07.skip_variant_pair.{}|{}", err_name(ea), err_name(eb)));
                        }
                        if norm(ea) != norm(eb) {
                            self.violation(
                                &format!("{what}_skipped_lists_differ"),
                                format!("tx {id:x}: native {ea:?} vs wasm {eb:?}"),
                                what,
                            );
                        }
                    }
                }
                for (_, e) in &a.skipped {
                    self.report.count(&format!("c07.skip_reason.{}", err_name(e)));
                }
            }
        }
    }

    /// accept/reject and error variant only
    fn verdicts<T, U>(&self, what: &str, n: &Result<T, ExecutorError>, w: &Result<U, ExecutorError>) {
        match (n, w) {
            (Err(a), Err(b)) => {
                if !what.starts_with("dry_run_api") {
                    self.report.count(&format!("c07.{what}.both_error.{}", err_name(a)));
                }
                if err_name(a) != err_name(b) {
                    self.violation(&format!("{what}_error_variants_differ"), format!("native {a:?} vs wasm {b:?}"), what);
                }
            }
            (Ok(_), Err(e)) => self.violation(&format!("{what}_wasm_fails_native_succeeds"), format!("wasm: {e:?}"), what),
            (Err(e), Ok(_)) => self.violation(&format!("{what}_native_fails_wasm_succeeds"), format!("native: {e:?}"), what),
            (Ok(_), Ok(_)) => self.report.count(&format!("c07.{what}.both_ok")),
        }
    }

    fn validation(&self, what: &str, n: &Result<Validated, ExecutorError>, w: &Result<Validated, ExecutorError>) {
        match (n, w) {
            (Err(a), Err(b)) => {
                self.report.count(&format!("c07.{what}.both_reject.{}", err_name(a)));
                self.report.count("c07.validation_both_reject");
                if err_name(a) != err_name(b) {
                    self.violation(
                        &format!("{what}_reject_variants_differ"),
                        format!("native {a:?} vs wasm {b:?}"),
                        what,
                    );
                }
            }
            (Ok(_), Err(e)) => self.violation(&format!("{what}_wasm_rejects_native_accepts"), format!("wasm: {e:?}"), what),
            (Err(e), Ok(_)) => self.violation(&format!("{what}_native_rejects_wasm_accepts"), format!("native: {e:?}"), what),
            (Ok(a), Ok(b)) => {
                self.report.count(&format!("c07.{what}.both_accept"));
                if let Some(d) = diff_changes(&a.canon(), &b.canon()) {
                    self.violation(&format!("{what}_changes_differ"), format!("native (left) vs wasm (right): {d}"), what);
                }
                if let Some(d) = first_debug_diff(&a.tx_status, &b.tx_status) {
                    self.violation(&format!("{what}_tx_status_differ"), format!("native vs wasm: {d}"), what);
                }
                if let Some(d) = first_debug_diff(&a.events, &b.events) {
                    self.violation(&format!("{what}_events_differ"), format!("native vs wasm: {d}"), what);
                }
            }
        }
    }
}

fn reassemble(block: &Block, txs: Vec<Transaction>, produced: &Produced) -> Option<Block> {
    let mut ids = Vec::new();
    for s in &produced.tx_status {
        if let TransactionExecutionResult::Success { receipts, .. } = &s.result {
            ids.extend(receipts.iter().filter_map(|r| r.message_id()));
        }
    }
    PartialFuelBlock::new(PartialBlockHeader::from(block.header()), txs)
        .generate(&ids, block.header().event_inbox_root())
        .ok()
}

fn invalid_variants(sess: &ChainSession, p: &Produced, rng: &mut StdRng) -> Vec<(&'static str, Block)> {
    let txs = p.block.transactions().to_vec();
    let n = txs.len();
    let mut out = Vec::new();
    let Some(Transaction::Mint(m)) = txs.last() else { return out };
    let rebuilt = |amount: u64, index: u16| -> Transaction {
        Transaction::mint(
            chaingen::fuel_core_types::fuel_tx::TxPointer::new(m.tx_pointer().block_height(), index),
            m.input_contract().clone(),
            *m.output_contract(),
            amount,
            *m.mint_asset_id(),
            *m.gas_price(),
        )
        .into()
    };
    let idx = m.tx_pointer().tx_index();
    let mut v = txs.clone();
    v[n - 1] = rebuilt(*m.mint_amount() + 1, idx);
    if let Some(b) = reassemble(&p.block, v, p) {
        out.push(("mint_amount_plus", b));
    }
    let mut v = txs.clone();
    v[n - 1] = rebuilt(*m.mint_amount(), idx + 1);
    if let Some(b) = reassemble(&p.block, v, p) {
        out.push(("mint_index_plus", b));
    }
    if n >= 2 {
        let mut v = txs.clone();
        let k = rng.gen_range(0..n - 1);
        v.insert(n - 1, txs[k].clone());
        if let Some(b) = reassemble(&p.block, v, p) {
            out.push(("duplicate_tx", b));
        }
        // drop a transaction but keep the header: tx root mismatch
        let mut b = p.block.clone();
        b.transactions_mut().remove(k);
        out.push(("tx_removed_header_kept", b));
    }
    if let Some(prev) = sess.history.last() {
        if let Some(t) = prev.block.transactions().first() {
            let mut v = txs.clone();
            v.insert(0, t.clone());
            if let Some(b) = reassemble(&p.block, v, p) {
                out.push(("previous_block_tx", b));
            }
        }
    }
    out
}


// ---------------------------------------------------------------- relayer with an injectable fault

use chaingen::{
    fuel_core::database::{
        Database,
        RelayerIterableKeyValueView,
        database_description::{
            on_chain::OnChain,
            relayer::Relayer,
        },
    },
    fuel_core_executor::{
        executor::{
            TimeoutOnlyTxWaiter,
            TransparentPreconfirmationSender,
        },
        ports::RelayerPort,
    },
    fuel_core_storage::{
        Result as StorageResult,
        transactional::AtomicView,
    },
    fuel_core_types::{
        blockchain::primitives::DaBlockHeight,
        services::{
            block_producer::Components,
            relayer::Event,
        },
    },
    fuel_core_upgradable_executor::executor::Executor,
};
use std::sync::{
    Arc,
    atomic::{
        AtomicU64,
        Ordering,
    },
};

/// Relayer view provider over the session's real relayer database whose
/// `get_events` fails for exactly one DA height (0 = no fault).
#[derive(Clone)]
struct FaultyRelayer {
    inner: Database<Relayer>,
    fail_at: Arc<AtomicU64>,
}

struct FaultyView {
    inner: RelayerIterableKeyValueView,
    fail_at: u64,
}

impl AtomicView for FaultyRelayer {
    type LatestView = FaultyView;

    fn latest_view(&self) -> StorageResult<FaultyView> {
        Ok(FaultyView {
            inner: self.inner.latest_view()?,
            fail_at: self.fail_at.load(Ordering::SeqCst),
        })
    }
}

impl RelayerPort for FaultyView {
    fn enabled(&self) -> bool {
        true
    }

    fn get_events(&self, da_height: &DaBlockHeight) -> anyhow::Result<Vec<Event>> {
        if self.fail_at != 0 && da_height.0 == self.fail_at {
            anyhow::bail!("injected relayer fault at DA height {}", da_height.0)
        }
        self.inner.get_events(da_height)
    }
}

type FaultyExecutor = Executor<Database<OnChain>, FaultyRelayer>;

fn faulty_executor(sess: &ChainSession, strategy: Strategy, fail_at: &Arc<AtomicU64>) -> FaultyExecutor {
    let relayer = FaultyRelayer {
        inner: sess.relayer.clone(),
        fail_at: fail_at.clone(),
    };
    let config = chaingen::session::exec_config(strategy, sess.cfg.forbid_fake_coins);
    match strategy {
        Strategy::Wasm => Executor::wasm(sess.on_chain.clone(), relayer, config),
        _ => Executor::native(sess.on_chain.clone(), relayer, config),
    }
}

fn produce_faulty(exec: &FaultyExecutor, sess: &ChainSession, plan: &BlockPlan, source: SourceKind) -> Result<Block, ExecutorError> {
    let src = chaingen::HarnessSource::new(
        source,
        &plan.txs,
        plan.height.into(),
        plan.params_version,
        &sess.params,
        sess.prev_params.as_ref(),
    );
    let components = Components {
        header_to_produce: sess.header_for(plan),
        transactions_source: src,
        coinbase_recipient: plan.coinbase_recipient,
        gas_price: plan.gas_price,
    };
    let fut = exec.produce_without_commit_with_source(components, TimeoutOnlyTxWaiter, TransparentPreconfirmationSender);
    let (result, _changes) = futures::executor::block_on(fut)?.into();
    Ok(result.block)
}

fn source_for(rng: &mut StdRng) -> SourceKind {
    match rng.gen_range(0..8) {
        0..=2 => SourceKind::Honest,
        3 => SourceKind::HonestChunked(rng.gen_range(1..4)),
        4..=5 => SourceKind::Once,
        6 => SourceKind::IgnoreGas,
        _ => SourceKind::IgnoreAll,
    }
}

fn run_session(report: &Report, selftest: Option<u32>, seed: u64, shard: usize, session: usize, rng: &mut StdRng, blocks: u32) {
    let mut cfg = SessionConfig::random(rng);
    cfg.max_txs_per_block = 10;
    // the build's WASM blob is also stored as the uploaded bytecode of the current version, so that an
    // executor with another native version takes the uploaded-bytecode path for the same blocks
    cfg.uploaded_wasm = true;
    let mut sess = ChainSession::new(rng, cfg);
    let native = sess.executor_for(Strategy::Native);
    let wasm = sess.executor_for(Strategy::Wasm);
    let uploaded = sess.executor_for(Strategy::UploadedWasm);
    // dry-run API: config default x override, native vs uploaded-bytecode path
    let dry_pairs = [
        (true, sess.executor_with(Strategy::Native, true), sess.executor_with(Strategy::UploadedWasm, true)),
        (false, sess.executor_with(Strategy::Native, false), sess.executor_with(Strategy::UploadedWasm, false)),
    ];
    let fail_at = Arc::new(AtomicU64::new(0));
    let native_faulty = faulty_executor(&sess, Strategy::Native, &fail_at);
    let wasm_faulty = faulty_executor(&sess, Strategy::Wasm, &fail_at);
    let opt = GenOptions::default();
    for _ in 0..blocks {
        let parent_da = sess.da_height;
        let plan: BlockPlan = sess.gen_block_plan(rng, &opt);
        let source = source_for(rng);
        let labels: Vec<String> = plan.txs.iter().map(|p| p.label()).collect();
        let replay = |what: &str| {
            json!({"seed": seed, "shard": shard, "session": session, "block": plan.height,
                   "ops": {"what": what, "source": source.name(), "txs": labels, "da": [parent_da, plan.da_height], "gas_price": plan.gas_price}})
        };
        let cmp = Cmp {
            report,
            selftest,
            replay: &replay,
        };
        report.eval();
        // ---- production
        let n = catch(|| sess.produce_on(&native, &plan, &plan.txs, source, false));
        let w = catch(|| sess.produce_on(&wasm, &plan, &plan.txs, source, false));
        let (n, mut w) = match (n, w) {
            (Ok(n), Ok(w)) => (n, w),
            (a, b) => {
                report.inconclusive(format!("panic during production: native {:?} wasm {:?}", a.err(), b.err()));
                return;
            }
        };
        if let Ok(p) = &mut w {
            if selftest == Some(1) && p.events.len() >= 2 {
                p.events.swap(0, 1);
            }
            if selftest == Some(2) {
                if let Some((_, tree)) = p.changes.iter_mut().find(|(_, t)| !t.is_empty()) {
                    let k = tree.keys().next().cloned().unwrap();
                    tree.remove(&k);
                }
            }
            if selftest == Some(3) && !p.skipped.is_empty() {
                p.skipped[0].1 = ExecutorError::MintMissing;
            }
        }
        cmp.production("production", &n, &w);
        // ---- the uploaded-bytecode path (block version != executor's native version)
        match catch(|| sess.produce_on(&uploaded, &plan, &plan.txs, source, false)) {
            Ok(u) => cmp.production("uploaded_production", &n, &u),
            Err(p) => report.inconclusive(format!("panic during production on the uploaded path: {p}")),
        }
        // ---- Executor::dry_run with the utxo-validation override, every combination of config default and override
        {
            let interesting = plan
                .txs
                .iter()
                .filter(|p| matches!(p.twist, chaingen::Twist::MissingCoin | chaingen::Twist::MismatchCoin | chaingen::Twist::DoubleSpend))
                .chain(plan.txs.iter())
                .next();
            if let Some(p) = interesting {
                for (default, nat, upl) in &dry_pairs {
                    let mut verdicts = Vec::new();
                    for ov in [None, Some(true), Some(false)] {
                        let rn = catch(|| sess.dry_run_on(nat, &plan, vec![p.tx.clone()], ov));
                        let ru = catch(|| sess.dry_run_on(upl, &plan, vec![p.tx.clone()], ov));
                        let (Ok(rn), Ok(ru)) = (rn, ru) else {
                            report.inconclusive("panic during Executor::dry_run".to_string());
                            continue
                        };
                        let what = format!("dry_run_api_default_{default}_override_{}", match ov { None => "none", Some(true) => "true", Some(false) => "false" });
                        match (&rn, &ru) {
                            (Ok(a), Ok(b)) => {
                                report.count("c07.dry_run_api.both_ok");
                                // transactions by `==` (cached metadata is not part of equality), statuses by rendering
                                let same_txs = a.transactions.len() == b.transactions.len()
                                    && a.transactions.iter().zip(b.transactions.iter()).all(|(x, y)| x.0 == y.0);
                                let sa: Vec<_> = a.transactions.iter().map(|x| &x.1).collect();
                                let sb: Vec<_> = b.transactions.iter().map(|x| &x.1).collect();
                                if !same_txs {
                                    cmp.violation(&format!("{what}_transactions_differ"), "native vs uploaded path".to_string(), &what);
                                }
                                if let Some(d) = first_debug_diff(&sa, &sb) {
                                    cmp.violation(&format!("{what}_statuses_differ"), format!("native vs uploaded path: {d}"), &what);
                                }
                            }
                            _ => {
                                cmp.verdicts(&what, &rn, &ru);
                                if let (Err(e), Err(_)) = (&rn, &ru) {
                                    report.count(&format!("c07.dry_run_api.both_error.{}", err_name(e)));
                                }
                            }
                        }
                        verdicts.push((ov, rn.is_ok()));
                    }
                    // evidence: the override really mattered for this tx and differed from the config default
                    let ok_true = verdicts.iter().find(|(o, _)| *o == Some(true)).map(|v| v.1);
                    let ok_false = verdicts.iter().find(|(o, _)| *o == Some(false)).map(|v| v.1);
                    if ok_true == Some(false) && ok_false == Some(true) {
                        report.count(&format!("c07.dry_run_api.utxo_override_matters.config_default_{default}"));
                    }
                }
            }
        }
        // ---- relayer fault inside the block's DA range: both strategies must refuse alike
        if plan.da_height > parent_da {
            let at = parent_da + 1 + rng.gen_range(0..(plan.da_height - parent_da));
            fail_at.store(at, Ordering::SeqCst);
            let fnat = catch(|| produce_faulty(&native_faulty, &sess, &plan, source));
            let fwas = catch(|| produce_faulty(&wasm_faulty, &sess, &plan, source));
            if let (Ok(a), Ok(b)) = (&fnat, &fwas) {
                cmp.verdicts("relayer_fault_production", a, b);
                if a.is_err() {
                    report.count("c07.relayer_fault.production_refused_by_native");
                }
            } else {
                report.inconclusive("panic during production with a relayer fault".to_string());
            }
            if let Ok(good) = &n {
                let vn = catch(|| native_faulty.validate(&good.block).map(|_| ()));
                let vw = catch(|| wasm_faulty.validate(&good.block).map(|_| ()));
                if let (Ok(a), Ok(b)) = (&vn, &vw) {
                    cmp.verdicts("relayer_fault_validation", a, b);
                    if a.is_err() {
                        report.count("c07.relayer_fault.validation_refused_by_native");
                    }
                } else {
                    report.inconclusive("panic during validation with a relayer fault".to_string());
                }
            }
            fail_at.store(0, Ordering::SeqCst);
        }
        // ---- dry run (no relayer processing, no mint)
        let dn = catch(|| sess.produce_on(&native, &plan, &plan.txs, source, true));
        let dw = catch(|| sess.produce_on(&wasm, &plan, &plan.txs, source, true));
        if let (Ok(dn), Ok(dw)) = (&dn, &dw) {
            cmp.production("dry_run", dn, dw);
        } else {
            report.inconclusive(format!("panic during dry run: {:?} {:?}", dn.as_ref().err(), dw.as_ref().err()));
        }
        let Ok(produced) = n else {
            report.count("c07.block_not_produced");
            break
        };
        // ---- validation of the produced block and of invalid variants
        let vn = catch(|| sess.validate_on(&native, &produced.block));
        let vw = catch(|| sess.validate_on(&wasm, &produced.block));
        match (vn, vw) {
            (Ok(vn), Ok(vw)) => {
                cmp.validation("validation", &vn, &vw);
                match catch(|| sess.validate_on(&uploaded, &produced.block)) {
                    Ok(vu) => cmp.validation("uploaded_validation", &vn, &vu),
                    Err(p) => report.inconclusive(format!("panic during validation on the uploaded path: {p}")),
                }
            }
            (a, b) => report.inconclusive(format!("panic during validation: {:?} {:?}", a.err(), b.err())),
        }
        for (name, b) in invalid_variants(&sess, &produced, rng) {
            let vn = catch(|| sess.validate_on(&native, &b));
            let vw = catch(|| sess.validate_on(&wasm, &b));
            match (vn, vw) {
                (Ok(vn), Ok(vw)) => cmp.validation(&format!("validation_of_{name}"), &vn, &vw),
                (a, b) => report.inconclusive(format!("panic during validation of {name}: {:?} {:?}", a.err(), b.err())),
            }
        }
        // ---- evidence
        let failed = produced
            .tx_status
            .iter()
            .filter(|s| matches!(s.result, TransactionExecutionResult::Failed { .. }))
            .count();
        report.add("c07.txs_executed", produced.tx_status.len().saturating_sub(1) as u64);
        report.add("c07.txs_failed", failed as u64);
        report.add("c07.txs_skipped", produced.skipped.len() as u64);
        report.count(&format!("c07.source.{}", source.name()));
        if plan.da_height > parent_da {
            report.count("c07.blocks_with_da_advance");
        }
        let state_write = produced.changes.get(&2u32).map(|t| !t.is_empty()).unwrap_or(false);
        if state_write {
            report.count("c07.blocks_with_contract_state_write");
        }
        if produced.tx_status.len() >= 2 && (failed > 0 || !produced.skipped.is_empty() || state_write || plan.da_height > parent_da) {
            report.count("c07.nontrivial_blocks");
            let mut shape: Vec<String> = labels.clone();
            shape.sort();
            report.distinct(&(shape, produced.skipped.len(), failed, plan.da_height - parent_da));
        }
        for p in &plan.txs {
            report.count(&format!("c07.tx.{}", p.label().split(['[', '+', ' ', '{']).next().unwrap_or("")));
        }
        if report.wants_sample() && chance(rng, 10) {
            report.sample(replay("sample"));
        }
        if let Err(e) = sess.commit(&produced.block, &produced.changes) {
            report.inconclusive(format!("commit failed: {e}"));
            return;
        }
        sess.note_committed(&plan);
        sess.note_skipped(&plan, &produced);
    }
}

fn c07(args: &Args, report: &Report) {
    let selftest: Option<u32> = args.extra.get("selftest").and_then(|s| s.parse().ok());
    // compile (or load from wasmtime's on-disk cache) the module once, outside the shards
    {
        let t = std::time::Instant::now();
        let mut rng = rng_for(args.seed, &[0xC07]);
        let cfg = SessionConfig::random(&mut rng);
        let s = ChainSession::new(&mut rng, cfg);
        match catch(|| s.executor_for(Strategy::Wasm)) {
            Ok(_) => report.info("wasm_module_ready_s", json!(t.elapsed().as_secs_f64())),
            Err(p) => {
                report.inconclusive(format!("cannot build the WASM executor: {p}"));
                return;
            }
        }
    }
    let shards = args.by_tier(16, 32);
    let sessions = args.by_tier(2, 8);
    let blocks = args.by_tier(6u32, 10);
    if let Some(r) = read_replay(args) {
        let seed = r.get("seed").and_then(|v| v.as_u64()).unwrap_or(args.seed);
        let shard = r.get("shard").and_then(|v| v.as_u64()).unwrap_or(0) as usize;
        let session = r.get("session").and_then(|v| v.as_u64()).unwrap_or(0) as usize;
        let shard_seed = mix(seed, &[tag(&args.property), shard as u64]);
        let mut rng = rng_for(shard_seed, &[session as u64]);
        if let Err(p) = catch(|| run_session(report, selftest, seed, shard, session, &mut rng, blocks)) {
            report.inconclusive(format!("replay panicked in harness: {p}"));
        }
        return;
    }
    let seed = args.seed;
    let rep = report.clone();
    run_shards(report, args, shards, move |shard, shard_seed| {
        for session in 0..sessions {
            let mut rng = rng_for(shard_seed, &[session as u64]);
            run_session(&rep, selftest, seed, shard, session, &mut rng, blocks);
        }
    });
    if args.replay.is_some() {
        return;
    }
    report.require("c07.uploaded_production.both_ok", args.by_tier(60, 800));
    report.require("c07.uploaded_validation.both_accept", args.by_tier(60, 800));
    report.require("c07.dry_run_api.utxo_override_matters.config_default_true", args.by_tier(15, 160));
    report.require("c07.dry_run_api.utxo_override_matters.config_default_false", args.by_tier(15, 160));
    report.require("c07.dry_run_api.both_ok", args.by_tier(400, 4000));
    report.require("c07.relayer_fault.production_refused_by_native", args.by_tier(80, 960));
    report.require("c07.relayer_fault.validation_refused_by_native", args.by_tier(80, 960));
    report.require("c07.production.both_ok", args.by_tier(60, 800));
    report.require("c07.validation.both_accept", args.by_tier(60, 800));
    report.require("c07.validation_both_reject", args.by_tier(150, 2000));
    report.require("c07.dry_run.both_ok", args.by_tier(60, 800));
    report.require("c07.nontrivial_blocks", args.by_tier(40, 600));
    report.require("c07.txs_failed", args.by_tier(20, 280));
    report.require("c07.txs_skipped", args.by_tier(40, 600));
    report.require("c07.blocks_with_contract_state_write", args.by_tier(15, 200));
    report.require("c07.blocks_with_da_advance", args.by_tier(20, 280));
}

fn main() {
    let args = Args::parse();
    install_quiet_panic_hook();
    let report = Report::new(&args.property);
    match args.property.as_str() {
        "C07" => c07(&args, &report),
        other => report.inconclusive(format!("property {other} not implemented in this monitor")),
    }
    report.finish(
        &args,
        "exploration",
        RULE,
        false,
        &[
            "the WASM blob is the one the harness build embeds (built from /repo by fuel-core-upgradable-executor's build.rs)",
            "both executors read the same in-memory databases; nothing is committed between the compared calls",
            "error variants are compared by variant names (two levels), not payload text",
        ],
    );
}
