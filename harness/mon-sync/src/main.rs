//! C26 — sync imports network blocks in strictly consecutive order starting right
//! after the committed height, only after the consensus check of the sealed header
//! and only with transactions matching the header, and reports peers that supplied
//! bad data.
//!
//! The real `fuel_core_sync::import::Import` is driven through repeated `import()`
//! rounds (so its header/block cache from failed rounds is reused) against scripted
//! `PeerToPeerPort` / `ConsensusPort` / `BlockImporterPort` implementations that log
//! every call. The oracle runs offline over that log and compares with the authentic
//! chain that the honest answers are cut from.

use fuel_core_services::{
    SharedMutex,
    StateWatcher,
    stream::{
        BoxStream,
        IntoBoxStream,
    },
};
use fuel_core_sync::{
    import::{
        Config,
        Import,
    },
    ports::{
        BlockImporterPort,
        ConsensusPort,
        PeerReportReason,
        PeerToPeerPort,
    },
    state::State,
};
use fuel_core_types::{
    blockchain::{
        SealedBlock,
        SealedBlockHeader,
        block::Block,
        consensus::{
            Consensus,
            Sealed,
            poa::PoAConsensus,
        },
        header::PartialBlockHeader,
        primitives::{
            BlockId,
            DaBlockHeight,
        },
    },
    fuel_tx::{
        Bytes32,
        Transaction,
        policies::Policies,
    },
    fuel_types::BlockHeight,
    services::p2p::{
        PeerId,
        SourcePeer,
        Transactions,
    },
    tai64::Tai64,
};
use rand::Rng;
use std::{
    collections::{
        BTreeMap,
        BTreeSet,
        HashMap,
    },
    ops::Range,
    sync::{
        Arc,
        Mutex,
    },
};
use tokio::sync::Notify;
use vcommon::{
    serde_json::{
        Value,
        json,
    },
    *,
};

// ------------------------------------------------------------------ chain

fn mk_tx(id: u64) -> Transaction {
    Transaction::script(0, vec![], id.to_be_bytes().to_vec(), Policies::new(), vec![], vec![], vec![]).into()
}

fn mk_block(height: u32, tx_ids: &[u64], nonce: u64) -> SealedBlock {
    let mut header = PartialBlockHeader::default();
    header.consensus.height = height.into();
    header.consensus.time = Tai64(nonce);
    header.application.da_height = DaBlockHeight(u64::from(height) / 3);
    let txs: Vec<Transaction> = tx_ids.iter().map(|i| mk_tx(*i)).collect();
    Sealed {
        entity: Block::new(header, txs, &[], Bytes32::zeroed()).expect("block"),
        consensus: Consensus::PoA(PoAConsensus::new(Default::default())),
    }
}

fn header_of(b: &SealedBlock) -> SealedBlockHeader {
    Sealed {
        entity: b.entity.header().clone(),
        consensus: b.consensus.clone(),
    }
}

fn peer(i: u8) -> PeerId {
    PeerId::from(vec![i; 4])
}

fn peer_name(p: &PeerId) -> String {
    format!("p{}", p.as_ref().first().copied().unwrap_or(0))
}

// ------------------------------------------------------------------ log

#[derive(Clone, Debug)]
enum Ev {
    RoundStart {
        committed: Option<u32>,
        observed: u32,
    },
    RoundEnd {
        ok: bool,
    },
    Headers {
        range: Range<u32>,
        peer: Option<PeerId>,
        behaviour: &'static str,
        ids: Vec<BlockId>,
        /// fewer headers at the right heights than requested
        missing: bool,
    },
    Txs {
        range: Range<u32>,
        peer: Option<PeerId>,
        behaviour: &'static str,
        /// data: None (or an error on the from-peer path)
        missing: bool,
        /// position of the first list that differs from the authentic one
        garbage_at: Option<usize>,
    },
    Check {
        id: BlockId,
        height: u32,
        verdict: bool,
    },
    Exec {
        height: u32,
        id: BlockId,
        authentic_header: bool,
        authentic_txs: bool,
        expected_next: Option<u32>,
        ok: bool,
    },
    Report {
        peer: PeerId,
        reason: PeerReportReason,
    },
}

fn ev_json(e: &Ev) -> Value {
    match e {
        Ev::RoundStart { committed, observed } => json!({"k": "round_start", "committed": committed, "observed": observed}),
        Ev::RoundEnd { ok } => json!({"k": "round_end", "ok": ok}),
        Ev::Headers {
            range,
            peer,
            behaviour,
            ids,
            missing,
        } => json!({"k": "headers", "range": [range.start, range.end], "peer": peer.as_ref().map(peer_name),
            "behaviour": behaviour, "n": ids.len(), "missing": missing}),
        Ev::Txs {
            range,
            peer,
            behaviour,
            missing,
            garbage_at,
        } => json!({"k": "txs", "range": [range.start, range.end], "peer": peer.as_ref().map(peer_name),
            "behaviour": behaviour, "missing": missing, "garbage_at": garbage_at}),
        Ev::Check { id, height, verdict } => json!({"k": "check", "h": height, "id": &id.to_string()[..8], "verdict": verdict}),
        Ev::Exec {
            height,
            authentic_header,
            authentic_txs,
            expected_next,
            ok,
            ..
        } => json!({"k": "exec", "h": height, "authentic_header": authentic_header, "authentic_txs": authentic_txs,
            "importer_expected": expected_next, "ok": ok}),
        Ev::Report { peer, reason } => json!({"k": "report", "peer": peer_name(peer), "reason": format!("{reason:?}")}),
    }
}

// ------------------------------------------------------------------ world

struct World {
    seed: u64,
    fault: u32,
    chain: Vec<SealedBlock>,
    log: Mutex<Vec<Ev>>,
    attempts: Mutex<HashMap<(u8, u64, u64), u64>>,
    /// the importer stub's committed height
    committed: Mutex<Option<u32>>,
    forged: Mutex<BTreeSet<BlockId>>,
    nonce: Mutex<u64>,
}

impl World {
    fn push(&self, e: Ev) {
        self.log.lock().unwrap().push(e);
    }

    fn attempt(&self, kind: u8, a: u64, b: u64) -> u64 {
        let mut g = self.attempts.lock().unwrap();
        let n = g.entry((kind, a, b)).or_insert(0);
        *n += 1;
        *n
    }

    fn rng(&self, kind: u8, a: u64, b: u64) -> (rand::rngs::StdRng, u64) {
        let n = self.attempt(kind, a, b);
        (rng_for(self.seed, &[kind as u64, a, b, n]), n)
    }

    fn true_header(&self, h: u32) -> Option<SealedBlockHeader> {
        self.chain.get(h as usize).map(header_of)
    }

    fn forged_header(&self, h: u32) -> SealedBlockHeader {
        let mut n = self.nonce.lock().unwrap();
        *n += 1;
        let b = mk_block(h, &[], 1_000_000 + *n);
        let hd = header_of(&b);
        self.forged.lock().unwrap().insert(hd.entity.id());
        hd
    }
}

async fn yields(n: u32) {
    for _ in 0..n {
        tokio::task::yield_now().await;
    }
}

struct P2p(Arc<World>);
struct Cons(Arc<World>);
struct Imp(Arc<World>);

#[async_trait::async_trait]
impl PeerToPeerPort for P2p {
    fn height_stream(&self) -> BoxStream<BlockHeight> {
        futures::stream::pending().into_boxed()
    }

    async fn get_sealed_block_headers(
        &self,
        range: Range<u32>,
    ) -> anyhow::Result<SourcePeer<Option<Vec<SealedBlockHeader>>>> {
        let w = &self.0;
        let (mut rng, _) = w.rng(1, range.start as u64, range.end as u64);
        yields(rng.gen_range(0..4)).await;
        let p = peer(rng.gen_range(1..=4));
        let full: Vec<SealedBlockHeader> = range.clone().filter_map(|h| w.true_header(h)).collect();
        let beyond_chain = full.len() < range.len();
        let len = full.len();
        let faulty = chance(&mut rng, w.fault);
        let behaviour = if !faulty || len == 0 {
            "full"
        } else {
            *pick(
                &mut rng,
                &["error", "none", "empty", "short", "wrong_height", "forged", "forged", "extra", "slow"],
            )
        };
        let mut out = full.clone();
        let mut result_none = false;
        match behaviour {
            "error" => {
                w.push(Ev::Headers {
                    range,
                    peer: None,
                    behaviour,
                    ids: vec![],
                    missing: true,
                });
                return Err(anyhow::anyhow!("injected p2p error"));
            }
            "none" => {
                result_none = true;
                out.clear();
            }
            "empty" => out.clear(),
            "short" => out.truncate(rng.gen_range(0..len)),
            "wrong_height" => {
                let k = rng.gen_range(0..len);
                let h = range.start + k as u32;
                let other = if chance(&mut rng, 50) { h.saturating_add(1) } else { h.saturating_sub(1) };
                match w.true_header(other) {
                    Some(hd) if other != h => out[k] = hd,
                    _ => out.truncate(k),
                }
            }
            "forged" => {
                let k = rng.gen_range(0..len);
                out[k] = w.forged_header(range.start + k as u32);
            }
            "extra" => {
                for h in range.end..range.end.saturating_add(2) {
                    if let Some(hd) = w.true_header(h) {
                        out.push(hd);
                    }
                }
            }
            "slow" => yields(rng.gen_range(3..12)).await,
            _ => {}
        }
        // how many leading headers sit at the requested heights
        let good_prefix = out
            .iter()
            .zip(range.clone())
            .take_while(|(h, want)| **h.entity.height() == *want)
            .count();
        let missing = good_prefix < range.len();
        let _ = beyond_chain;
        w.push(Ev::Headers {
            range,
            peer: Some(p.clone()),
            behaviour,
            ids: out.iter().map(|h| h.entity.id()).collect(),
            missing,
        });
        Ok(p.bind(if result_none { None } else { Some(out) }))
    }

    async fn get_transactions(&self, range: Range<u32>) -> anyhow::Result<SourcePeer<Option<Vec<Transactions>>>> {
        let w = &self.0;
        let p = {
            let mut r = rng_for(w.seed, &[7, range.start as u64, range.end as u64, w.attempt(3, range.start as u64, range.end as u64)]);
            peer(r.gen_range(1..=4))
        };
        match txs_response(w, range, p.clone(), false).await {
            Ok(data) => Ok(p.bind(data)),
            Err(e) => Err(e),
        }
    }

    async fn get_transactions_from_peer(&self, block_ids: SourcePeer<Range<u32>>) -> anyhow::Result<Option<Vec<Transactions>>> {
        let SourcePeer { peer_id, data } = block_ids;
        txs_response(&self.0, data, peer_id, true).await
    }

    fn report_peer(&self, peer: PeerId, report: PeerReportReason) -> anyhow::Result<()> {
        self.0.push(Ev::Report { peer, reason: report });
        let (mut rng, _) = self.0.rng(4, 0, 0);
        if chance(&mut rng, self.0.fault / 4) {
            Err(anyhow::anyhow!("injected report failure"))
        } else {
            Ok(())
        }
    }
}

async fn txs_response(w: &Arc<World>, range: Range<u32>, p: PeerId, from_peer: bool) -> anyhow::Result<Option<Vec<Transactions>>> {
    let (mut rng, _) = w.rng(2, range.start as u64, range.end as u64);
    yields(rng.gen_range(0..4)).await;
    let full: Vec<Transactions> = range
        .clone()
        .filter_map(|h| w.chain.get(h as usize))
        .map(|b| Transactions(b.entity.transactions().to_vec()))
        .collect();
    let len = full.len();
    let faulty = chance(&mut rng, w.fault);
    let behaviour = if !faulty || len == 0 {
        "full"
    } else {
        *pick(&mut rng, &["error", "none", "short", "garbage_first", "garbage_any", "extra", "slow"])
    };
    let mut out = full.clone();
    let mut garbage_at = None;
    match behaviour {
        "error" => {
            w.push(Ev::Txs {
                range,
                peer: if from_peer { Some(p) } else { None },
                behaviour,
                missing: from_peer,
                garbage_at: None,
            });
            return Err(anyhow::anyhow!("injected p2p error"));
        }
        "none" => {
            w.push(Ev::Txs {
                range,
                peer: Some(p),
                behaviour,
                missing: true,
                garbage_at: None,
            });
            return Ok(None);
        }
        "short" => out.truncate(rng.gen_range(0..len)),
        "garbage_first" | "garbage_any" => {
            let k = if behaviour == "garbage_first" { 0 } else { rng.gen_range(0..len) };
            let l = &mut out[k].0;
            match rng.gen_range(0..3) {
                0 => l.push(mk_tx(900_000 + rng.gen_range(0..1000))),
                1 if !l.is_empty() => {
                    l.pop();
                }
                _ => {
                    l.clear();
                    l.push(mk_tx(800_000 + rng.gen_range(0..1000)));
                    l.push(mk_tx(700_000 + rng.gen_range(0..1000)));
                }
            }
            garbage_at = Some(k);
        }
        "extra" => out.push(Transactions(vec![mk_tx(600_000)])),
        "slow" => yields(rng.gen_range(3..12)).await,
        _ => {}
    }
    w.push(Ev::Txs {
        range,
        peer: Some(p),
        behaviour,
        missing: false,
        garbage_at,
    });
    Ok(Some(out))
}

impl ConsensusPort for Cons {
    fn check_sealed_header(&self, header: &SealedBlockHeader) -> anyhow::Result<bool> {
        let w = &self.0;
        let id = header.entity.id();
        let height = **header.entity.height();
        let idn = u64::from_be_bytes(id.as_slice()[..8].try_into().unwrap());
        let (mut rng, _) = w.rng(5, idn, 0);
        let forged = w.forged.lock().unwrap().contains(&id);
        let authentic = w.true_header(height).map(|h| h.entity.id() == id).unwrap_or(false);
        let verdict = authentic && !forged && !chance(&mut rng, w.fault / 8);
        w.push(Ev::Check { id, height, verdict });
        if !verdict && chance(&mut rng, 40) {
            Err(anyhow::anyhow!("injected consensus error"))
        } else {
            Ok(verdict)
        }
    }

    async fn await_da_height(&self, da_height: &DaBlockHeight) -> anyhow::Result<()> {
        let w = &self.0;
        let (mut rng, _) = w.rng(6, da_height.0, 0);
        yields(rng.gen_range(0..3)).await;
        if chance(&mut rng, w.fault / 4) {
            Err(anyhow::anyhow!("injected DA wait failure"))
        } else {
            Ok(())
        }
    }
}

impl BlockImporterPort for Imp {
    fn committed_height_stream(&self) -> BoxStream<BlockHeight> {
        futures::stream::pending().into_boxed()
    }

    async fn execute_and_commit(&self, block: SealedBlock) -> anyhow::Result<()> {
        let w = &self.0;
        let height = **block.entity.header().height();
        let id = block.entity.id();
        let (mut rng, _) = w.rng(8, height as u64, 0);
        yields(rng.gen_range(0..3)).await;
        let truth = w.chain.get(height as usize);
        let authentic_header = truth.map(|t| t.entity.id() == id && t.consensus == block.consensus).unwrap_or(false);
        let authentic_txs = truth
            .map(|t| t.entity.transactions() == block.entity.transactions())
            .unwrap_or(false);
        let mut committed = w.committed.lock().unwrap();
        let expected_next = match *committed {
            None => Some(0),
            Some(c) => c.checked_add(1),
        };
        let acceptable = expected_next == Some(height) && authentic_header && authentic_txs;
        let ok = acceptable && !chance(&mut rng, w.fault / 3);
        if ok {
            *committed = Some(height);
        }
        drop(committed);
        w.push(Ev::Exec {
            height,
            id,
            authentic_header,
            authentic_txs,
            expected_next,
            ok,
        });
        if ok { Ok(()) } else { Err(anyhow::anyhow!("importer rejected block {height}")) }
    }
}

// ------------------------------------------------------------------ one case

fn is_bad(r: &PeerReportReason) -> bool {
    !matches!(r, PeerReportReason::SuccessfulBlockImport)
}

fn run_case(args: &Args, report: &Report, cs: u64) {
    let mut rng = rng_for(cs, &[0]);
    let chain_len = rng.gen_range(6..=24u32);
    let mut next_tx = 0u64;
    let chain: Vec<SealedBlock> = (0..chain_len)
        .map(|h| {
            let n = rng.gen_range(0..=2);
            let ids: Vec<u64> = (0..n)
                .map(|_| {
                    next_tx += 1;
                    next_tx
                })
                .collect();
            mk_block(h, &ids, h as u64 + 1)
        })
        .collect();
    let fault = *pick(&mut rng, &[0u32, 8, 15, 30, 50]);
    let c0: Option<u32> = *pick(&mut rng, &[None, None, Some(0), Some(2)]);
    let params = Config {
        block_stream_buffer_size: rng.gen_range(1..=4),
        header_batch_size: rng.gen_range(1..=5),
    };
    let rounds = args.by_tier(8usize, 12);
    let w = Arc::new(World {
        seed: cs,
        fault,
        chain,
        log: Default::default(),
        attempts: Default::default(),
        committed: Mutex::new(c0),
        forged: Default::default(),
        nonce: Default::default(),
    });
    let top = chain_len - 1;
    let first_obs = rng.gen_range(c0.map(|c| c + 1).unwrap_or(0)..=top);
    let state = SharedMutex::new(State::new(c0, Some(first_obs)));
    let notify = Arc::new(Notify::new());
    let mut import = Import::new(
        state.clone(),
        notify.clone(),
        params,
        Arc::new(P2p(w.clone())),
        Arc::new(Imp(w.clone())),
        Arc::new(Cons(w.clone())),
    );
    let rt = tokio::runtime::Builder::new_current_thread().enable_all().build().expect("runtime");
    let (_tx, rx) = tokio::sync::watch::channel(fuel_core_services::State::Started);
    let mut watcher: StateWatcher = rx.into();
    let w2 = w.clone();
    let mut timed_out = false;
    let r = catch(|| {
        rt.block_on(async {
            let mut observed = first_obs;
            for _round in 0..rounds {
                let committed = *w2.committed.lock().unwrap();
                if committed == Some(top) {
                    break;
                }
                // raise the observed height now and then; always re-observe after a failed round
                if committed.map(|c| c >= observed).unwrap_or(false) {
                    observed = rng.gen_range(committed.unwrap_or(0) + 1..=top);
                } else if chance(&mut rng, 40) {
                    observed = rng.gen_range(observed..=top);
                }
                state.apply(|s| s.observe(observed));
                w2.push(Ev::RoundStart { committed, observed });
                // a concurrent observer that raises the target while the round runs
                let st = state.clone();
                let bump = if chance(&mut rng, 30) { Some(rng.gen_range(observed..=top)) } else { None };
                let obs_task = tokio::spawn(async move {
                    if let Some(b) = bump {
                        yields(5).await;
                        st.apply(|s| s.observe(b));
                    }
                });
                notify.notify_one();
                let res = tokio::time::timeout(std::time::Duration::from_secs(30), import.import(&mut watcher)).await;
                let _ = obs_task.await;
                if let Some(b) = bump {
                    observed = observed.max(b);
                }
                match res {
                    Ok(r) => w2.push(Ev::RoundEnd { ok: r.is_ok() }),
                    Err(_) => {
                        timed_out = true;
                        break;
                    }
                }
            }
        })
    });
    drop(rt);
    if let Err(p) = r {
        // a panic inside the sync code (e.g. a debug assertion of the cache) is not what C26 talks about
        report.inconclusive(format!("case {cs}: panic while driving Import::import: {p}"));
        return;
    }
    if timed_out {
        report.inconclusive(format!("case {cs}: import() did not return within the watchdog"));
        return;
    }
    let mut log = w.log.lock().unwrap().clone();
    judge(args, report, cs, &w, &mut log, params, c0);
}

fn judge(args: &Args, report: &Report, cs: u64, w: &World, log: &mut Vec<Ev>, params: Config, c0: Option<u32>) {
    let st: u32 = args.extra.get("selftest").and_then(|s| s.parse().ok()).unwrap_or(0);
    let sig = |s: &str| if st > 0 { format!("selftest:{s}") } else { s.to_string() };
    // ---- self-test perturbations of the *observed* log
    if st == 1 {
        let ix: Vec<usize> = log
            .iter()
            .enumerate()
            .filter(|(_, e)| matches!(e, Ev::Exec { ok: true, .. }))
            .map(|(i, _)| i)
            .collect();
        if ix.len() >= 2 {
            log.swap(ix[0], ix[1]);
            // keep the importer's own expectation consistent with the swapped order so that only
            // the oracle's ordering rule can notice
        }
    }
    if st == 2 {
        if let Some(i) = log.iter().position(|e| matches!(e, Ev::Report { reason, .. } if is_bad(reason))) {
            log.remove(i);
        }
    }
    if st == 3 {
        if let Some(Ev::Exec { authentic_txs, .. }) = log.iter_mut().find(|e| matches!(e, Ev::Exec { ok: true, .. })) {
            *authentic_txs = false;
        }
    }

    report.eval();
    report.count("cases");
    let mut viol: Vec<(String, String)> = vec![];
    // ---- order / authenticity of executions
    let mut committed = c0;
    let mut round_committed_start = c0;
    let mut executed_ok_in_round: BTreeSet<u32> = BTreeSet::new();
    let mut exec_calls_in_round: BTreeMap<u32, usize> = BTreeMap::new();
    let mut checks: HashMap<BlockId, Vec<(usize, bool)>> = HashMap::new();
    let mut suppliers: HashMap<BlockId, BTreeSet<PeerId>> = HashMap::new();
    let mut round_failed_before = false;
    let mut rounds_ok = 0u64;
    let mut rounds_failed = 0u64;
    let mut hdr_req_round: Vec<Range<u32>> = vec![];
    let mut tx_req_round: Vec<Range<u32>> = vec![];
    let mut progress_after_failure = false;
    let mut shape: Vec<(u8, u32)> = vec![];
    for (i, e) in log.iter().enumerate() {
        match e {
            Ev::RoundStart { .. } => {
                round_committed_start = committed;
                executed_ok_in_round.clear();
                exec_calls_in_round.clear();
                hdr_req_round.clear();
                tx_req_round.clear();
                report.count("rounds");
            }
            Ev::RoundEnd { ok } => {
                if *ok {
                    rounds_ok += 1;
                } else {
                    rounds_failed += 1;
                    round_failed_before = true;
                }
                shape.push((if *ok { 1 } else { 2 }, executed_ok_in_round.len() as u32));
            }
            Ev::Headers { range, peer, ids, behaviour, .. } => {
                report.count(&format!("p2p.headers.{behaviour}"));
                hdr_req_round.push(range.clone());
                if let Some(p) = peer {
                    for id in ids {
                        suppliers.entry(*id).or_default().insert(p.clone());
                    }
                }
            }
            Ev::Txs { range, behaviour, .. } => {
                report.count(&format!("p2p.txs.{behaviour}"));
                tx_req_round.push(range.clone());
            }
            Ev::Check { id, verdict, .. } => {
                report.count(if *verdict { "consensus.accept" } else { "consensus.reject" });
                checks.entry(*id).or_default().push((i, *verdict));
            }
            Ev::Exec {
                height,
                id,
                authentic_header,
                authentic_txs,
                ok,
                ..
            } => {
                report.count("exec.calls");
                let want = match committed {
                    None => Some(0),
                    Some(c) => c.checked_add(1),
                };
                *exec_calls_in_round.entry(*height).or_default() += 1;
                if Some(*height) != want {
                    // where did this copy of the block come from: if the height was requested from the
                    // network fewer times than it was executed in this round, one copy came out of the cache
                    let fetched_n = hdr_req_round.iter().filter(|r| r.contains(height)).count();
                    let kind = if executed_ok_in_round.contains(height) {
                        if fetched_n < exec_calls_in_round[height] {
                            "reexecuted_in_same_round source=cache"
                        } else {
                            "reexecuted_in_same_round source=network"
                        }
                    } else if committed.map(|c| *height <= c).unwrap_or(false) {
                        "at_or_below_committed"
                    } else {
                        "skipped_ahead"
                    };
                    let fetched = hdr_req_round.iter().any(|r| r.contains(height));
                    viol.push((
                        format!("exec_not_next kind={kind}"),
                        format!(
                            "execute_and_commit called for height {height} while the committed height is {committed:?} \
                             (round started at {round_committed_start:?}; heights executed in this round {executed_ok_in_round:?}; \
                             height fetched from the network in this round: {fetched}; header batches requested this round {hdr_req_round:?})"
                        ),
                    ));
                }
                if !*authentic_header {
                    viol.push((
                        "exec_forged_header".into(),
                        format!("block executed at {height} carries a header/seal that is not the authentic one"),
                    ));
                } else if !*authentic_txs {
                    viol.push((
                        "exec_transactions_do_not_match_header".into(),
                        format!("block executed at {height} carries transactions that differ from the header's"),
                    ));
                }
                let approved = checks.get(id).map(|v| v.iter().any(|(_, ok)| *ok)).unwrap_or(false);
                if !approved {
                    viol.push((
                        "exec_without_consensus_approval".into(),
                        format!("height {height} executed but no consensus check of its sealed header ever succeeded"),
                    ));
                }
                if *ok {
                    report.count("exec.ok");
                    committed = Some(*height);
                    executed_ok_in_round.insert(*height);
                    if round_failed_before {
                        progress_after_failure = true;
                    }
                    let from_net_hdr = hdr_req_round.iter().any(|r| r.contains(height));
                    let from_net_txs = tx_req_round.iter().any(|r| r.contains(height));
                    if !from_net_txs {
                        report.count("cache.block_hits");
                    } else if !from_net_hdr {
                        report.count("cache.header_hits");
                    }
                } else {
                    report.count("exec.failed");
                }
            }
            Ev::Report { reason, .. } => {
                report.count(&format!("report.{reason:?}"));
            }
        }
    }
    // ---- peer reports
    // required: defects that the pipeline certainly reached
    let mut need: BTreeMap<(PeerId, String), (u64, String)> = BTreeMap::new();
    let mut allow: BTreeMap<(PeerId, String), u64> = BTreeMap::new();
    let mut bad_check_total = 0u64;
    let mut bad_check_suppliers: BTreeSet<PeerId> = BTreeSet::new();
    for e in log.iter() {
        match e {
            Ev::Headers {
                peer: Some(p),
                missing: true,
                range,
                behaviour,
                ..
            } => {
                let k = (p.clone(), "MissingBlockHeaders".to_string());
                let n = need.entry(k.clone()).or_insert((0, String::new()));
                n.0 += 1;
                n.1 = format!("headers {range:?} answered `{behaviour}`");
                *allow.entry(k).or_default() += 1;
            }
            Ev::Txs {
                peer: Some(p),
                missing,
                garbage_at,
                range,
                behaviour,
                ..
            } => {
                if *missing {
                    let k = (p.clone(), "MissingTransactions".to_string());
                    let n = need.entry(k.clone()).or_insert((0, String::new()));
                    n.0 += 1;
                    n.1 = format!("transactions {range:?} answered `{behaviour}`");
                    *allow.entry(k).or_default() += 1;
                }
                if let Some(g) = garbage_at {
                    let k = (p.clone(), "InvalidTransactions".to_string());
                    *allow.entry(k.clone()).or_default() += 1;
                    if *g == 0 {
                        let n = need.entry(k).or_insert((0, String::new()));
                        n.0 += 1;
                        n.1 = format!("transactions {range:?} answered `{behaviour}` (first list wrong)");
                    }
                }
            }
            Ev::Check { id, verdict: false, .. } => {
                bad_check_total += 1;
                if let Some(s) = suppliers.get(id) {
                    bad_check_suppliers.extend(s.iter().cloned());
                }
            }
            _ => {}
        }
    }
    let mut got: BTreeMap<(PeerId, String), u64> = BTreeMap::new();
    let mut bad_header_reports = 0u64;
    for e in log.iter() {
        if let Ev::Report { peer, reason } = e {
            if *reason == PeerReportReason::BadBlockHeader {
                bad_header_reports += 1;
                if !bad_check_suppliers.contains(peer) {
                    viol.push((
                        "honest_peer_reported reason=BadBlockHeader".into(),
                        format!("{} reported for a bad header but never supplied a header that failed the check", peer_name(peer)),
                    ));
                }
            } else if is_bad(reason) {
                *got.entry((peer.clone(), format!("{reason:?}"))).or_default() += 1;
            }
        }
    }
    if bad_header_reports != bad_check_total {
        viol.push((
            if bad_header_reports < bad_check_total {
                "bad_peer_not_reported reason=BadBlockHeader".to_string()
            } else {
                "honest_peer_reported reason=BadBlockHeader".to_string()
            },
            format!("{bad_check_total} sealed headers failed the consensus check, {bad_header_reports} BadBlockHeader reports were made"),
        ));
    }
    for ((p, reason), (n, why)) in need.iter() {
        let g = got.get(&(p.clone(), reason.clone())).copied().unwrap_or(0);
        if g < *n {
            viol.push((
                format!("bad_peer_not_reported reason={reason}"),
                format!("{} gave {n} answers requiring a {reason} report (e.g. {why}) but was reported {g} times", peer_name(p)),
            ));
        }
    }
    for ((p, reason), g) in got.iter() {
        let a = allow.get(&(p.clone(), reason.clone())).copied().unwrap_or(0);
        if *g > a {
            viol.push((
                format!("honest_peer_reported reason={reason}"),
                format!("{} was reported {g} times for {reason} but gave only {a} such answers", peer_name(p)),
            ));
        }
    }
    report.add("rounds.ok", rounds_ok);
    report.add("rounds.failed", rounds_failed);
    report.count(&format!("cfg.batch.{}", params.header_batch_size));
    report.count(&format!("cfg.buffer.{}", params.block_stream_buffer_size));
    report.count(&format!("cfg.fault.{}", w.fault));
    if progress_after_failure {
        report.count("cases.progress_after_failed_round");
        report.distinct(&(params.header_batch_size, params.block_stream_buffer_size, c0, w.chain.len(), &shape));
    }
    if committed == Some(w.chain.len() as u32 - 1) {
        report.count("cases.fully_synced");
    }
    if report.wants_sample() && rounds_failed > 0 {
        report.sample(json!({"case_seed": cs, "batch": params.header_batch_size, "buffer": params.block_stream_buffer_size,
            "fault_percent": w.fault, "chain_len": w.chain.len(), "initial_committed": c0,
            "events": log.iter().take(40).map(ev_json).collect::<Vec<_>>()}));
    }
    if !viol.is_empty() {
        let evs: Vec<Value> = log.iter().map(ev_json).collect();
        let mut seen = BTreeSet::new();
        for (s, d) in viol {
            if !seen.insert(s.clone()) {
                continue;
            }
            report.violation(
                sig(&s),
                format!(
                    "{d}\ncase: batch size {}, buffer {}, fault {}%, chain 0..{}, initially committed {c0:?}",
                    params.header_batch_size,
                    params.block_stream_buffer_size,
                    w.fault,
                    w.chain.len()
                ),
                json!({"case_seed": cs, "events": evs}),
            );
        }
    }
}

fn main() {
    let args = Args::parse();
    install_quiet_panic_hook();
    let report = Report::new(&args.property);
    let mut rule = String::new();
    let mut assumptions: Vec<&str> = vec![];
    match args.property.as_str() {
        "C26" => {
            if let Some(rep) = read_replay(&args) {
                let cs = rep.get("case_seed").and_then(|v| v.as_u64()).unwrap_or(0);
                run_case(&args, &report, cs);
            } else {
                let shards = args.by_tier(32usize, 64);
                let per = args.by_tier(1200usize, 9000);
                let a = args.clone();
                let r = report.clone();
                run_shards(&report, &args, shards, move |_i, s| {
                    for it in 0..per {
                        run_case(&a, &r, mix(s, &[it as u64]));
                    }
                });
                if !args.extra.contains_key("selftest") {
                    let q = !args.is_thorough();
                    report.require("cases", if q { 15_000 } else { 400_000 });
                    report.require("exec.ok", if q { 150_000 } else { 4_000_000 });
                    report.require("exec.failed", 5_000);
                    report.require("rounds.failed", 15_000);
                    report.require("cases.progress_after_failed_round", 5_000);
                    report.require("cache.block_hits", 5_000);
                    report.require("cache.header_hits", 5_000);
                    report.require("consensus.reject", 2_500);
                    for k in ["error", "none", "empty", "short", "wrong_height", "forged", "extra"] {
                        report.require(&format!("p2p.headers.{k}"), 1000);
                    }
                    for k in ["error", "none", "short", "garbage_first", "garbage_any", "extra"] {
                        report.require(&format!("p2p.txs.{k}"), 1000);
                    }
                    for k in ["BadBlockHeader", "MissingBlockHeaders", "MissingTransactions", "InvalidTransactions", "SuccessfulBlockImport"] {
                        report.require(&format!("report.{k}"), 2500);
                    }
                }
            }
            rule = "a case = authentic chain of 6..24 blocks, batch size 1..5, stream buffer 1..4, a fault rate, and up to 8 \
                    import() rounds on one Import (cache kept) with observed-height raises before and during rounds; peer / \
                    consensus / importer answers are a pure function of (case seed, request, attempt). Non-trivial = a round \
                    failed and a later round executed at least one block; distinct = (batch, buffer, initial height, chain \
                    length, per-round (result, blocks executed))."
                .to_string();
            assumptions = vec![
                "the harness ports log every call at the boundary; the oracle sees nothing inside Import",
                "a header is authentic iff it is the generated chain's header for its height; the consensus stub approves exactly those (minus injected transient failures)",
                "report obligations are limited to defects the pipeline certainly reaches: missing/misplaced headers, a header failing the check, data:None transactions, a wrong first transaction list",
            ];
        }
        other => report.inconclusive(format!("property {other} not implemented in this monitor")),
    }
    report.finish(&args, "exploration", &rule, false, &assumptions);
}
