//! Deterministic sequential histories with a per-call oracle.

use crate::{
    selftest,
    sig,
    store::{
        changes_applied,
        col_count,
        dump_diff,
    },
    util::*,
};
use fuel_core_importer::{
    ImporterResult,
    ports::{
        DatabaseTransaction,
        ImporterDatabase,
        Transactional,
    },
};
use fuel_core_storage::{
    StorageAsRef,
    column::Column,
    kv_store::WriteOperation,
    tables::{
        FuelBlocks,
        SealedBlockConsensus,
        Transactions,
        merkle::{
            DenseMetadataKey,
            FuelBlockMerkleMetadata,
        },
    },
    transactional::{
        Changes,
        HistoricalView,
    },
};
use fuel_core_types::{
    blockchain::{
        SealedBlock,
        consensus::Consensus,
    },
    fuel_tx::UniqueIdentifier,
    services::block_importer::{
        ImportResult,
        UncommittedResult,
    },
};
use rand::{
    Rng,
    rngs::StdRng,
};
use std::sync::atomic::Ordering;
use vcommon::{
    serde_json::{
        Value,
        json,
    },
    *,
};

#[derive(Clone, Copy, PartialEq, Eq, Debug)]
enum Call {
    CommitLocal,
    CommitNetwork,
    Execute,
}

impl Call {
    fn name(&self) -> &'static str {
        match self {
            Call::CommitLocal => "commit_result_local",
            Call::CommitNetwork => "commit_result_network",
            Call::Execute => "execute_and_commit",
        }
    }
}

fn weighted<'a>(rng: &mut StdRng, items: &[(&'a str, u32)]) -> &'a str {
    let total: u32 = items.iter().map(|x| x.1).sum();
    let mut r = rng.gen_range(0..total);
    for (n, w) in items {
        if r < *w {
            return n;
        }
        r -= *w;
    }
    items[0].0
}

struct Hist {
    model_latest: Option<u32>,
    committed: Vec<SealedBlock>,
    committed_tx: Vec<u64>,
    future_tx: Vec<u64>,
    next_tx: u64,
    nonce: u64,
    ids: std::collections::HashMap<fuel_core_types::blockchain::primitives::BlockId, Vec<u64>>,
}

impl Hist {
    fn poa(&mut self, height: u32, txs: &[u64]) -> SealedBlock {
        let n = self.nonce();
        let b = seal_poa(mk_block(height, txs, n));
        self.ids.insert(b.entity.id(), txs.to_vec());
        b
    }

    fn genesis(&mut self, height: u32, txs: &[u64]) -> SealedBlock {
        let n = self.nonce();
        let b = seal_genesis(mk_block(height, txs, n));
        self.ids.insert(b.entity.id(), txs.to_vec());
        b
    }

    fn fresh_txs(&mut self, rng: &mut StdRng) -> Vec<u64> {
        let n = rng.gen_range(0..=3);
        (0..n)
            .map(|_| {
                self.next_tx += 1;
                self.next_tx
            })
            .collect()
    }

    fn nonce(&mut self) -> u64 {
        self.nonce += 1;
        self.nonce
    }
}

fn base_changes(rng: &mut StdRng) -> Changes {
    let mut c = Changes::default();
    let n = rng.gen_range(0..=4);
    for _ in 0..n {
        let col = *pick(rng, &[Column::Coins, Column::ContractsState, Column::Messages]);
        let key = vec![col as u8, rng.gen_range(0..6u8), 0, 1];
        let val = if chance(rng, 20) {
            None
        } else {
            let l = rng.gen_range(1..=8);
            Some((0..l).map(|_| rng.r#gen::<u8>()).collect::<Vec<u8>>())
        };
        merge(&mut c, raw_change(col, key, val));
    }
    c
}

fn first_key(c: &Changes, col: Column) -> Option<(Vec<u8>, Option<Vec<u8>>)> {
    c.get(&(col as u32)).and_then(|t| {
        t.iter().next().map(|(k, op)| {
            let v = match op {
                WriteOperation::Insert(v) => Some(v.to_vec()),
                WriteOperation::Remove => None,
            };
            (k.as_ref().to_vec(), v)
        })
    })
}

pub fn run_history(args: &Args, report: &Report, hs: u64) {
    let mut rng = rng_for(hs, &[1]);
    let b = rng.gen_range(0..100);
    // RocksDB histories cost seconds each (column-family creation and close fsync), so few of them in quick
    let (m, r) = if args.is_thorough() { (80, 92) } else { (95, 98) };
    let backend = if b < m {
        Backend::Memory
    } else if b < r {
        Backend::RocksDb
    } else {
        Backend::RocksDbRewind
    };
    let notify_buf = *pick(&mut rng, &[1usize, 1, 2, 3, 1024]);
    let t0 = std::time::Instant::now();
    let env = match Env::new(backend, &args.scratch, hs, notify_buf) {
        Ok(e) => e,
        Err(e) => {
            report.inconclusive(format!("environment: {e}"));
            return;
        }
    };
    report.add(&format!("seq.env_new_ms.{}", backend.name()), t0.elapsed().as_millis() as u64);
    let rt = tokio::runtime::Builder::new_current_thread()
        .enable_all()
        .start_paused(true)
        .build()
        .expect("runtime");
    let r = catch(|| rt.block_on(drive(args, report, hs, &mut rng, &env, notify_buf)));
    if let Err(p) = r {
        report.inconclusive(format!("sequential history {hs} panicked in harness: {p}"));
    }
    drop(rt);
    let name = env.backend.name();
    let t1 = std::time::Instant::now();
    env.close();
    report.add(&format!("seq.env_close_ms.{name}"), t1.elapsed().as_millis() as u64);
    report.add(&format!("seq.wall_ms.{name}"), t0.elapsed().as_millis() as u64);
}

async fn drive(args: &Args, report: &Report, hs: u64, rng: &mut StdRng, env: &Env, notify_buf: usize) {
    let st = selftest(args);
    let backend = env.backend;
    let bname = backend.name();
    let collide_profile = backend != Backend::Memory || chance(rng, 70);
    let hold_p = *pick(rng, &[0u32, 0, 30, 60]);
    let genesis_height = *pick(rng, &[0u32, 0, 0, 1, 1, 5, 5, 1000, 1000, 70_000, u32::MAX - 9, u32::MAX - 2]);
    let n_ops = args.by_tier(36usize, 60);
    let cid = chain_id();

    let mut rx = env.importer.subscribe();
    *env.ctl.probe.lock().unwrap() = Some(env.importer.subscribe());

    let mut h = Hist {
        model_latest: None,
        committed: vec![],
        committed_tx: vec![],
        future_tx: vec![],
        next_tx: 0,
        nonce: 0,
        ids: Default::default(),
    };
    let mut held: Vec<ImporterResult> = vec![];
    let mut ops_json: Vec<Value> = vec![];
    let mut shape: Vec<(String, String, String, String)> = vec![];
    let (mut had_fail, mut had_fault, mut ok_after_fail) = (false, false, false);
    let mut st_done = false;

    report.count("seq.histories");
    report.count(&format!("seq.backend.{bname}"));

    for opi in 0..n_ops {
        if !held.is_empty() && chance(rng, 40) {
            held.clear();
        }
        // ------------------------------------------------ target block
        let latest = h.model_latest;
        let target = match latest {
            None => weighted(rng, &[("genesis", 70), ("next", 12), ("zero_poa", 8), ("far", 10)]),
            Some(_) => weighted(
                rng,
                &[
                    ("next", 50),
                    ("dup", 10),
                    ("skip", 7),
                    ("stale", 6),
                    ("zero_poa", 3),
                    ("genesis", 5),
                    ("next_dup_tx", 9),
                    ("far", 3),
                    ("intra_dup_tx", 3),
                    ("next_future_tx", 4),
                ],
            ),
        };
        let base = latest.unwrap_or(genesis_height);
        let next_h = match latest {
            None => genesis_height.checked_add(1).unwrap_or(u32::MAX),
            Some(l) => l.checked_add(1).unwrap_or(u32::MAX),
        };
        let mut tname = target.to_string();
        let sealed: SealedBlock = match target {
            "genesis" => {
                let gh = if latest.is_none() {
                    genesis_height
                } else {
                    let r: u32 = rng.r#gen();
                    *pick(rng, &[0u32, next_h, base, r])
                };
                let txs = h.fresh_txs(rng);
                h.genesis(gh, &txs)
            }
            "dup" if !h.committed.is_empty() => {
                let idx = if chance(rng, 50) {
                    h.committed.len() - 1
                } else {
                    rng.gen_range(0..h.committed.len())
                };
                let old = h.committed[idx].clone();
                if chance(rng, 50) {
                    tname = "dup_exact".into();
                    old
                } else {
                    tname = "dup_new_block".into();
                    let txs = h.fresh_txs(rng);
                    h.poa(height_of(&old), &txs)
                }
            }
            "skip" => {
                let hh = base.saturating_add(rng.gen_range(2..=4));
                let txs = h.fresh_txs(rng);
                h.poa(hh, &txs)
            }
            "stale" => {
                let hh = base.saturating_sub(rng.gen_range(1..=3));
                let txs = h.fresh_txs(rng);
                h.poa(hh, &txs)
            }
            "zero_poa" => {
                let txs = h.fresh_txs(rng);
                h.poa(0, &txs)
            }
            "far" => {
                let txs = h.fresh_txs(rng);
                h.poa(rng.r#gen::<u32>(), &txs)
            }
            "next_dup_tx" if !h.committed_tx.is_empty() => {
                let mut txs = h.fresh_txs(rng);
                let old = *pick(rng, &h.committed_tx);
                let pos = rng.gen_range(0..=txs.len());
                txs.insert(pos, old);
                h.poa(next_h, &txs)
            }
            "next_future_tx" if !h.future_tx.is_empty() => {
                tname = "future_tx_then_used".into();
                let mut txs = h.fresh_txs(rng);
                txs.push(*pick(rng, &h.future_tx));
                h.poa(next_h, &txs)
            }
            "intra_dup_tx" => {
                h.next_tx += 1;
                let t = h.next_tx;
                h.poa(next_h, &[t, t])
            }
            _ => {
                tname = "next".into();
                let txs = h.fresh_txs(rng);
                h.poa(next_h, &txs)
            }
        };
        let bh = height_of(&sealed);
        let is_genesis = matches!(sealed.consensus, Consensus::Genesis(_));
        let tx_ids: Vec<_> = sealed.entity.transactions().iter().map(|t| t.id(&cid)).collect();

        // ------------------------------------------------ call + fault
        let mut call = match weighted(rng, &[("e", 50), ("l", 30), ("n", 20)]) {
            "e" => Call::Execute,
            "l" => Call::CommitLocal,
            _ => Call::CommitNetwork,
        };
        if latest.is_none() && is_genesis && chance(rng, 85) {
            call = if chance(rng, 50) { Call::CommitLocal } else { Call::CommitNetwork };
        }
        let late = opi * 3 >= n_ops * 2;
        let mut table: Vec<(&str, u32)> = vec![
            ("none", 52),
            ("verifier_err", 5),
            ("exec_err", 5),
            ("root_insert", 5),
            ("root_remove", 3),
            ("other_height_block", 3),
            ("same_height_block", 2),
            ("future_tx", 4),
            ("recon_fail", 6),
            ("commit_fail_1", 5),
            ("commit_fail_2", 3),
        ];
        if collide_profile {
            table.extend_from_slice(&[
                ("collide_consensus", 2),
                ("collide_tx", 2),
                ("collide_merkle_data", 2),
                ("meta_same_root", 1),
                ("metadata_collide", 1),
            ]);
        }
        if late {
            table.push(("future_consensus", 3));
        }
        let mut fault = weighted(rng, &table).to_string();
        match fault.as_str() {
            "verifier_err" | "exec_err" => call = Call::Execute,
            "recon_fail" => call = Call::CommitLocal,
            _ => {}
        }

        // the block-table writes the importer would make (only used to derive colliding keys)
        let bc: Option<Changes> = {
            let mut t = env.db.storage_transaction(Changes::default());
            match t.store_new_block(&cid, &sealed) {
                Ok(_) => Some(t.into_changes()),
                Err(_) => None,
            }
        };
        let pre_root = env
            .db
            .storage::<FuelBlockMerkleMetadata>()
            .get(&DenseMetadataKey::Latest)
            .ok()
            .flatten()
            .map(|m| (*m.root(), m.version()));

        let mut changes = base_changes(rng);
        let mut fault_ok = true;
        match fault.as_str() {
            "root_insert" => {
                let mut root = [0u8; 32];
                rng.fill(&mut root);
                merge(&mut changes, root_entry(root, rng.gen_range(0..5)));
            }
            "root_remove" => match (pre_root, first_key(&root_entry([0; 32], 0), Column::FuelBlockMerkleMetadata)) {
                (Some(_), Some((k, _))) => merge(&mut changes, raw_change(Column::FuelBlockMerkleMetadata, k, None)),
                _ => fault_ok = false,
            },
            "meta_same_root" => match pre_root {
                Some((root, ver)) => merge(&mut changes, root_entry(root, ver.wrapping_add(7))),
                None => fault_ok = false,
            },
            "other_height_block" => {
                let oh = *pick(rng, &[bh.wrapping_add(1), bh.wrapping_sub(1), bh.wrapping_add(2)]);
                merge(&mut changes, block_entry_only(oh, h.nonce()));
            }
            "same_height_block" => match bc.as_ref().and_then(|c| first_key(c, Column::FuelBlocks)) {
                Some((k, v)) => merge(&mut changes, raw_change(Column::FuelBlocks, k, v)),
                None => fault_ok = false,
            },
            "collide_consensus" => match bc.as_ref().and_then(|c| first_key(c, Column::FuelBlockConsensus)) {
                Some((k, _)) => merge(&mut changes, raw_change(Column::FuelBlockConsensus, k, Some(vec![0xAB; 5]))),
                None => fault_ok = false,
            },
            "collide_tx" => match bc.as_ref().and_then(|c| first_key(c, Column::Transactions)) {
                Some((k, _)) => merge(&mut changes, raw_change(Column::Transactions, k, Some(vec![0xCD; 9]))),
                None => fault_ok = false,
            },
            "collide_merkle_data" => match bc.as_ref().and_then(|c| first_key(c, Column::FuelBlockMerkleData)) {
                Some((k, _)) => merge(&mut changes, raw_change(Column::FuelBlockMerkleData, k, Some(vec![0xEF; 40]))),
                None => fault_ok = false,
            },
            "metadata_collide" => {
                let pre = env.dump();
                match pre.keys().find(|(c, _)| *c == Column::Metadata as u32) {
                    Some((_, k)) => merge(&mut changes, raw_change(Column::Metadata, k.clone(), Some(vec![1, 2, 3]))),
                    None => fault_ok = false,
                }
            }
            "future_tx" => {
                h.next_tx += 1;
                merge(&mut changes, tx_entry(h.next_tx));
            }
            "future_consensus" => match bh.checked_add(1) {
                Some(n) => merge(&mut changes, consensus_entry(n)),
                None => fault_ok = false,
            },
            _ => {}
        }
        if !fault_ok {
            fault = "none".into();
        }
        let plan = Plan {
            verify_err: fault == "verifier_err",
            exec: if fault == "exec_err" { None } else { Some(changes.clone()) },
            recon_err: fault == "recon_fail",
        };
        env.ports.set(sealed.entity.id(), plan.clone());
        let exec_changes: Changes = if fault == "exec_err" || fault == "verifier_err" {
            Changes::default()
        } else {
            changes.clone()
        };
        let arm = match fault.as_str() {
            "commit_fail_1" => 1,
            "commit_fail_2" => 2,
            _ => 0,
        };

        // ------------------------------------------------ pre-state
        let pre_dump = env.dump();
        let block_exists = env.db.storage::<FuelBlocks>().contains_key(&bh.into()).unwrap_or(true);
        let consensus_exists = env
            .db
            .storage::<SealedBlockConsensus>()
            .contains_key(&bh.into())
            .unwrap_or(true);
        let tx_exists = tx_ids
            .iter()
            .any(|id| env.db.storage::<Transactions>().contains_key(id).unwrap_or(true));
        let permits_exhausted = held.len() >= notify_buf;

        let opj = json!({"i": opi, "call": call.name(), "target": tname, "height": bh, "genesis": is_genesis,
            "txs": tx_ids.len(), "fault": fault, "held": held.len(), "model_latest": h.model_latest});
        ops_json.push(opj.clone());
        report.count("seq.ops");
        report.count(&format!("seq.call.{}", call.name()));
        report.count(&format!("seq.target.{tname}"));
        report.count(&format!("seq.fault.{fault}"));
        if fault != "none" {
            had_fault = true;
        }

        // ------------------------------------------------ the call
        env.ctl.fail_countdown.store(arm, Ordering::SeqCst);
        env.ctl.log.push("call", opj.clone());
        let res = match call {
            Call::CommitLocal => {
                env.importer
                    .commit_result(UncommittedResult::new(
                        ImportResult::new_from_local(sealed.clone(), vec![], vec![]),
                        changes.clone(),
                    ))
                    .await
            }
            Call::CommitNetwork => {
                env.importer
                    .commit_result(UncommittedResult::new(
                        ImportResult::new_from_network(sealed.clone(), vec![], vec![]),
                        changes.clone(),
                    ))
                    .await
            }
            Call::Execute => env.importer.execute_and_commit(sealed.clone()).await,
        };
        env.ctl.fail_countdown.store(0, Ordering::SeqCst);
        let class = match &res {
            Ok(()) => "ok".to_string(),
            Err(e) => err_class(e).to_string(),
        };
        env.ctl.log.push("ret", json!({"i": opi, "outcome": class}));
        let commits = env.ctl.take_commits();
        let early = env.ctl.take_early();
        let commit_fault_fired = commits.iter().any(|c| c.injected_failure);
        if commit_fault_fired {
            report.count("seq.fault.commit_fail.fired");
        } else if arm > 0 {
            report.count(&format!("seq.fault.commit_fail_{arm}.not_reached"));
        }
        report.add("seq.storage_batches", commits.len() as u64);

        let mut received: Vec<ImporterResult> = vec![];
        while let Ok(r) = rx.try_recv() {
            received.push(r);
        }
        env.ctl.drain_probe(None);
        if st == 2 && !st_done && !received.is_empty() {
            let d = received[0].clone();
            received.push(d);
            st_done = true;
        }
        if st == 1 && !st_done && res.is_err() {
            let _ = env
                .inner
                .commit_changes(None, raw_change(Column::Coins, vec![0xFF, 0xFF], Some(vec![1])).into());
            st_done = true;
        }
        let post_dump = env.dump();
        let db_latest = HistoricalView::latest_height(&env.db).map(|x| *x);
        let db_latest_port = ImporterDatabase::latest_block_height(&env.db).ok().flatten().map(|x| *x);

        // ------------------------------------------------ the oracle
        let mut viol: Vec<(String, String)> = vec![];
        report.eval();
        if class == "inner_dead" {
            report.inconclusive(format!("importer inner task died in history {hs} op {opi}"));
            break;
        }
        if !early.is_empty() {
            viol.push((
                "announced_before_storage_commit".into(),
                format!("a subscriber already held the announcement of height {early:?} when the storage commit for it started"),
            ));
        }
        let model_for_oracle = if st == 3 && !st_done && res.is_ok() && !is_genesis {
            st_done = true;
            h.model_latest.map(|x| x.wrapping_add(1))
        } else {
            h.model_latest
        };
        match &res {
            Ok(()) => {
                report.count("seq.ok_imports");
                report.count(if call == Call::Execute {
                    "seq.ok.execute_and_commit"
                } else {
                    "seq.ok.commit_result"
                });
                if is_genesis {
                    report.count("seq.ok.genesis");
                    if h.model_latest.is_some() {
                        viol.push((
                            "ok_genesis_on_nonempty".into(),
                            format!("genesis block at {bh} committed although latest committed height is {:?}", h.model_latest),
                        ));
                    }
                } else if bh == 0 || model_for_oracle != Some(bh.wrapping_sub(1)) {
                    viol.push((
                        "ok_height_not_next".into(),
                        format!("block at height {bh} committed although latest committed height is {:?}", h.model_latest),
                    ));
                }
                if block_exists {
                    viol.push(("ok_not_unique:block".into(), format!("a block at height {bh} already existed")));
                }
                if consensus_exists {
                    viol.push(("ok_not_unique:consensus".into(), format!("a consensus record at height {bh} already existed")));
                }
                if tx_exists {
                    viol.push(("ok_not_unique:transaction".into(), format!("a transaction of block {bh} already existed")));
                }
                if touches_accumulator(&exec_changes) {
                    viol.push((
                        "ok_exec_touched_block_merkle".into(),
                        format!("execution changes of block {bh} wrote the block Merkle accumulator (fault {fault}) and it was committed"),
                    ));
                }
                if call == Call::Execute && plan.verify_err {
                    viol.push(("ok_despite_verification_failure".into(), format!("block {bh}")));
                }
                if call == Call::Execute && plan.exec.is_none() {
                    viol.push(("ok_despite_execution_failure".into(), format!("block {bh}")));
                }
                if call == Call::CommitLocal && plan.recon_err {
                    viol.push(("ok_despite_reconciliation_failure".into(), format!("block {bh}")));
                }
                if commit_fault_fired {
                    viol.push(("ok_despite_storage_failure".into(), format!("block {bh}")));
                }
                // readable
                let blk = env.db.storage::<FuelBlocks>().get(&bh.into()).ok().flatten().map(|c| c.into_owned());
                if blk.as_ref() != Some(&sealed.entity.compress(&cid)) {
                    viol.push((
                        format!("ok_but_block_not_readable backend={bname}"),
                        format!("FuelBlocks[{bh}] is not the committed block after Ok"),
                    ));
                }
                let cons = env
                    .db
                    .storage::<SealedBlockConsensus>()
                    .get(&bh.into())
                    .ok()
                    .flatten()
                    .map(|c| c.into_owned());
                if cons.as_ref() != Some(&sealed.consensus) {
                    viol.push((
                        format!("ok_but_consensus_not_readable backend={bname}"),
                        format!("SealedBlockConsensus[{bh}] is not the committed seal after Ok (fault {fault})"),
                    ));
                }
                for (id, tx) in tx_ids.iter().zip(sealed.entity.transactions()) {
                    let got = env.db.storage::<Transactions>().get(id).ok().flatten().map(|c| c.into_owned());
                    if got.as_ref() != Some(tx) {
                        viol.push((
                            format!("ok_but_transaction_not_readable backend={bname}"),
                            format!("Transactions[{id}] of block {bh} is not readable after Ok (fault {fault})"),
                        ));
                        break;
                    }
                }
                if db_latest != Some(bh) || db_latest_port != Some(bh) {
                    viol.push((
                        format!("ok_but_latest_height_wrong backend={bname}"),
                        format!("after committing {bh}: database height {db_latest:?}, importer port height {db_latest_port:?}"),
                    ));
                }
                if let Some(m) = changes_applied(&exec_changes, &post_dump) {
                    viol.push((
                        format!("ok_but_exec_changes_missing backend={bname}"),
                        format!("block {bh} committed but its execution changes were not all applied: {m} (fault {fault})"),
                    ));
                }
                let extra_blocks = exec_changes.get(&(Column::FuelBlocks as u32)).map(|t| t.len()).unwrap_or(0);
                if col_count(&post_dump, Column::FuelBlocks) != col_count(&pre_dump, Column::FuelBlocks) + 1 + extra_blocks {
                    viol.push((
                        format!("ok_but_block_count backend={bname}"),
                        format!(
                            "FuelBlocks entries {} -> {} after one import",
                            col_count(&pre_dump, Column::FuelBlocks),
                            col_count(&post_dump, Column::FuelBlocks)
                        ),
                    ));
                }
                // announcement
                report.count("seq.announcements_checked");
                if received.len() != 1 {
                    viol.push((
                        "announce_count_on_success".into(),
                        format!("{} announcements for the successful import of {bh}", received.len()),
                    ));
                } else if received[0].sealed_block.entity.id() != sealed.entity.id() {
                    viol.push((
                        "announce_wrong_block".into(),
                        format!(
                            "announcement carries height {} id {}, committed {bh} id {}",
                            height_of(&received[0].sealed_block),
                            received[0].sealed_block.entity.id(),
                            sealed.entity.id()
                        ),
                    ));
                }
                // bookkeeping
                h.model_latest = Some(bh);
                h.committed.push(sealed.clone());
                if let Some(ids) = h.ids.get(&sealed.entity.id()) {
                    h.committed_tx.extend(ids.iter().copied());
                }
                if fault == "future_tx" {
                    h.future_tx.push(h.next_tx);
                }
                if had_fail {
                    ok_after_fail = true;
                }
                if permits_exhausted {
                    report.count("seq.ok_while_results_held");
                }
            }
            Err(e) => {
                had_fail = true;
                report.count(&format!("seq.err.{class}"));
                report.count("seq.failed_imports_db_compared");
                if matches!(fault.as_str(), "other_height_block" | "same_height_block") && class == "storage" {
                    report.count("seq.fault.multi_height_batch");
                }
                if post_dump != pre_dump {
                    let d = dump_diff(&pre_dump, &post_dump);
                    viol.push((
                        format!("failed_import_changed_db err={class} backend={bname}"),
                        format!(
                            "import of block {bh} ({}, target {tname}, fault {fault}) failed with `{e}` but the database differs: {}",
                            call.name(),
                            d.iter().take(8).cloned().collect::<Vec<_>>().join("; ")
                        ),
                    ));
                }
                if db_latest != h.model_latest {
                    viol.push((
                        format!("failed_import_changed_latest_height backend={bname}"),
                        format!("database height {db_latest:?}, latest successful import {:?}", h.model_latest),
                    ));
                }
                if !received.is_empty() {
                    viol.push((
                        "announced_failed_import".into(),
                        format!("{} announcements after the failed import of {bh} ({class})", received.len()),
                    ));
                }
            }
        }
        shape.push((call.name().into(), tname.clone(), fault.clone(), class.clone()));

        for r in received {
            if chance(rng, hold_p) {
                held.push(r);
            }
        }

        if !viol.is_empty() {
            let tail: Vec<Value> = env.ctl.log.snapshot().into_iter().rev().take(40).rev().collect();
            for (s, d) in viol {
                let s = if s.contains("backend=") { s } else { format!("{s} backend={bname}") };
                report.violation(
                    sig(args, &s),
                    format!("{d}\nop: {opj}\nbackend {bname}, notify buffer {notify_buf}"),
                    json!({"mode": "seq", "hist_seed": hs, "ops": ops_json, "events_tail": tail}),
                );
            }
            break;
        }
    }
    held.clear();
    if ok_after_fail && had_fault {
        report.distinct(&(bname, &shape));
    }
    if report.wants_sample() {
        report.sample(json!({"mode": "seq", "hist_seed": hs, "backend": bname, "notify_buffer": notify_buf,
            "ops": ops_json.iter().take(14).collect::<Vec<_>>()}));
    }
    if env.ports.missing_plan.load(Ordering::SeqCst) {
        report.inconclusive(format!("history {hs}: a port was asked about a block without a plan"));
    }
}
