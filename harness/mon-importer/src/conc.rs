//! Concurrent stress histories: 2–4 tasks race `commit_result` /
//! `execute_and_commit` calls over a pre-generated candidate chain on a multi-thread
//! runtime; the oracle runs offline over the recorded logs and the final database.

use crate::{
    sig,
    store::{
        col_count,
    },
    util::*,
};
use fuel_core_storage::{
    StorageAsRef,
    column::Column,
    tables::FuelBlocks,
    transactional::{
        Changes,
        HistoricalView,
    },
};
use fuel_core_types::{
    blockchain::SealedBlock,
    services::block_importer::{
        ImportResult,
        UncommittedResult,
    },
};
use rand::Rng;
use std::{
    collections::{
        BTreeMap,
        BTreeSet,
    },
    sync::{
        Arc,
        Mutex,
        atomic::Ordering,
    },
};
use tokio::sync::broadcast::error::RecvError;
use vcommon::{
    serde_json::{
        Value,
        json,
    },
    *,
};

#[derive(Clone)]
struct Cand {
    sealed: SealedBlock,
    changes: Changes,
    kind: &'static str,
    txs: Vec<u64>,
}

#[derive(Clone, Debug)]
struct CallRec {
    task: usize,
    height: u32,
    cand: usize,
    call: &'static str,
    t_call: u64,
    t_ret: u64,
    class: String,
}

#[derive(Clone, Debug)]
struct Recv {
    height: u32,
    id: String,
    readable: bool,
}

pub fn run_history(args: &Args, report: &Report, hs: u64) {
    let mut rng = rng_for(hs, &[2]);
    let backend = if rng.gen_range(0..100) < args.by_tier(92, 80) {
        Backend::Memory
    } else {
        Backend::RocksDb
    };
    let tasks = rng.gen_range(2..=4usize);
    let len = rng.gen_range(8..=14u32);
    let g = *pick(&mut rng, &[0u32, 3, 100]);
    let iters = (len as usize) * 2;
    let cid = chain_id();
    let t0 = std::time::Instant::now();
    let env = match Env::new(backend, &args.scratch, hs ^ 0xC0C0, 1024) {
        Ok(e) => e,
        Err(e) => {
            report.inconclusive(format!("environment: {e}"));
            return;
        }
    };
    let bname = backend.name();

    // ---------------------------------------------------------- candidates
    let mut next_tx = 0u64;
    let mut nonce = 0u64;
    let mut cands: Vec<Vec<Cand>> = vec![];
    let mut clean_txs: Vec<u64> = vec![];
    let marker = |b: &SealedBlock| raw_change(Column::Coins, b.entity.id().as_slice().to_vec(), Some(vec![1]));
    for i in 0..len {
        let hgt = g + 1 + i;
        let mut row = vec![];
        let n_c = if chance(&mut rng, 65) { 2 } else { 1 };
        for c in 0..n_c {
            nonce += 1;
            let mut txs: Vec<u64> = (0..rng.gen_range(0..=2))
                .map(|_| {
                    next_tx += 1;
                    next_tx
                })
                .collect();
            let kind = if c == 0 {
                "clean"
            } else {
                *pick(&mut rng, &["clean_alt", "clean_alt", "dup_tx", "exec_err", "verifier_err", "touch_root"])
            };
            if kind == "dup_tx" {
                if clean_txs.is_empty() {
                    next_tx += 1;
                    clean_txs.push(next_tx);
                }
                txs.push(*pick(&mut rng, &clean_txs));
            }
            let sealed = seal_poa(mk_block(hgt, &txs, nonce));
            let mut changes = marker(&sealed);
            if kind == "touch_root" {
                let mut root = [0u8; 32];
                rng.fill(&mut root);
                merge(&mut changes, root_entry(root, 3));
            }
            env.ports.set(
                sealed.entity.id(),
                Plan {
                    verify_err: kind == "verifier_err",
                    exec: if kind == "exec_err" { None } else { Some(changes.clone()) },
                    recon_err: false,
                },
            );
            if c == 0 {
                clean_txs.extend(txs.iter().copied());
            }
            row.push(Cand {
                sealed,
                changes,
                kind,
                txs,
            });
        }
        cands.push(row);
    }
    let cands = Arc::new(cands);

    // ---------------------------------------------------------- subscriber thread
    let recvs: Arc<Mutex<Vec<Recv>>> = Default::default();
    let lagged: Arc<Mutex<u64>> = Default::default();
    let sub = {
        let mut rx = env.importer.subscribe();
        let db = env.db.clone();
        let recvs = recvs.clone();
        let lagged = lagged.clone();
        let log = env.ctl.log.clone();
        std::thread::spawn(move || {
            loop {
                match rx.blocking_recv() {
                    Ok(r) => {
                        let hgt = height_of(&r.sealed_block);
                        let want = r.sealed_block.entity.compress(&cid);
                        let got = db.storage::<FuelBlocks>().get(&hgt.into()).ok().flatten().map(|c| c.into_owned());
                        let readable = got.as_ref() == Some(&want);
                        log.push("recv", json!({"h": hgt}));
                        recvs.lock().unwrap().push(Recv {
                            height: hgt,
                            id: r.sealed_block.entity.id().to_string(),
                            readable,
                        });
                    }
                    Err(RecvError::Lagged(n)) => *lagged.lock().unwrap() += n,
                    Err(RecvError::Closed) => break,
                }
            }
        })
    };
    *env.ctl.probe.lock().unwrap() = Some(env.importer.subscribe());

    // ---------------------------------------------------------- run
    let rt = tokio::runtime::Builder::new_multi_thread()
        .worker_threads(tasks)
        .enable_all()
        .build()
        .expect("runtime");
    let genesis = seal_genesis(mk_block(g, &[], 0));
    let genesis_changes = marker(&genesis);
    let log = env.ctl.log.clone();
    let calls: Vec<CallRec> = {
        let importer = env.importer.clone();
        let db = env.db.clone();
        let ctl = env.ctl.clone();
        let cands = cands.clone();
        let genesis = genesis.clone();
        let r = catch(|| {
            rt.block_on(async move {
                let mut all = vec![];
                let t_call = log.push("call", json!({"task": 0, "h": g, "genesis": true}));
                let res = importer
                    .commit_result(UncommittedResult::new(
                        ImportResult::new_from_local(genesis.clone(), vec![], vec![]),
                        genesis_changes,
                    ))
                    .await;
                let class = res.as_ref().map(|_| "ok".to_string()).unwrap_or_else(|e| err_class(e).to_string());
                let t_ret = log.push("ret", json!({"task": 0, "h": g, "outcome": class}));
                all.push(CallRec {
                    task: 0,
                    height: g,
                    cand: usize::MAX,
                    call: "commit_result_local",
                    t_call,
                    t_ret,
                    class,
                });
                let mut handles = vec![];
                for t in 0..tasks {
                    let importer = importer.clone();
                    let db = db.clone();
                    let ctl = ctl.clone();
                    let cands = cands.clone();
                    let log = log.clone();
                    let mut rng = rng_for(hs, &[3, t as u64]);
                    handles.push(tokio::spawn(async move {
                        let mut mine = vec![];
                        for _ in 0..iters {
                            for _ in 0..rng.gen_range(0..3) {
                                tokio::task::yield_now().await;
                            }
                            let latest = HistoricalView::latest_height(&db).map(|x| *x).unwrap_or(g);
                            let want = match rng.gen_range(0..10) {
                                0 => latest,
                                1 => latest + 2,
                                _ => latest + 1,
                            };
                            let idx = (want.saturating_sub(g + 1) as usize).min(cands.len() - 1);
                            let row = &cands[idx];
                            let ci = rng.gen_range(0..row.len());
                            let c = &row[ci];
                            let hgt = height_of(&c.sealed);
                            let call = *pick(
                                &mut rng,
                                &["execute_and_commit", "execute_and_commit", "commit_result_local", "commit_result_network"],
                            );
                            if chance(&mut rng, 4) {
                                ctl.fail_countdown.store(1, Ordering::SeqCst);
                            }
                            let t_call = log.push("call", json!({"task": t, "h": hgt, "cand": ci, "call": call}));
                            let res = match call {
                                "execute_and_commit" => importer.execute_and_commit(c.sealed.clone()).await,
                                "commit_result_local" => {
                                    importer
                                        .commit_result(UncommittedResult::new(
                                            ImportResult::new_from_local(c.sealed.clone(), vec![], vec![]),
                                            c.changes.clone(),
                                        ))
                                        .await
                                }
                                _ => {
                                    importer
                                        .commit_result(UncommittedResult::new(
                                            ImportResult::new_from_network(c.sealed.clone(), vec![], vec![]),
                                            c.changes.clone(),
                                        ))
                                        .await
                                }
                            };
                            let class = res.as_ref().map(|_| "ok".to_string()).unwrap_or_else(|e| err_class(e).to_string());
                            let t_ret = log.push("ret", json!({"task": t, "h": hgt, "outcome": class}));
                            mine.push(CallRec {
                                task: t,
                                height: hgt,
                                cand: ci,
                                call,
                                t_call,
                                t_ret,
                                class,
                            });
                        }
                        mine
                    }));
                }
                for hnd in handles {
                    if let Ok(v) = hnd.await {
                        all.extend(v);
                    }
                }
                all
            })
        });
        match r {
            Ok(v) => v,
            Err(p) => {
                report.inconclusive(format!("concurrent history {hs} panicked in harness: {p}"));
                vec![]
            }
        }
    };
    drop(rt);

    // quiescent: collect everything, then stop the importer so that the subscriber ends
    env.ctl.drain_probe(None);
    let commits = env.ctl.take_commits();
    let early = env.ctl.take_early();
    let events = env.ctl.log.snapshot();
    let final_dump = env.dump();
    let final_latest = HistoricalView::latest_height(&env.db).map(|x| *x);
    let final_blocks: BTreeMap<u32, String> = {
        let mut m = BTreeMap::new();
        for c in calls.iter().filter(|c| c.class == "ok") {
            if let Ok(Some(b)) = env.db.storage::<FuelBlocks>().get(&c.height.into()) {
                m.insert(c.height, b.id().to_string());
            }
        }
        m
    };
    env.close();
    let _ = sub.join();
    report.add(&format!("conc.wall_ms.{bname}"), t0.elapsed().as_millis() as u64);
    let recvs = recvs.lock().unwrap().clone();
    if calls.is_empty() {
        return;
    }

    // ---------------------------------------------------------- oracle
    report.count("conc.histories");
    report.count(&format!("conc.backend.{bname}"));
    report.count(&format!("conc.tasks.{tasks}"));
    report.eval();
    let st = crate::selftest(args);
    let mut recvs = recvs;
    if st == 4 && recvs.len() >= 2 {
        recvs.swap(0, 1);
    }
    let mut calls = calls;
    if st == 5 {
        if let Some(c) = calls.iter_mut().find(|c| c.class == "not_unique" || c.class == "height") {
            c.class = "ok".into();
        }
    }
    let mut viol: Vec<(String, String)> = vec![];
    if *lagged.lock().unwrap() > 0 {
        report.inconclusive(format!("concurrent history {hs}: subscriber lagged"));
    }
    let ok_commits: Vec<u32> = commits.iter().filter(|c| c.ok).filter_map(|c| c.height).collect();
    report.add("conc.storage_fail_injected", commits.iter().filter(|c| c.injected_failure).count() as u64);
    for (i, hgt) in ok_commits.iter().enumerate() {
        if *hgt != g + i as u32 {
            viol.push((
                "conc_storage_commits_not_consecutive".into(),
                format!("successful storage commits carried heights {ok_commits:?}, expected consecutive from {g}"),
            ));
            break;
        }
    }
    let mut winners: BTreeMap<u32, &CallRec> = BTreeMap::new();
    for c in calls.iter() {
        report.count("conc.calls");
        if c.class == "ok" {
            report.count("conc.ok_imports");
            if winners.insert(c.height, c).is_some() {
                viol.push((
                    "conc_height_committed_twice".into(),
                    format!("two calls returned Ok for height {}", c.height),
                ));
            }
        } else {
            report.count(&format!("conc.err.{}", c.class));
            if c.class == "inner_dead" {
                report.inconclusive(format!("concurrent history {hs}: importer inner task died"));
                return;
            }
        }
    }
    let ok_heights: Vec<u32> = winners.keys().copied().collect();
    if ok_heights != ok_commits {
        viol.push((
            "conc_ok_calls_vs_storage_commits".into(),
            format!("calls returned Ok for heights {ok_heights:?} but successful storage commits were {ok_commits:?}"),
        ));
    }
    let mut seen_tx: BTreeSet<u64> = BTreeSet::new();
    let mut n_txs = 0usize;
    for (hgt, c) in winners.iter() {
        if c.cand == usize::MAX {
            continue;
        }
        let cand = &cands[(*hgt - g - 1) as usize][c.cand];
        report.count(&format!("conc.winner.{}", cand.kind));
        let bad = match cand.kind {
            "verifier_err" | "exec_err" => c.call == "execute_and_commit",
            "touch_root" => true,
            _ => false,
        };
        if bad {
            viol.push((
                format!("conc_ok_despite_fault:{}", cand.kind),
                format!("height {hgt} candidate {} committed through {}", c.cand, c.call),
            ));
        }
        let mut own: BTreeSet<u64> = BTreeSet::new();
        for t in &cand.txs {
            own.insert(*t);
            if seen_tx.contains(t) {
                viol.push((
                    "conc_duplicate_transaction_committed".into(),
                    format!("transaction #{t} is in two committed blocks (second at {hgt})"),
                ));
            }
        }
        n_txs += own.len();
        seen_tx.extend(own);
        // final block is the winner
        let want = cand.sealed.entity.id().to_string();
        if final_blocks.get(hgt) != Some(&want) {
            viol.push((
                format!("conc_final_block_mismatch backend={bname}"),
                format!("FuelBlocks[{hgt}] is {:?}, the call that returned Ok committed {want}", final_blocks.get(hgt)),
            ));
        }
    }
    // nothing from failed imports remained
    let n_win = winners.len();
    let markers = col_count(&final_dump, Column::Coins);
    let blocks = col_count(&final_dump, Column::FuelBlocks);
    let seals = col_count(&final_dump, Column::FuelBlockConsensus);
    let txs = col_count(&final_dump, Column::Transactions);
    if markers != n_win || blocks != n_win || seals != n_win || txs != n_txs {
        viol.push((
            format!("conc_failed_import_left_data backend={bname}"),
            format!(
                "{n_win} imports succeeded ({n_txs} transactions) but the database holds {blocks} blocks, {seals} seals, {txs} transactions, {markers} execution markers"
            ),
        ));
    }
    for (hgt, c) in winners.iter() {
        let id = if c.cand == usize::MAX {
            genesis.entity.id()
        } else {
            cands[(*hgt - g - 1) as usize][c.cand].sealed.entity.id()
        };
        if !final_dump.contains_key(&(Column::Coins as u32, id.as_slice().to_vec())) {
            viol.push((
                format!("conc_exec_changes_missing backend={bname}"),
                format!("execution marker of the committed block at {hgt} is missing"),
            ));
        }
    }
    if n_win > 0 && final_latest != ok_heights.last().copied() {
        viol.push((
            format!("conc_final_latest_height backend={bname}"),
            format!("database height {final_latest:?}, last successful import {:?}", ok_heights.last()),
        ));
    }
    // announcements
    let rh: Vec<u32> = recvs.iter().map(|r| r.height).collect();
    report.add("conc.announcements_checked", recvs.len() as u64);
    if rh != ok_commits {
        viol.push((
            "conc_announce_sequence".into(),
            format!("subscriber saw heights {rh:?}; successful commits in order were {ok_commits:?}"),
        ));
    }
    for r in &recvs {
        if !r.readable {
            viol.push((
                "conc_announce_not_readable".into(),
                format!("at receipt of the announcement for {} ({}) FuelBlocks did not hold that block", r.height, r.id),
            ));
            break;
        }
    }
    if !early.is_empty() {
        viol.push((
            "announced_before_storage_commit".into(),
            format!("announcement for {early:?} was already delivered when its storage commit started"),
        ));
    }
    // concurrency evidence
    let mut overlap = 0u64;
    let mut overlap_ok = 0u64;
    for (i, a) in calls.iter().enumerate() {
        for b in calls.iter().skip(i + 1) {
            if a.task != b.task && a.t_call < b.t_ret && b.t_call < a.t_ret {
                overlap += 1;
                if a.class == "ok" && b.class == "ok" {
                    overlap_ok += 1;
                }
            }
        }
    }
    report.add("conc.overlapping_call_pairs", overlap);
    report.add("conc.overlapping_ok_pairs_by_log", overlap_ok);
    let interleaving: Vec<(String, u64, u64)> = events
        .iter()
        .map(|e| {
            (
                e["kind"].as_str().unwrap_or("").to_string(),
                e["task"].as_u64().unwrap_or(99),
                e["h"].as_u64().unwrap_or(0),
            )
        })
        .collect();
    if overlap > 0 {
        report.distinct(&interleaving);
    }
    if report.get("conc.sampled") < 2 {
        report.count("conc.sampled");
        report.sample(json!({"mode": "conc", "hist_seed": hs, "backend": bname, "tasks": tasks, "chain": len,
            "events_head": events.iter().take(30).collect::<Vec<_>>()}));
    }
    if !viol.is_empty() {
        let ev: Vec<Value> = events.into_iter().take(400).collect();
        for (s, d) in viol {
            let s = if s.contains("backend=") { s } else { format!("{s} backend={bname}") };
            report.violation(
                sig(args, &s),
                format!("{d}\nconcurrent history: {tasks} tasks, chain {g}+1..+{len}, backend {bname}"),
                json!({"mode": "conc", "hist_seed": hs, "events": ev}),
            );
        }
    }
}
