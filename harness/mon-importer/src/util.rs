//! Shared pieces: blocks, scripted ports, change builders, environment set-up.

use crate::store::{
    Ctl,
    Inner,
    RecStore,
};
use fuel_core::{
    database::{
        Database,
        database_description::on_chain::OnChain,
    },
    state::{
        historical_rocksdb::{
            HistoricalRocksDB,
            StateRewindPolicy,
        },
        in_memory::memory_store::MemoryStore,
        rocks_db::{
            ColumnsPolicy,
            DatabaseConfig,
        },
    },
};
use fuel_core_importer::{
    Config,
    Importer,
    error::Error as ImpError,
    ports::{
        BlockReconciliationWritePort,
        BlockVerifier,
        Validator,
    },
};
use fuel_core_storage::{
    StorageAsMut,
    column::Column,
    kv_store::WriteOperation,
    structured_storage::test::InMemoryStorage,
    transactional::{
        Changes,
        ConflictPolicy,
        StorageTransaction,
    },
};
use fuel_core_types::{
    blockchain::{
        SealedBlock,
        block::Block,
        consensus::{
            Consensus,
            poa::PoAConsensus,
        },
        header::PartialBlockHeader,
        primitives::BlockId,
    },
    fuel_tx::{
        Bytes32,
        Transaction,
        policies::Policies,
    },
    fuel_types::ChainId,
    services::executor::{
        Error as ExecutorError,
        Result as ExecutorResult,
        UncommittedValidationResult,
        ValidationResult,
    },
    tai64::Tai64,
};
use std::{
    collections::HashMap,
    path::PathBuf,
    sync::{
        Arc,
        Mutex,
        atomic::{
            AtomicBool,
            AtomicU64,
            Ordering,
        },
    },
};
use vcommon::EventLog;

pub fn chain_id() -> ChainId {
    ChainId::new(7)
}

pub fn mk_tx(id: u64) -> Transaction {
    Transaction::script(
        0,
        vec![],
        id.to_be_bytes().to_vec(),
        Policies::new(),
        vec![],
        vec![],
        vec![],
    )
    .into()
}

pub fn mk_block(height: u32, tx_ids: &[u64], nonce: u64) -> Block {
    let mut header = PartialBlockHeader::default();
    header.consensus.height = height.into();
    header.consensus.time = Tai64(nonce);
    header.application.da_height = (nonce % 1000).into();
    let txs: Vec<Transaction> = tx_ids.iter().map(|i| mk_tx(*i)).collect();
    Block::new(header, txs, &[], Bytes32::zeroed()).expect("block")
}

pub fn seal_poa(block: Block) -> SealedBlock {
    SealedBlock {
        entity: block,
        consensus: Consensus::PoA(PoAConsensus::new(Default::default())),
    }
}

pub fn seal_genesis(block: Block) -> SealedBlock {
    SealedBlock {
        entity: block,
        consensus: Consensus::Genesis(Default::default()),
    }
}

pub fn height_of(b: &SealedBlock) -> u32 {
    **b.entity.header().height()
}

// ---------------------------------------------------------------- changes

pub fn raw_change(col: Column, key: Vec<u8>, val: Option<Vec<u8>>) -> Changes {
    let mut c = Changes::default();
    let op = match val {
        Some(v) => WriteOperation::Insert(v.into()),
        None => WriteOperation::Remove,
    };
    c.entry(col as u32).or_default().insert(key.into(), op);
    c
}

pub fn merge(a: &mut Changes, b: Changes) {
    for (col, tree) in b {
        let t = a.entry(col).or_default();
        for (k, v) in tree {
            t.insert(k, v);
        }
    }
}

pub fn only_column(c: Changes, col: Column) -> Changes {
    c.into_iter().filter(|(k, _)| *k == col as u32).collect()
}

/// changes produced by structured-table writes on an empty scratch storage
pub fn table_changes(f: impl FnOnce(&mut StorageTransaction<InMemoryStorage<Column>>)) -> Changes {
    let mut tx = StorageTransaction::transaction(
        InMemoryStorage::<Column>::default(),
        ConflictPolicy::Overwrite,
        Changes::default(),
    );
    f(&mut tx);
    tx.into_changes()
}

pub fn consensus_entry(height: u32) -> Changes {
    use fuel_core_storage::tables::SealedBlockConsensus;
    table_changes(|tx| {
        tx.storage_as_mut::<SealedBlockConsensus>()
            .insert(&height.into(), &Consensus::PoA(PoAConsensus::new(Default::default())))
            .expect("scratch insert");
    })
}

pub fn tx_entry(id: u64) -> Changes {
    use fuel_core_storage::tables::Transactions;
    use fuel_core_types::fuel_tx::UniqueIdentifier;
    let t = mk_tx(id);
    table_changes(|tx| {
        tx.storage_as_mut::<Transactions>()
            .insert(&t.id(&chain_id()), &t)
            .expect("scratch insert");
    })
}

pub fn block_entry_only(height: u32, nonce: u64) -> Changes {
    use fuel_core_storage::tables::FuelBlocks;
    let b = mk_block(height, &[], nonce).compress(&chain_id());
    let c = table_changes(|tx| {
        tx.storage_as_mut::<FuelBlocks>()
            .insert(&height.into(), &b)
            .expect("scratch insert");
    });
    only_column(c, Column::FuelBlocks)
}

pub fn root_entry(root: [u8; 32], version: u64) -> Changes {
    use fuel_core_storage::tables::merkle::{
        DenseMerkleMetadata,
        DenseMetadataKey,
        FuelBlockMerkleMetadata,
    };
    table_changes(|tx| {
        tx.storage_as_mut::<FuelBlockMerkleMetadata>()
            .insert(&DenseMetadataKey::Latest, &DenseMerkleMetadata::new(root, version))
            .expect("scratch insert");
    })
}

pub fn touches_accumulator(c: &Changes) -> bool {
    [Column::FuelBlockMerkleData as u32, Column::FuelBlockMerkleMetadata as u32]
        .iter()
        .any(|col| c.get(col).map(|t| !t.is_empty()).unwrap_or(false))
}

// ---------------------------------------------------------------- ports

#[derive(Clone)]
pub struct Plan {
    pub verify_err: bool,
    /// None => executor error
    pub exec: Option<Changes>,
    pub recon_err: bool,
}

#[derive(Default)]
pub struct Ports {
    pub plans: Mutex<HashMap<BlockId, Plan>>,
    pub log: EventLog,
    pub verify_calls: AtomicU64,
    pub validate_calls: AtomicU64,
    pub recon_calls: AtomicU64,
    pub missing_plan: AtomicBool,
}

impl Ports {
    pub fn set(&self, id: BlockId, p: Plan) {
        self.plans.lock().unwrap_or_else(|e| e.into_inner()).insert(id, p);
    }

    fn plan(&self, id: &BlockId) -> Option<Plan> {
        let p = self.plans.lock().unwrap_or_else(|e| e.into_inner()).get(id).cloned();
        if p.is_none() {
            self.missing_plan.store(true, Ordering::SeqCst);
        }
        p
    }
}

pub struct HVerifier(pub Arc<Ports>);
pub struct HValidator(pub Arc<Ports>);
pub struct HRecon(pub Arc<Ports>);

impl BlockVerifier for HVerifier {
    fn verify_block_fields(&self, _consensus: &Consensus, block: &Block) -> anyhow::Result<()> {
        self.0.verify_calls.fetch_add(1, Ordering::SeqCst);
        match self.0.plan(&block.id()) {
            Some(p) if !p.verify_err => Ok(()),
            Some(_) => Err(anyhow::anyhow!("injected verification failure")),
            None => Err(anyhow::anyhow!("harness: no plan for block")),
        }
    }
}

impl Validator for HValidator {
    fn validate(&self, block: &Block) -> ExecutorResult<UncommittedValidationResult<Changes>> {
        self.0.validate_calls.fetch_add(1, Ordering::SeqCst);
        match self.0.plan(&block.id()).and_then(|p| p.exec) {
            Some(changes) => Ok(UncommittedValidationResult::new(
                ValidationResult {
                    tx_status: vec![],
                    events: vec![],
                },
                changes,
            )),
            None => Err(ExecutorError::Other("injected execution failure".to_string())),
        }
    }
}

impl BlockReconciliationWritePort for HRecon {
    fn publish_produced_block(&self, block: &SealedBlock) -> anyhow::Result<()> {
        self.0.recon_calls.fetch_add(1, Ordering::SeqCst);
        match self.0.plan(&block.entity.id()) {
            Some(p) if p.recon_err => Err(anyhow::anyhow!("injected reconciliation write failure")),
            _ => Ok(()),
        }
    }
}

// ---------------------------------------------------------------- errors

pub fn err_class(e: &ImpError) -> &'static str {
    match e {
        ImpError::Semaphore(_) => "busy",
        ImpError::InvalidUnderlyingDatabaseGenesisState => "genesis_on_nonempty",
        ImpError::InvalidDatabaseStateAfterExecution(_, _) => "root_changed",
        ImpError::Overflow => "overflow",
        ImpError::ZeroNonGenericHeight => "zero_height",
        ImpError::IncorrectBlockHeight(_, _) => "height",
        ImpError::BlockIdMismatch(_, _) => "block_id_mismatch",
        ImpError::FailedVerification(_) => "verification",
        ImpError::FailedExecution(_) => "execution",
        ImpError::ExecuteGenesis => "execute_genesis",
        ImpError::NotUnique(_) => "not_unique",
        ImpError::PreviousBlockProcessingNotFinished => "backpressure_timeout",
        ImpError::FailedBlockReconciliationWrite(_) => "reconciliation",
        ImpError::SendCommandToInnerTaskFailed => "inner_dead",
        ImpError::InnerTaskIsNotRunning => "inner_dead",
        ImpError::Storage(_) => "storage",
        ImpError::UnsupportedConsensusVariant(_) => "unsupported_consensus",
        ImpError::ActiveBlockResultsSemaphoreClosed(_) => "results_semaphore_closed",
        ImpError::RayonTaskWasCanceled => "rayon_cancelled",
    }
}

// ---------------------------------------------------------------- environment

#[derive(Clone, Copy, PartialEq, Eq, Debug, Hash)]
pub enum Backend {
    Memory,
    RocksDb,
    RocksDbRewind,
}

impl Backend {
    pub fn name(&self) -> &'static str {
        match self {
            Backend::Memory => "memory",
            Backend::RocksDb => "rocksdb",
            Backend::RocksDbRewind => "rocksdb-rewind",
        }
    }
}

pub struct Env {
    pub backend: Backend,
    pub inner: Inner,
    pub ctl: Arc<Ctl>,
    pub ports: Arc<Ports>,
    pub db: Database<OnChain>,
    pub importer: Arc<Importer>,
    pub dir: Option<PathBuf>,
}

impl Env {
    pub fn new(backend: Backend, scratch: &std::path::Path, uniq: u64, notify_buf: usize) -> Result<Env, String> {
        let mut dir = None;
        let inner: Inner = match backend {
            Backend::Memory => Arc::new(MemoryStore::<OnChain>::default()),
            Backend::RocksDb | Backend::RocksDbRewind => {
                let p = scratch.join(format!("c08-{uniq:016x}"));
                let _ = std::fs::remove_dir_all(&p);
                std::fs::create_dir_all(&p).map_err(|e| format!("mkdir {p:?}: {e}"))?;
                let policy = if backend == Backend::RocksDb {
                    StateRewindPolicy::NoRewind
                } else {
                    StateRewindPolicy::RewindFullRange
                };
                let db = HistoricalRocksDB::<OnChain>::default_open(
                    &p,
                    policy,
                    DatabaseConfig {
                        cache_capacity: None,
                        max_fds: 128,
                        columns_policy: ColumnsPolicy::Lazy,
                    },
                )
                .map_err(|e| format!("open rocksdb: {e:?}"))?;
                dir = Some(p);
                Arc::new(db)
            }
        };
        let ctl = Arc::new(Ctl::default());
        let ports = Arc::new(Ports::default());
        let rec = RecStore {
            inner: inner.clone(),
            ctl: ctl.clone(),
        };
        let db = Database::<OnChain>::new(Arc::new(rec));
        let importer = Importer::new(
            chain_id(),
            Config {
                max_block_notify_buffer: notify_buf,
                metrics: false,
            },
            db.clone(),
            HValidator(ports.clone()),
            HVerifier(ports.clone()),
            HRecon(ports.clone()),
        );
        Ok(Env {
            backend,
            inner,
            ctl,
            ports,
            db,
            importer: Arc::new(importer),
            dir,
        })
    }

    /// raw dump: every column on the in-memory store, the written columns on RocksDB
    pub fn dump(&self) -> crate::store::Dump {
        crate::store::dump_cols(&self.inner, self.backend == Backend::Memory)
    }

    /// stop the importer, release the store, delete the temp dir
    pub fn close(self) {
        let Env {
            inner,
            ctl,
            db,
            importer,
            dir,
            ..
        } = self;
        *ctl.probe.lock().unwrap_or_else(|e| e.into_inner()) = None;
        drop(importer);
        drop(db);
        inner.shutdown();
        drop(inner);
        if let Some(d) = dir {
            let _ = std::fs::remove_dir_all(d);
        }
    }
}
