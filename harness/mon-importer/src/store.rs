//! Recording / fault-injecting wrapper around the real backing store of
//! `Database<OnChain>`, plus raw dumps.

use fuel_core::{
    database::database_description::on_chain::OnChain,
    state::{
        IterableKeyValueView,
        KeyValueView,
        TransactableStorage,
        data_source::DataSourceType,
    },
};
use fuel_core_importer::ImporterResult;
use fuel_core_storage::{
    Error as StorageError,
    Result as StorageResult,
    StorageReadError,
    column::Column,
    iter::{
        BoxedIter,
        IterDirection,
        IterableStore,
    },
    kv_store::{
        KVItem,
        KeyItem,
        KeyValueInspect,
        Value,
        WriteOperation,
    },
    transactional::{
        Changes,
        StorageChanges,
    },
};
use fuel_core_types::fuel_types::BlockHeight;
use std::{
    collections::BTreeMap,
    sync::{
        Arc,
        Mutex,
        atomic::{
            AtomicI64,
            Ordering,
        },
    },
};
use tokio::sync::broadcast;
use vcommon::{
    EventLog,
    serde_json::json,
};

pub type Inner = DataSourceType<OnChain>;

#[derive(Clone, Debug)]
pub struct CommitRec {
    pub height: Option<u32>,
    pub lists: usize,
    pub keys: usize,
    pub injected_failure: bool,
    pub ok: bool,
}

#[derive(Default)]
pub struct Ctl {
    /// >0: the n-th `commit_changes` from now fails without touching the backend
    pub fail_countdown: AtomicI64,
    pub commits: Mutex<Vec<CommitRec>>,
    /// a subscriber end polled at the *entry* of every storage commit: an
    /// announcement for the height that is only now being written is "too early"
    pub probe: Mutex<Option<broadcast::Receiver<ImporterResult>>>,
    pub announced_early: Mutex<Vec<u32>>,
    pub log: EventLog,
}

impl Ctl {
    pub fn drain_probe(&self, committing: Option<u32>) {
        let mut g = self.probe.lock().unwrap_or_else(|e| e.into_inner());
        if let Some(rx) = g.as_mut() {
            loop {
                match rx.try_recv() {
                    Ok(r) => {
                        let h: u32 = **r.sealed_block.entity.header().height();
                        if Some(h) == committing {
                            self.announced_early
                                .lock()
                                .unwrap_or_else(|e| e.into_inner())
                                .push(h);
                        }
                    }
                    Err(broadcast::error::TryRecvError::Lagged(_)) => continue,
                    Err(_) => break,
                }
            }
        }
    }

    pub fn take_commits(&self) -> Vec<CommitRec> {
        std::mem::take(&mut *self.commits.lock().unwrap_or_else(|e| e.into_inner()))
    }

    pub fn take_early(&self) -> Vec<u32> {
        std::mem::take(&mut *self.announced_early.lock().unwrap_or_else(|e| e.into_inner()))
    }
}

pub struct RecStore {
    pub inner: Inner,
    pub ctl: Arc<Ctl>,
}

impl std::fmt::Debug for RecStore {
    fn fmt(&self, f: &mut std::fmt::Formatter<'_>) -> std::fmt::Result {
        f.write_str("RecStore")
    }
}

impl KeyValueInspect for RecStore {
    type Column = Column;

    fn exists(&self, key: &[u8], column: Self::Column) -> StorageResult<bool> {
        self.inner.exists(key, column)
    }

    fn size_of_value(&self, key: &[u8], column: Self::Column) -> StorageResult<Option<usize>> {
        self.inner.size_of_value(key, column)
    }

    fn get(&self, key: &[u8], column: Self::Column) -> StorageResult<Option<Value>> {
        self.inner.get(key, column)
    }

    fn read_exact(
        &self,
        key: &[u8],
        column: Self::Column,
        offset: usize,
        buf: &mut [u8],
    ) -> StorageResult<Result<usize, StorageReadError>> {
        self.inner.read_exact(key, column, offset, buf)
    }

    fn read_zerofill(
        &self,
        key: &[u8],
        column: Self::Column,
        offset: usize,
        buf: &mut [u8],
    ) -> StorageResult<Result<usize, StorageReadError>> {
        self.inner.read_zerofill(key, column, offset, buf)
    }
}

impl IterableStore for RecStore {
    fn iter_store(
        &self,
        column: Self::Column,
        prefix: Option<&[u8]>,
        start: Option<&[u8]>,
        direction: IterDirection,
    ) -> BoxedIter<'_, KVItem> {
        self.inner.iter_store(column, prefix, start, direction)
    }

    fn iter_store_keys(
        &self,
        column: Self::Column,
        prefix: Option<&[u8]>,
        start: Option<&[u8]>,
        direction: IterDirection,
    ) -> BoxedIter<'_, KeyItem> {
        self.inner.iter_store_keys(column, prefix, start, direction)
    }
}

fn count(changes: &StorageChanges) -> (usize, usize) {
    match changes {
        StorageChanges::Changes(c) => (1, c.values().map(|t| t.len()).sum()),
        StorageChanges::ChangesList(l) => (
            l.len(),
            l.iter().map(|c| c.values().map(|t| t.len()).sum::<usize>()).sum(),
        ),
    }
}

impl TransactableStorage<BlockHeight> for RecStore {
    fn commit_changes(&self, height: Option<BlockHeight>, changes: StorageChanges) -> StorageResult<()> {
        let h = height.map(|h| *h);
        self.ctl.drain_probe(h);
        let (lists, keys) = count(&changes);
        self.ctl.log.push("store_commit_enter", json!({"h": h, "keys": keys}));
        let c = self.ctl.fail_countdown.load(Ordering::SeqCst);
        if c > 0 {
            self.ctl.fail_countdown.fetch_sub(1, Ordering::SeqCst);
            if c == 1 {
                self.ctl.commits.lock().unwrap_or_else(|e| e.into_inner()).push(CommitRec {
                    height: h,
                    lists,
                    keys,
                    injected_failure: true,
                    ok: false,
                });
                self.ctl.log.push("store_commit_exit", json!({"h": h, "ok": false, "injected": true}));
                return Err(StorageError::Other(anyhow::anyhow!("injected storage commit failure")));
            }
        }
        let r = self.inner.commit_changes(height, changes);
        self.ctl.commits.lock().unwrap_or_else(|e| e.into_inner()).push(CommitRec {
            height: h,
            lists,
            keys,
            injected_failure: false,
            ok: r.is_ok(),
        });
        self.ctl.log.push("store_commit_exit", json!({"h": h, "ok": r.is_ok()}));
        r
    }

    fn view_at_height(&self, height: &BlockHeight) -> StorageResult<KeyValueView<Self::Column, BlockHeight>> {
        self.inner.view_at_height(height)
    }

    fn latest_view(&self) -> StorageResult<IterableKeyValueView<Self::Column, BlockHeight>> {
        self.inner.latest_view()
    }

    fn rollback_block_to(&self, height: &BlockHeight) -> StorageResult<()> {
        self.inner.rollback_block_to(height)
    }

    fn shutdown(&self) {
        self.inner.shutdown()
    }
}

pub type Dump = BTreeMap<(u32, Vec<u8>), Vec<u8>>;

/// Raw dump of the backing store. `all == false` restricts it to the columns that the
/// importer or this harness ever write (used on RocksDB, where touching a column family
/// creates it with an fsync).
#[allow(deprecated)]
pub fn dump_cols(store: &Inner, all: bool) -> Dump {
    const USED: [Column; 9] = [
        Column::Metadata,
        Column::ContractsState,
        Column::Coins,
        Column::Transactions,
        Column::FuelBlocks,
        Column::FuelBlockMerkleData,
        Column::FuelBlockMerkleMetadata,
        Column::Messages,
        Column::FuelBlockConsensus,
    ];
    let mut d = BTreeMap::new();
    for c in 0u32..64 {
        if let Ok(col) = Column::try_from(c) {
            if !all && !USED.contains(&col) {
                continue;
            }
            for kv in store.iter_store(col, None, None, IterDirection::Forward) {
                let (k, v) = kv.expect("raw iteration of the backing store failed");
                d.insert((c, k), v.to_vec());
            }
        }
    }
    d
}

pub fn dump_diff(a: &Dump, b: &Dump) -> Vec<String> {
    let mut out = vec![];
    for (k, v) in a {
        match b.get(k) {
            None => out.push(format!("removed col={} key={}", k.0, vcommon::hex(&k.1))),
            Some(w) if w != v => out.push(format!("changed col={} key={}", k.0, vcommon::hex(&k.1))),
            _ => {}
        }
    }
    for k in b.keys() {
        if !a.contains_key(k) {
            out.push(format!("added col={} key={}", k.0, vcommon::hex(&k.1)));
        }
    }
    out
}

pub fn col_count(d: &Dump, col: Column) -> usize {
    let c = col as u32;
    d.range((c, vec![])..(c + 1, vec![])).count()
}

/// every write of `changes` is reflected in `d`
pub fn changes_applied(changes: &Changes, d: &Dump) -> Option<String> {
    for (col, tree) in changes {
        for (k, op) in tree {
            let key: Vec<u8> = k.as_ref().to_vec();
            let got = d.get(&(*col, key.clone()));
            match op {
                WriteOperation::Insert(v) => {
                    if got.map(|g| g.as_slice()) != Some(v.as_ref()) {
                        return Some(format!("insert col={col} key={} not reflected", vcommon::hex(&key)));
                    }
                }
                WriteOperation::Remove => {
                    if got.is_some() {
                        return Some(format!("remove col={col} key={} not reflected", vcommon::hex(&key)));
                    }
                }
            }
        }
    }
    None
}
