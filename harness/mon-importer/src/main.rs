//! C08 — the importer only commits the next unique block, atomically, in order,
//! and announces each success exactly once, in height order, after the data is
//! readable.
//!
//! Real `fuel_core_importer::Importer` over a real `fuel_core::database::Database<OnChain>`
//! (in-memory store, RocksDB without and with history), whose data source is wrapped
//! in a recording `TransactableStorage` (`store::RecStore`). `Validator`,
//! `BlockVerifier` and `BlockReconciliationWritePort` are harness ports that follow a
//! generated plan. See `seq.rs` (deterministic histories, per-call oracle) and
//! `conc.rs` (2–4 tasks on a multi-thread runtime, offline oracle over the logs).

mod conc;
mod seq;
mod store;
mod util;

use vcommon::*;

pub fn sig(args: &Args, s: &str) -> String {
    if args.extra.contains_key("selftest") {
        format!("selftest:{s}")
    } else {
        s.to_string()
    }
}

pub fn selftest(args: &Args) -> u32 {
    args.extra
        .get("selftest")
        .and_then(|s| s.parse().ok())
        .unwrap_or(0)
}

fn run_c08(args: &Args, report: &Report) {
    if let Some(rep) = read_replay(args) {
        let seed = rep.get("hist_seed").and_then(|v| v.as_u64()).unwrap_or(0);
        match rep.get("mode").and_then(|v| v.as_str()).unwrap_or("seq") {
            "conc" => {
                for _ in 0..20 {
                    conc::run_history(args, report, seed);
                }
            }
            _ => seq::run_history(args, report, seed),
        }
        return;
    }

    let only = args.extra.get("only").cloned().unwrap_or_default();
    // sequential, deterministic histories
    let seq_shards = args.by_tier(32usize, 64);
    let seq_per_shard = args.by_tier(40usize, 200);
    if only != "conc" {
        let a = args.clone();
        let r = report.clone();
        run_shards(report, args, seq_shards, move |_i, s| {
            for it in 0..seq_per_shard {
                let hs = mix(s, &[tag("seq"), it as u64]);
                seq::run_history(&a, &r, hs);
            }
        });
    }
    // concurrent stress histories
    let conc_shards = args.by_tier(16usize, 32);
    let conc_per_shard = args.by_tier(12usize, 60);
    if only != "seq" {
        let a = args.clone();
        let r = report.clone();
        let mut a2 = args.clone();
        // several multi-thread runtimes at once; keep the machine busy but not thrashing
        a2.threads = (args.threads / 2).max(2);
        run_shards(report, &a2, conc_shards, move |_i, s| {
            for it in 0..conc_per_shard {
                let hs = mix(s, &[tag("conc"), it as u64]);
                conc::run_history(&a, &r, hs);
            }
        });
    }

    if selftest(args) == 0 && only.is_empty() {
        let q = !args.is_thorough();
        report.require("seq.histories", if q { 1000 } else { 10_000 });
        report.require("seq.ops", if q { 25_000 } else { 400_000 });
        report.require("seq.ok_imports", if q { 5_000 } else { 80_000 });
        report.require("seq.failed_imports_db_compared", if q { 12_000 } else { 200_000 });
        report.require("seq.announcements_checked", if q { 5_000 } else { 80_000 });
        report.require("seq.ok.commit_result", 300);
        report.require("seq.ok.execute_and_commit", 300);
        report.require("seq.ok.genesis", 200);
        for k in [
            "height",
            "not_unique",
            "root_changed",
            "genesis_on_nonempty",
            "zero_height",
            "verification",
            "execution",
            "reconciliation",
            "storage",
            "backpressure_timeout",
            "execute_genesis",
        ] {
            report.require(&format!("seq.err.{k}"), 20);
        }
        for k in [
            "next_dup_tx",
            "dup_exact",
            "dup_new_block",
            "skip",
            "stale",
            "future_tx_then_used",
        ] {
            report.require(&format!("seq.target.{k}"), 20);
        }
        report.require("seq.fault.commit_fail.fired", 50);
        report.require("seq.fault.multi_height_batch", 10);
        report.require("seq.backend.memory", 100);
        report.require("seq.backend.rocksdb", 10);
        report.require("conc.histories", if q { 150 } else { 1500 });
        report.require("conc.ok_imports", if q { 1500 } else { 12_000 });
        report.require("conc.err.busy", 50);
        report.require("conc.announcements_checked", if q { 1500 } else { 12_000 });
        report.require("conc.overlapping_call_pairs", 100);
    }
}

fn main() {
    let args = Args::parse();
    install_quiet_panic_hook();
    let report = Report::new(&args.property);
    let mut rule = String::new();
    let mut assumptions: Vec<&str> = vec![];
    match args.property.as_str() {
        "C08" => {
            run_c08(&args, &report);
            rule = "sequential: a history is a seeded list of up to 36 importer calls (commit_result local/network, \
                    execute_and_commit) with targets {next, duplicate, skipped, stale, zero, genesis, next-with-known-tx, \
                    repeat} and port/storage faults; a history is non-trivial if it contains >=1 successful import after \
                    >=1 failed import and >=1 injected fault; distinct = hash of (backend, list of (call, target, fault, \
                    outcome class)). concurrent: 2-4 tasks racing commit calls over a pre-generated candidate chain; \
                    distinct = hash of the interleaving of call/commit/return events."
                .to_string();
            assumptions = vec![
                "storage reads through Database<OnChain> and raw column iteration of the backing store are trusted for dumps",
                "the injected storage failure fails before touching the backend (models an atomic backend that rejects a batch)",
                "only interleavings actually produced by the OS scheduler are judged in the concurrent mode",
                "an import that returns Err counts as failed; Ok counts as successful (the return value is the boundary)",
            ];
        }
        other => report.inconclusive(format!("property {other} not implemented in this monitor")),
    }
    report.finish(&args, "exploration", &rule, false, &assumptions);
}
