//! C37 — coins-to-spend answers are sound.
//!
//! Driver: generated owner coin sets in a real in-memory on-chain + off-chain
//! database (see `dbutil`), queried through
//!   * `indexed`      : `coins_query::select_coins_to_spend` over the real
//!                      `OffChainDatabase::coins_to_spend_index` iterators,
//!   * `readview`     : `ReadView::coins_to_spend` (the resolver's entry point; takes
//!                      the indexed path, adds the `max_inputs` clamp and the coin lookup),
//!   * `random_improve`, `largest_first` : the non-indexed algorithms over a real `ReadView`.
//!
//! Oracle (brute force over the harness' own model of what was inserted):
//!   every `Ok` answer: only unspent resources of the requested owner and asset
//!   (never: other owner, other asset, retryable message, message for a non-base
//!   asset, spent resource), no excluded id, no duplicate, at most `max`, and total
//!   >= target unless `allow_partial`;
//!   an InsufficientCoins / MaxCoinsReached error is a violation iff an admissible
//!   selection exists: (no partial) the `max` largest non-excluded resources sum to
//!   >= target; (partial) max >= 1 and some non-excluded resource has amount > 0;
//!   (target 0) always (the empty selection).

use crate::dbutil::TestDb;
use fuel_core::{
    coins_query::{
        CoinsQueryError,
        SpendQuery,
        largest_first,
        random_improve,
        select_coins_to_spend,
    },
    fuel_core_graphql_api::{
        ports::OffChainDatabase,
        storage::coins::CoinsToSpendIndexKey,
    },
    query::asset_query::{
        AssetQuery,
        AssetSpendTarget,
        Exclude,
    },
    schema::{
        coins::SpendQueryElementInput,
        scalars,
    },
};
use fuel_core_storage::transactional::AtomicView;
use fuel_core_types::{
    entities::coins::{
        CoinId,
        CoinType,
    },
    fuel_tx::{
        Address,
        AssetId,
        ConsensusParameters,
        UtxoId,
    },
    fuel_types::Nonce,
};
use serde_json::json;
use std::{
    borrow::Cow,
    collections::{
        HashMap,
        HashSet,
    },
};
use vcommon::{
    rand::{
        Rng,
        rngs::StdRng,
        seq::SliceRandom,
    },
    *,
};

const OWNER: [u8; 32] = [0x77; 32];
const ASSET_A: [u8; 32] = [0xA1; 32];
const ASSET_B: [u8; 32] = [0xA2; 32];
const BASE: [u8; 32] = [0xBA; 32];

#[derive(Clone, Copy, Debug, PartialEq, Eq, Hash)]
enum Role {
    Eligible,
    OtherAsset,
    OtherOwner,
    Retryable,
    MessageForNonBaseAsset,
    Spent,
}

#[derive(Clone, Debug)]
struct Res {
    id: CoinId,
    amount: u64,
    role: Role,
}

#[derive(Clone, Debug)]
struct CoinSet {
    dist: &'static str,
    base_query: bool,
    resources: Vec<Res>,
}

fn id_json(id: &CoinId) -> serde_json::Value {
    match id {
        CoinId::Utxo(u) => json!(format!("utxo:{}:{}", u.tx_id().as_ref()[0], u.output_index())),
        CoinId::Message(n) => json!(format!("msg:{}", u64::from_be_bytes(n.as_ref()[24..32].try_into().unwrap()))),
    }
}

struct IdGen {
    next: u64,
}

impl IdGen {
    fn utxo(&mut self, rng: &mut StdRng) -> UtxoId {
        self.next += 1;
        // two tx ids, so ids are adjacent in key space
        let t = if rng.gen_bool(0.5) { 1u8 } else { 2u8 };
        UtxoId::new([t; 32].into(), self.next as u16)
    }

    fn nonce(&mut self) -> Nonce {
        self.next += 1;
        let mut b = [0u8; 32];
        b[24..32].copy_from_slice(&self.next.to_be_bytes());
        Nonce::from(b)
    }
}

const DISTS: &[&str] = &[
    "empty", "single", "dust", "equal", "whale", "u64max", "mixed", "zeros", "ladder", "large", "dust_and_big",
];

fn gen_amounts(rng: &mut StdRng, dist: &str) -> Vec<u64> {
    match dist {
        "empty" => vec![],
        "single" => vec![*pick(rng, &[0u64, 1, 2, 1000, u64::MAX])],
        "dust" => (0..rng.gen_range(3..=40)).map(|_| rng.gen_range(1..=3)).collect(),
        "equal" => {
            let k = *pick(rng, &[1u64, 5, 1000, u64::MAX / 4, u64::MAX]);
            vec![k; rng.gen_range(2..=20)]
        }
        "whale" => {
            let mut v: Vec<u64> = (0..rng.gen_range(2..=30)).map(|_| rng.gen_range(1..=5)).collect();
            let s: u64 = v.iter().sum();
            v.push(*pick(rng, &[s, s + 1, s * 10, 1_000_000_000_000, u64::MAX]));
            v
        }
        "u64max" => {
            let mut v = vec![u64::MAX; rng.gen_range(1..=4)];
            for _ in 0..rng.gen_range(0..=4) {
                v.push(*pick(rng, &[1u64, 2, u64::MAX - 1, u64::MAX / 2]));
            }
            v
        }
        "mixed" => (0..rng.gen_range(1..=12))
            .map(|_| {
                let mag = 10u64.pow(rng.gen_range(0..=18));
                rng.gen_range(1..=9) * mag
            })
            .collect(),
        "zeros" => (0..rng.gen_range(1..=10)).map(|_| *pick(rng, &[0u64, 0, 1, 2, 7])).collect(),
        "ladder" => (1..=rng.gen_range(2..=12u64)).collect(),
        "large" => (0..rng.gen_range(250..=300)).map(|_| rng.gen_range(1..=9)).collect(),
        _ => {
            // dust cluster + a few medium + two big coins
            let mut v: Vec<u64> = (0..rng.gen_range(5..=25)).map(|_| rng.gen_range(1..=2)).collect();
            for _ in 0..rng.gen_range(1..=3) {
                v.push(rng.gen_range(50..=60));
            }
            v.push(500);
            v.push(500);
            v
        }
    }
}

fn build_set(rng: &mut StdRng, ids: &mut IdGen, db: &mut TestDb) -> CoinSet {
    let dist = *pick(rng, DISTS);
    let base_query = rng.gen_bool(0.5);
    let owner = Address::from(OWNER);
    let q_asset = if base_query { AssetId::from(BASE) } else { AssetId::from(ASSET_A) };
    let other_asset = if base_query { AssetId::from(ASSET_A) } else { AssetId::from(BASE) };
    let mut others = Vec::new();
    for last in [0x76u8, 0x78u8] {
        let mut o = OWNER;
        o[31] = last;
        others.push(Address::from(o));
    }
    let mut first_differs = OWNER;
    first_differs[0] = 0x78;
    others.push(Address::from(first_differs));

    let mut resources = Vec::new();
    let mut amounts = gen_amounts(rng, dist);
    amounts.shuffle(rng);
    let tempting = |rng: &mut StdRng| *pick(rng, &[u64::MAX, u64::MAX - 1, 1_000_000_000_000_000u64, 501]);

    for a in amounts {
        if base_query && rng.gen_range(0..100) < 40 {
            let n = ids.nonce();
            db.insert_message(n, owner, a, vec![]);
            resources.push(Res {
                id: CoinId::Message(n),
                amount: a,
                role: Role::Eligible,
            });
        } else {
            let u = ids.utxo(rng);
            db.insert_coin(u, owner, q_asset, a);
            resources.push(Res {
                id: CoinId::Utxo(u),
                amount: a,
                role: Role::Eligible,
            });
        }
    }
    // distractors: tempting amounts that a wrong filter would pick first
    for asset in [other_asset, AssetId::from(ASSET_B)] {
        if rng.gen_bool(0.8) {
            let u = ids.utxo(rng);
            let a = tempting(rng);
            db.insert_coin(u, owner, asset, a);
            resources.push(Res {
                id: CoinId::Utxo(u),
                amount: a,
                role: Role::OtherAsset,
            });
        }
    }
    for _ in 0..rng.gen_range(0..=2) {
        let n = ids.nonce();
        let a = tempting(rng);
        db.insert_message(n, owner, a, vec![1, 2, 3]);
        resources.push(Res {
            id: CoinId::Message(n),
            amount: a,
            role: Role::Retryable,
        });
    }
    if !base_query {
        for _ in 0..rng.gen_range(1..=2) {
            let n = ids.nonce();
            let a = tempting(rng);
            db.insert_message(n, owner, a, vec![]);
            resources.push(Res {
                id: CoinId::Message(n),
                amount: a,
                role: Role::MessageForNonBaseAsset,
            });
        }
    }
    for o in &others {
        if rng.gen_bool(0.7) {
            let u = ids.utxo(rng);
            let a = tempting(rng);
            db.insert_coin(u, *o, q_asset, a);
            resources.push(Res {
                id: CoinId::Utxo(u),
                amount: a,
                role: Role::OtherOwner,
            });
        }
        if base_query && rng.gen_bool(0.5) {
            let n = ids.nonce();
            let a = tempting(rng);
            db.insert_message(n, *o, a, vec![]);
            resources.push(Res {
                id: CoinId::Message(n),
                amount: a,
                role: Role::OtherOwner,
            });
        }
    }
    // spent resources: inserted, then removed again
    for _ in 0..rng.gen_range(0..=2) {
        let u = ids.utxo(rng);
        let a = tempting(rng);
        db.insert_coin(u, owner, q_asset, a);
        db.remove_coin(u);
        resources.push(Res {
            id: CoinId::Utxo(u),
            amount: a,
            role: Role::Spent,
        });
    }
    if base_query && rng.gen_bool(0.5) {
        let n = ids.nonce();
        let a = tempting(rng);
        db.insert_message(n, owner, a, vec![]);
        db.remove_message(n);
        resources.push(Res {
            id: CoinId::Message(n),
            amount: a,
            role: Role::Spent,
        });
    }
    CoinSet {
        dist,
        base_query,
        resources,
    }
}

#[derive(Clone, Debug)]
struct Query {
    target: u128,
    target_class: &'static str,
    max: u16,
    max_class: &'static str,
    partial: bool,
    excl_mode: &'static str,
    excluded: HashSet<CoinId>,
}

/// amounts of the non-excluded eligible resources, descending
fn candidates(eligible: &[(CoinId, u64)], excluded: &HashSet<CoinId>) -> Vec<u64> {
    let mut v: Vec<u64> = eligible.iter().filter(|(id, _)| !excluded.contains(id)).map(|(_, a)| *a).collect();
    v.sort_unstable_by(|a, b| b.cmp(a));
    v
}

fn top_sum(cands_desc: &[u64], k: usize) -> u128 {
    cands_desc.iter().take(k).map(|a| *a as u128).sum()
}

fn gen_query(rng: &mut StdRng, set: &CoinSet, eligible: &[(CoinId, u64)]) -> Query {
    let mut desc: Vec<(CoinId, u64)> = eligible.to_vec();
    desc.sort_by(|a, b| b.1.cmp(&a.1));
    let sigma_all: u128 = desc.iter().map(|(_, a)| *a as u128).sum();

    let mut excluded = HashSet::new();
    let excl_mode = *pick(rng, &["none", "none", "largest", "boundary", "random", "all", "two_largest", "smallest"]);
    match excl_mode {
        "largest" => {
            if let Some(x) = desc.first() {
                excluded.insert(x.0);
            }
        }
        "two_largest" => {
            for x in desc.iter().take(2) {
                excluded.insert(x.0);
            }
        }
        "smallest" => {
            if let Some(x) = desc.last() {
                excluded.insert(x.0);
            }
        }
        "boundary" => {
            // the coin at which the descending cumulative sum crosses a provisional target
            let t0 = if sigma_all == 0 { 0 } else { rng.gen_range(1..=sigma_all) };
            let mut acc = 0u128;
            for x in &desc {
                acc += x.1 as u128;
                if acc >= t0 {
                    excluded.insert(x.0);
                    break;
                }
            }
        }
        "random" => {
            for x in &desc {
                if rng.gen_bool(0.3) {
                    excluded.insert(x.0);
                }
            }
        }
        "all" => {
            for x in &desc {
                excluded.insert(x.0);
            }
        }
        _ => {}
    }
    // ids that are irrelevant for this owner/asset
    if rng.gen_bool(0.5) {
        for r in &set.resources {
            if r.role != Role::Eligible && rng.gen_bool(0.3) {
                excluded.insert(r.id);
            }
        }
        excluded.insert(CoinId::Utxo(UtxoId::new([0xFF; 32].into(), 7)));
    }

    let cands = candidates(eligible, &excluded);
    let n = cands.len();
    let (max, max_class): (u16, &'static str) = match rng.gen_range(0..10) {
        0 => (0, "0"),
        1 => (1, "1"),
        2 => (2, "2"),
        3 | 4 => (255, "255"),
        5 => (n.saturating_sub(1) as u16, "n-1"),
        6 => (n as u16, "n"),
        7 => ((n + 1) as u16, "n+1"),
        8 => (u16::MAX, "u16max"),
        _ => (rng.gen_range(3..=10), "3..10"),
    };
    let sigma = top_sum(&cands, n);
    let topk = top_sum(&cands, max as usize);
    let (target, target_class): (u128, &'static str) = match rng.gen_range(0..16) {
        0 => (0, "0"),
        1 => (1, "1"),
        2 => (sigma.saturating_sub(1), "sigma-1"),
        3 | 4 => (sigma, "sigma"),
        5 | 6 => (sigma + 1, "sigma+1"),
        7 => (topk.saturating_sub(1), "topmax-1"),
        8 => (topk, "topmax"),
        9 => (topk + 1, "topmax+1"),
        10 => (sigma / 2, "sigma/2"),
        11 => (sigma / 3, "sigma/3"),
        12 => (u64::MAX as u128, "u64max"),
        13 => (u128::MAX, "u128max"),
        _ => (if sigma == 0 { 1 } else { rng.gen_range(1..=sigma) }, "random<=sigma"),
    };
    Query {
        target,
        target_class,
        max,
        max_class,
        partial: rng.gen_range(0..100) < 30,
        excl_mode,
        excluded,
    }
}

#[derive(Clone, Debug)]
enum Outcome {
    Ids(Vec<(CoinId, u64)>),
    /// only amounts are observable (`ReadView::coins_to_spend` returns schema objects)
    Amounts(Vec<u64>),
    Insufficient,
    MaxReached,
    OtherError(String),
}

impl Outcome {
    fn class(&self) -> &'static str {
        match self {
            Outcome::Ids(v) if v.is_empty() => "ok_empty",
            Outcome::Amounts(v) if v.is_empty() => "ok_empty",
            Outcome::Ids(_) | Outcome::Amounts(_) => "ok",
            Outcome::Insufficient => "insufficient",
            Outcome::MaxReached => "max_reached",
            Outcome::OtherError(_) => "other_error",
        }
    }

    fn to_json(&self) -> serde_json::Value {
        match self {
            Outcome::Ids(v) => json!({"ok": v.iter().map(|(id, a)| json!([id_json(id), a.to_string()])).collect::<Vec<_>>()}),
            Outcome::Amounts(v) => json!({"ok_amounts": v.iter().map(|a| a.to_string()).collect::<Vec<_>>()}),
            Outcome::Insufficient => json!("InsufficientCoins"),
            Outcome::MaxReached => json!("MaxCoinsReached"),
            Outcome::OtherError(e) => json!({"error": e}),
        }
    }
}

fn err_outcome(e: CoinsQueryError) -> Outcome {
    match e {
        CoinsQueryError::InsufficientCoins { .. } => Outcome::Insufficient,
        CoinsQueryError::MaxCoinsReached { .. } => Outcome::MaxReached,
        other => Outcome::OtherError(format!("{other:?}")),
    }
}

struct Judged<'a> {
    set: &'a CoinSet,
    by_id: &'a HashMap<CoinId, (u64, Role)>,
    cands_desc: &'a [u64],
    q: &'a Query,
    /// the maximum the answer may contain (for `readview`: min(max, max_inputs))
    effective_max: u16,
}

/// the oracle: returns (signature-without-algo, detail) for each violated clause
fn judge(j: &Judged, outcome: &Outcome) -> Vec<(String, String)> {
    let q = j.q;
    let mut out = Vec::new();
    let admissible = if q.target == 0 {
        true
    } else if !q.partial {
        j.effective_max > 0 && top_sum(j.cands_desc, j.effective_max as usize) >= q.target
    } else {
        j.effective_max >= 1 && j.cands_desc.iter().any(|a| *a > 0)
    };
    let under_target = |total: u128, len: usize, out: &mut Vec<(String, String)>| {
        if !q.partial && total < q.target {
            let sig = if j.effective_max == 0 && len == 0 {
                "empty_ok_answer_for_max0_positive_target".to_string()
            } else {
                "total_below_target_without_allow_partial".to_string()
            };
            out.push((sig, format!("answer total {total} < target {} and allow_partial=false", q.target)));
        }
    };
    match outcome {
        Outcome::Ids(sel) => {
            let mut seen = HashSet::new();
            let mut total = 0u128;
            for (id, amount) in sel {
                total += *amount as u128;
                match j.by_id.get(id) {
                    None => out.push(("unknown_resource_returned".into(), format!("{} is not in the database model", id_json(id)))),
                    Some((a, role)) => {
                        if *role != Role::Eligible {
                            out.push((
                                format!("ineligible_resource_returned role={role:?}"),
                                format!("{} ({role:?}, amount {a}) is not an unspent resource of the requested owner and asset", id_json(id)),
                            ));
                        } else if a != amount {
                            out.push(("amount_differs_from_database".into(), format!("{} returned with amount {amount}, database has {a}", id_json(id))));
                        }
                    }
                }
                if q.excluded.contains(id) {
                    out.push(("excluded_resource_returned".into(), format!("{} is in the exclusion list", id_json(id))));
                }
                if !seen.insert(*id) {
                    out.push(("duplicate_resource_returned".into(), format!("{} appears twice", id_json(id))));
                }
            }
            if sel.len() > j.effective_max as usize {
                out.push(("more_than_max_resources".into(), format!("{} resources returned, max {}", sel.len(), j.effective_max)));
            }
            under_target(total, sel.len(), &mut out);
        }
        Outcome::Amounts(amounts) => {
            // multiset inclusion in the non-excluded eligible amounts catches foreign,
            // excluded and duplicate resources whenever amounts discriminate
            let mut avail: HashMap<u64, usize> = HashMap::new();
            for a in j.cands_desc {
                *avail.entry(*a).or_default() += 1;
            }
            let mut total = 0u128;
            for a in amounts {
                total += *a as u128;
                match avail.get_mut(a) {
                    Some(c) if *c > 0 => *c -= 1,
                    _ => out.push((
                        "amount_not_available_among_candidates".into(),
                        format!("amount {a} returned more often than non-excluded eligible resources of that amount exist"),
                    )),
                }
            }
            if amounts.len() > j.effective_max as usize {
                out.push(("more_than_max_resources".into(), format!("{} resources returned, max {}", amounts.len(), j.effective_max)));
            }
            under_target(total, amounts.len(), &mut out);
        }
        Outcome::Insufficient | Outcome::MaxReached => {
            if admissible {
                out.push((
                    format!(
                        "error_despite_admissible_selection kind={} partial={}",
                        outcome.class(),
                        q.partial
                    ),
                    format!(
                        "{} returned, but the {} largest non-excluded resources sum to {} (target {}, allow_partial={})",
                        outcome.class(),
                        j.effective_max,
                        top_sum(j.cands_desc, j.effective_max as usize),
                        q.target,
                        q.partial
                    ),
                ));
            }
        }
        Outcome::OtherError(_) => {}
    }
    let _ = j.set;
    out
}

/// harness-side perturbation of what was observed (oracle self-test)
fn perturb(outcome: Outcome, mode: u32, set: &CoinSet) -> Outcome {
    match (mode, outcome) {
        (1, Outcome::Ids(mut v)) if !v.is_empty() => {
            let first = v[0];
            v.push(first);
            Outcome::Ids(v)
        }
        (2, Outcome::Ids(mut v)) if !v.is_empty() => {
            if let Some(r) = set.resources.iter().find(|r| r.role != Role::Eligible) {
                v[0] = (r.id, r.amount);
            }
            Outcome::Ids(v)
        }
        (3, Outcome::Ids(_)) | (3, Outcome::Amounts(_)) => Outcome::Insufficient,
        (4, Outcome::Ids(mut v)) if !v.is_empty() => {
            let i = (0..v.len()).max_by_key(|i| v[*i].1).unwrap();
            v.remove(i);
            Outcome::Ids(v)
        }
        (4, Outcome::Amounts(mut v)) if !v.is_empty() => {
            let i = (0..v.len()).max_by_key(|i| v[*i]).unwrap();
            v.remove(i);
            Outcome::Amounts(v)
        }
        (_, o) => o,
    }
}

struct Ctx {
    report: Report,
    selftest: u32,
    reps: usize,
    queries_per_set: usize,
}

fn run_set(ctx: &Ctx, rt: &tokio::runtime::Runtime, shard_seed: u64, shard: usize, set_idx: u64) {
    let report = &ctx.report;
    let mut rng = rng_for(shard_seed, &[set_idx]);
    let mut ids = IdGen { next: 0 };
    let mut db = TestDb::new(AssetId::from(BASE));
    let set = build_set(&mut rng, &mut ids, &mut db);
    report.count(&format!("c37.dist.{}", set.dist));
    report.count(if set.base_query { "c37.query_asset.base" } else { "c37.query_asset.non_base" });

    let owner = Address::from(OWNER);
    let base = AssetId::from(BASE);
    let q_asset = if set.base_query { base } else { AssetId::from(ASSET_A) };
    let by_id: HashMap<CoinId, (u64, Role)> = set.resources.iter().map(|r| (r.id, (r.amount, r.role))).collect();
    let eligible: Vec<(CoinId, u64)> = set
        .resources
        .iter()
        .filter(|r| r.role == Role::Eligible)
        .map(|r| (r.id, r.amount))
        .collect();
    if eligible.iter().any(|(id, _)| matches!(id, CoinId::Message(_))) {
        report.count("c37.sets.with_eligible_messages");
    }

    let batch = *pick(&mut rng, &[1usize, 2, 3, 100]);
    let read_db = db.read_database(batch);
    let view = read_db.view().expect("view");
    let off_chain = db.db.off_chain().latest_view().expect("off-chain view");
    let mut params = ConsensusParameters::default();
    params.set_base_asset_id(base);

    for qi in 0..ctx.queries_per_set {
        let q = gen_query(&mut rng, &set, &eligible);
        let cands = candidates(&eligible, &q.excluded);
        let exclude = Exclude::new(q.excluded.iter().copied().collect());
        let asset_target = AssetSpendTarget::new(q_asset, q.target, q.max, q.partial);
        let max_inputs: u16 = *pick(&mut rng, &[255u16, 255, 8, 1]);
        report.count(&format!("c37.excl.{}", q.excl_mode));
        report.count(&format!("c37.max.{}", q.max_class));
        report.count(&format!("c37.target.{}", q.target_class));
        report.count(if q.partial { "c37.partial.true" } else { "c37.partial.false" });

        for algo in ["indexed", "readview", "random_improve", "largest_first"] {
            let reps = match algo {
                "largest_first" => 1,
                "readview" => 2.min(ctx.reps),
                _ => ctx.reps,
            };
            for rep in 0..reps {
                let observed: Result<Outcome, String> = catch(|| match algo {
                    "indexed" => {
                        let iters = off_chain.coins_to_spend_index(&owner, &q_asset);
                        match rt.block_on(select_coins_to_spend(iters, asset_target.clone(), &exclude, batch, owner)) {
                            Ok(keys) => Outcome::Ids(
                                keys.iter()
                                    .map(|k| match k {
                                        CoinsToSpendIndexKey::Coin { utxo_id, amount, .. } => (CoinId::Utxo(*utxo_id), *amount),
                                        CoinsToSpendIndexKey::Message { nonce, amount, .. } => (CoinId::Message(*nonce), *amount),
                                    })
                                    .collect(),
                            ),
                            Err(e) => err_outcome(e),
                        }
                    }
                    "readview" => {
                        let input = SpendQueryElementInput {
                            asset_id: scalars::AssetId::from(q_asset),
                            amount: scalars::U128(q.target),
                            max: Some(scalars::U16(q.max)),
                            allow_partial: Some(q.partial),
                        };
                        match rt.block_on(view.coins_to_spend(owner, &[input], &exclude, &params, max_inputs)) {
                            Ok(per_asset) => {
                                if per_asset.len() != 1 {
                                    Outcome::OtherError(format!("{} result lists for 1 asset query", per_asset.len()))
                                } else {
                                    Outcome::Amounts(per_asset[0].iter().map(|c| c.amount()).collect())
                                }
                            }
                            Err(e) => err_outcome(e),
                        }
                    }
                    "random_improve" => {
                        let sq = SpendQuery::new(owner, std::slice::from_ref(&asset_target), Cow::Borrowed(&exclude), base)
                            .map_err(err_outcome);
                        match sq {
                            Err(o) => o,
                            Ok(sq) => match rt.block_on(random_improve(&view, &sq)) {
                                Ok(per_asset) => {
                                    if per_asset.len() != 1 {
                                        Outcome::OtherError(format!("{} result lists for 1 asset query", per_asset.len()))
                                    } else {
                                        Outcome::Ids(per_asset[0].iter().map(|c: &CoinType| (c.coin_id(), c.amount())).collect())
                                    }
                                }
                                Err(e) => err_outcome(e),
                            },
                        }
                    }
                    _ => {
                        let aq = AssetQuery::new(&owner, &asset_target, &base, Some(&exclude), &view);
                        match rt.block_on(largest_first(aq)) {
                            Ok(coins) => Outcome::Ids(coins.iter().map(|c| (c.coin_id(), c.amount())).collect()),
                            Err(e) => err_outcome(e),
                        }
                    }
                });
                let replay = json!({"seed": shard_seed, "shard": shard, "set": set_idx, "query": qi, "algo": algo, "rep": rep});
                let describe = |outcome: &Outcome| {
                    json!({
                        "dist": set.dist,
                        "query_asset_is_base": set.base_query,
                        "eligible": eligible.iter().map(|(id, a)| json!([id_json(id), a.to_string()])).collect::<Vec<_>>(),
                        "excluded": q.excluded.iter().map(id_json).collect::<Vec<_>>(),
                        "target": q.target.to_string(),
                        "max": q.max,
                        "max_inputs": if algo == "readview" { json!(max_inputs) } else { json!(null) },
                        "allow_partial": q.partial,
                        "algo": algo,
                        "answer": outcome.to_json(),
                    })
                };
                let outcome = match observed {
                    Ok(o) => o,
                    Err(p) => {
                        report.inconclusive(format!("panic inside {algo}: {p}; case {}", describe(&Outcome::OtherError("panic".into()))));
                        report.count("c37.panics");
                        continue;
                    }
                };
                let outcome = perturb(outcome, ctx.selftest, &set);
                report.eval();
                report.count(&format!("c37.eval.{algo}"));
                report.count(&format!("c37.outcome.{algo}.{}", outcome.class()));
                if let Outcome::OtherError(e) = &outcome {
                    report.inconclusive(format!("unexpected error kind from {algo}: {e}; case {}", describe(&outcome)));
                    continue;
                }
                let effective_max = if algo == "readview" { q.max.min(max_inputs) } else { q.max };
                let j = Judged {
                    set: &set,
                    by_id: &by_id,
                    cands_desc: &cands,
                    q: &q,
                    effective_max,
                };
                let verdicts = judge(&j, &outcome);
                match &outcome {
                    Outcome::Ids(v) => {
                        if v.len() >= 2 {
                            report.count("c37.answers.with_2_or_more_resources");
                        }
                        if v.iter().any(|(id, _)| matches!(id, CoinId::Message(_))) {
                            report.count("c37.answers.with_message");
                        }
                        let total: u128 = v.iter().map(|(_, a)| *a as u128).sum();
                        if total == q.target && q.target > 0 {
                            report.count("c37.answers.total_exactly_target");
                        }
                        if total > u64::MAX as u128 {
                            report.count("c37.answers.total_above_u64");
                        }
                        if !q.excluded.is_empty() && !v.is_empty() {
                            report.count("c37.answers.nonempty_under_exclusion");
                        }
                    }
                    Outcome::Insufficient | Outcome::MaxReached => {
                        if verdicts.is_empty() {
                            report.count("c37.errors.confirmed_no_admissible_selection");
                        }
                    }
                    _ => {}
                }
                for (sig, detail) in &verdicts {
                    report.violation(
                        format!("{}{algo}: {sig}", if ctx.selftest == 0 { "" } else { "selftest:" }),
                        format!("{detail}; case {}", describe(&outcome)),
                        replay.clone(),
                    );
                }
                if cands.len() >= 2 && q.target > 0 && q.max >= 1 {
                    report.distinct(&(algo, set.dist, q.excl_mode, q.max_class, q.target_class, q.partial, outcome.class(), set.base_query));
                }
                if report.wants_sample() && cands.len() >= 3 && cands.len() <= 8 && q.target > 1 && rep == 0 && matches!(outcome, Outcome::Ids(ref v) if v.len() >= 2) {
                    report.sample(describe(&outcome));
                }
            }
        }
    }
}

pub fn run(args: &Args, report: &Report) -> (&'static str, bool, Vec<&'static str>) {
    let selftest: u32 = args.extra.get("selftest").and_then(|s| s.parse().ok()).unwrap_or(0);
    let ctx = std::sync::Arc::new(Ctx {
        report: report.clone(),
        selftest,
        reps: args.by_tier(6, 20),
        queries_per_set: args.by_tier(24, 40),
    });

    if let Some(rep) = read_replay(args) {
        let rt = tokio::runtime::Builder::new_current_thread().enable_all().build().expect("rt");
        let seed = rep["seed"].as_u64().unwrap_or(0);
        let shard = rep["shard"].as_u64().unwrap_or(0) as usize;
        let set = rep["set"].as_u64().unwrap_or(0);
        // regenerate the recorded coin set and re-run all its queries (the selection
        // algorithms themselves draw from thread_rng and cannot be pinned)
        run_set(&ctx, &rt, seed, shard, set);
        return (RULE, false, assumptions());
    }

    let shards = args.by_tier(64usize, 256usize);
    let sets_per_shard = args.by_tier(60u64, 40u64);
    {
        let ctx = ctx.clone();
        run_shards(report, args, shards, move |shard, shard_seed| {
            let rt = tokio::runtime::Builder::new_current_thread().enable_all().build().expect("rt");
            for set_idx in 0..sets_per_shard {
                run_set(&ctx, &rt, shard_seed, shard, set_idx);
            }
        });
    }

    let sets = shards as u64 * sets_per_shard;
    let queries = sets * ctx.queries_per_set as u64;
    report.info("c37.sets", json!(sets));
    report.info("c37.queries", json!(queries));
    for algo in ["indexed", "random_improve"] {
        report.require(&format!("c37.eval.{algo}"), queries * ctx.reps as u64 * 9 / 10);
        report.require(&format!("c37.outcome.{algo}.ok"), queries / 4);
        report.require(&format!("c37.outcome.{algo}.insufficient"), queries / 50);
    }
    report.require("c37.eval.largest_first", queries * 9 / 10);
    report.require("c37.eval.readview", queries * 9 / 10);
    report.require("c37.outcome.largest_first.max_reached", queries / 200);
    report.require("c37.outcome.indexed.max_reached", queries / 200);
    report.require("c37.errors.confirmed_no_admissible_selection", queries / 10);
    report.require("c37.answers.with_2_or_more_resources", queries / 4);
    report.require("c37.answers.with_message", queries / 50);
    report.require("c37.answers.total_exactly_target", queries / 50);
    report.require("c37.answers.total_above_u64", queries / 500);
    report.require("c37.answers.nonempty_under_exclusion", queries / 10);
    for t in ["sigma-1", "sigma", "sigma+1", "topmax", "topmax+1"] {
        report.require(&format!("c37.target.{t}"), queries / 40);
    }
    for m in ["0", "1", "2", "255"] {
        report.require(&format!("c37.max.{m}"), queries / 25);
    }
    for e in ["largest", "boundary", "all"] {
        report.require(&format!("c37.excl.{e}"), queries / 25);
    }
    (RULE, false, assumptions())
}

const RULE: &str = "Per shard, coin sets are drawn from 11 amount distributions (empty, single, dust cluster, equal amounts, whale+dust, u64::MAX coins, mixed magnitudes, zeros, ladder, 250-300 coins, dust+big) for one owner and one asset (base asset: coins and message coins; otherwise coins), surrounded by tempting distractors (other assets, other owners adjacent in key space, retryable messages, messages for a non-base asset, spent resources). Per set, queries combine target {0,1,S-1,S,S+1,top(max)-1,top(max),top(max)+1,S/2,S/3,u64::MAX,u128::MAX,random} x max {0,1,2,255,n-1,n,n+1,u16::MAX,3..10} x exclusion {none,largest,two largest,smallest,boundary coin,random,all,+irrelevant ids} x allow_partial; each query runs through select_coins_to_spend (real index iterators), ReadView::coins_to_spend, random_improve and largest_first, repeated because the algorithms are randomised. A case is distinct non-trivial when >=2 candidate resources remain, target>0 and max>=1; key = (algorithm, distribution, exclusion mode, max class, target class, allow_partial, outcome class, base/non-base).";

fn assumptions() -> Vec<&'static str> {
    vec![
        "the database is internally consistent (owner and coins-to-spend indexes match the on-chain tables); index/table agreement is C36",
        "InsufficientCoins vs MaxCoinsReached are not distinguished: either is accepted exactly when no admissible selection exists",
        "with allow_partial an error is admissible only if max == 0 or no non-excluded resource has a positive amount",
        "other error kinds and panics are reported as inconclusive, not as violations",
        "ReadView::coins_to_spend only exposes amounts; there identity clauses are checked as multiset inclusion of amounts",
    ]
}
