//! API-group monitors. One module per property; `dbutil` is shared plumbing.
//!   C37 -> c37.rs   coins-to-spend answers are sound
//!   C38 -> c38.rs (+ c38_e2e.rs)   cursor pagination enumerates every entry exactly once
//!   C36 -> c36.rs   off-chain indexes agree with the on-chain state
//!   C45 -> c45.rs   dry runs and read-only queries leave the chain state unchanged
//! (`sessutil` is the shared plumbing of the two chaingen-based modules.)

use vcommon::*;

mod c36;
mod c37;
mod c38;
mod c38_e2e;
mod c45;
pub mod dbutil;
mod sessutil;

fn main() {
    let args = Args::parse();
    install_quiet_panic_hook();
    let report = Report::new(&args.property);
    let (rule, exhaustive, assumptions): (&str, bool, Vec<&str>) = match args.property.as_str() {
        "C36" => c36::run(&args, &report),
        "C37" => c37::run(&args, &report),
        "C38" => c38::run(&args, &report),
        "C45" => c45::run(&args, &report),
        other => {
            report.inconclusive(format!("property {other} not implemented in this monitor"));
            ("", false, vec![])
        }
    };
    report.finish(&args, "exploration", rule, exhaustive, &assumptions);
}
