//! API-group monitors. One module per property; `dbutil` is shared plumbing.
//!   C37 -> c37.rs   coins-to-spend answers are sound
//!   C38 -> c38.rs (+ c38_e2e.rs)   cursor pagination enumerates every entry exactly once
//! (C36 and C45 are added as further modules; register them in the `match` below.)

use vcommon::*;

mod c37;
mod c38;
mod c38_e2e;
pub mod dbutil;

fn main() {
    let args = Args::parse();
    install_quiet_panic_hook();
    let report = Report::new(&args.property);
    let (rule, exhaustive, assumptions): (&str, bool, Vec<&str>) = match args.property.as_str() {
        "C37" => c37::run(&args, &report),
        "C38" => c38::run(&args, &report),
        other => {
            report.inconclusive(format!("property {other} not implemented in this monitor"));
            ("", false, vec![])
        }
    };
    report.finish(&args, "exploration", rule, exhaustive, &assumptions);
}
