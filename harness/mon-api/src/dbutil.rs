//! Harness-side construction of a real (in-memory) on-chain + off-chain database
//! holding generated coins / messages and the off-chain owner and coins-to-spend
//! indexes, exactly the tables the GraphQL read path (`ReadView`) consults.
//! Shared by the C37 and C38 modules (and meant for reuse by C36 / C45).

use fuel_core::{
    combined_database::CombinedDatabase,
    fuel_core_graphql_api::{
        database::{
            ReadDatabase,
            ReadView,
        },
        storage::{
            coins::{
                CoinsToSpendIndex,
                CoinsToSpendIndexKey,
                OwnedCoins,
                owner_coin_id_key,
            },
            messages::{
                OwnedMessageIds,
                OwnedMessageKey,
            },
        },
    },
};
use fuel_core_storage::{
    StorageMutate,
    tables::{
        Coins,
        Messages,
    },
};
use fuel_core_types::{
    blockchain::primitives::DaBlockHeight,
    entities::{
        coins::coin::CompressedCoin,
        relayer::message::{
            Message,
            MessageV1,
        },
    },
    fuel_tx::{
        Address,
        AssetId,
        UtxoId,
    },
    fuel_types::Nonce,
};

pub struct TestDb {
    pub db: CombinedDatabase,
    pub base_asset_id: AssetId,
}

impl TestDb {
    pub fn new(base_asset_id: AssetId) -> Self {
        TestDb {
            db: CombinedDatabase::in_memory(),
            base_asset_id,
        }
    }

    /// The same object the GraphQL service builds; `view()` is what resolvers get.
    pub fn read_database(&self, batch_size: usize) -> ReadDatabase {
        ReadDatabase::new(
            batch_size,
            0u32.into(),
            self.db.on_chain().clone(),
            self.db.off_chain().clone(),
        )
        .expect("read database")
    }

    pub fn view(&self, batch_size: usize) -> ReadView {
        self.read_database(batch_size).view().expect("latest view")
    }

    /// unspent coin: on-chain `Coins`, off-chain `OwnedCoins` and `CoinsToSpendIndex`
    pub fn insert_coin(&mut self, utxo_id: UtxoId, owner: Address, asset_id: AssetId, amount: u64) {
        let mut coin = CompressedCoin::default();
        coin.set_owner(owner);
        coin.set_amount(amount);
        coin.set_asset_id(asset_id);
        StorageMutate::<Coins>::insert(self.db.on_chain_mut(), &utxo_id, &coin).expect("insert coin");
        let key = owner_coin_id_key(&owner, &utxo_id);
        StorageMutate::<OwnedCoins>::insert(self.db.off_chain_mut(), &key, &()).expect("insert owned coin");
        let full = coin.uncompress(utxo_id);
        let idx = CoinsToSpendIndexKey::from_coin(&full);
        StorageMutate::<CoinsToSpendIndex>::insert(self.db.off_chain_mut(), &idx, &()).expect("insert index");
    }

    /// spend a coin: it disappears from all three tables
    pub fn remove_coin(&mut self, utxo_id: UtxoId) {
        let coin = StorageMutate::<Coins>::take(self.db.on_chain_mut(), &utxo_id)
            .expect("take coin")
            .expect("coin exists");
        let full = coin.uncompress(utxo_id);
        let key = owner_coin_id_key(&full.owner, &utxo_id);
        StorageMutate::<OwnedCoins>::take(self.db.off_chain_mut(), &key).expect("take owned");
        let idx = CoinsToSpendIndexKey::from_coin(&full);
        StorageMutate::<CoinsToSpendIndex>::take(self.db.off_chain_mut(), &idx).expect("take index");
    }

    fn message(nonce: Nonce, recipient: Address, amount: u64, data: Vec<u8>) -> Message {
        MessageV1 {
            sender: Address::from([0xEE; 32]),
            recipient,
            nonce,
            amount,
            data,
            da_height: DaBlockHeight::from(1u64),
        }
        .into()
    }

    /// unspent message: on-chain `Messages`, off-chain `OwnedMessageIds` and index.
    /// Non-empty `data` makes it a retryable (not coin-like) message.
    pub fn insert_message(&mut self, nonce: Nonce, recipient: Address, amount: u64, data: Vec<u8>) {
        let message = Self::message(nonce, recipient, amount, data);
        StorageMutate::<Messages>::insert(self.db.on_chain_mut(), message.id(), &message).expect("insert message");
        let key = OwnedMessageKey::new(&recipient, &nonce);
        StorageMutate::<OwnedMessageIds>::insert(self.db.off_chain_mut(), &key, &()).expect("insert owned message");
        let idx = CoinsToSpendIndexKey::from_message(&message, &self.base_asset_id);
        StorageMutate::<CoinsToSpendIndex>::insert(self.db.off_chain_mut(), &idx, &()).expect("insert index");
    }

    pub fn remove_message(&mut self, nonce: Nonce) {
        let message = StorageMutate::<Messages>::take(self.db.on_chain_mut(), &nonce)
            .expect("take message")
            .expect("message exists");
        let key = OwnedMessageKey::new(message.recipient(), &nonce);
        StorageMutate::<OwnedMessageIds>::take(self.db.off_chain_mut(), &key).expect("take owned message");
        let idx = CoinsToSpendIndexKey::from_message(&message, &self.base_asset_id);
        StorageMutate::<CoinsToSpendIndex>::take(self.db.off_chain_mut(), &idx).expect("take index");
    }
}
