//! C36 — off-chain indexes agree with the on-chain state.
//!
//! Session leg (volume): chaingen sessions over the real executor. After every
//! committed block the block's import result (sealed block, statuses, executor
//! events) is processed the way the GraphQL worker does it for one block, through
//! the real `worker_service::process_transactions` + `process_executor_events`
//! (balances and coins-to-spend indexation enabled) inside one
//! `worker::OffChainDatabase::transaction()` of a real `Database<OffChain>`; the
//! genesis coins/messages are fed as `CoinCreated` / `MessageImported` events like
//! the genesis off-chain importer does.
//!
//! Node leg: an in-process `FuelService` (real importer -> real worker task,
//! `Task::process_block`) started on a session's genesis state; the session
//! generates transactions against the node's tables, they are submitted through
//! the client, blocks are produced manually.
//!
//! Oracle (both legs, after every block, computed from the ON-CHAIN `Coins` and
//! `Messages` tables only):
//!   * for every (owner, asset): `CoinBalances` == sum of the owner's unspent coins;
//!   * for every owner: `MessageBalances` == (sum of unspent messages with data,
//!     sum of unspent messages without data);
//!   * `OwnedCoins`, `OwnedMessageIds`, `CoinsToSpendIndex` list exactly the unspent
//!     coins / messages (no missing entry, no stale entry, owner/asset/amount/
//!     retryable flag right);
//!   * through a real `ReadView` over both databases: `balance`, `balances`,
//!     `owned_coins`, `owned_messages`, `coins_to_spend` answer accordingly.

use crate::sessutil::*;
use chaingen::{
    ChainSession,
    GenOptions,
    SessionConfig,
    SourceKind,
};
use fuel_core::{
    database::{
        Database,
        database_description::off_chain::OffChain,
    },
    fuel_core_graphql_api::{
        database::{
            ReadDatabase,
            ReadView,
        },
        ports::worker::{
            OffChainDatabase as WorkerOffChainDatabase,
            OffChainDatabaseTransaction,
        },
        storage::{
            balances::{
                CoinBalances,
                MessageBalances,
            },
            blocks::FuelBlockIdsToHeights,
            coins::{
                CoinsToSpendIndex,
                CoinsToSpendIndexKey,
                OwnedCoins,
                owner_coin_id_key,
            },
            messages::OwnedMessageIds,
        },
        worker_service::{
            process_executor_events,
            process_transactions,
        },
    },
    query::asset_query::Exclude,
    schema::{
        coins::SpendQueryElementInput,
        scalars,
    },
};
use fuel_core_storage::{
    StorageAsMut,
    StorageAsRef,
    iter::{
        IterDirection,
        IteratorOverTable,
    },
    tables::FuelBlocks,
};
use fuel_core_types::{
    blockchain::{
        SealedBlock,
        block::Block,
        primitives::BlockId,
        transaction::TransactionExt,
    },
    entities::{
        coins::coin::CompressedCoin,
        relayer::message::Message,
    },
    fuel_tx::{
        Address,
        AssetId,
        ConsensusParameters,
        Input,
        Output,
        Transaction,
        UtxoId,
    },
    fuel_types::{
        BlockHeight,
        Nonce,
    },
    services::{
        block_importer::ImportResult,
        executor::Event as ExecutorEvent,
    },
};
use futures::StreamExt;
use std::{
    borrow::Cow,
    collections::{
        BTreeMap,
        BTreeSet,
    },
    sync::Arc,
};
use vcommon::{
    Args,
    Report,
    catch,
    chance,
    rand::{
        Rng,
        rngs::StdRng,
        seq::SliceRandom,
    },
    read_replay,
    rng_for,
    serde_json::{
        Value,
        json,
    },
    tag,
};

pub const RULE: &str = "Session leg: chaingen sessions (3-4 owners + 3 predicate owners, 3 assets, coin-like and \
data messages, relayer events) committed block after block; 2 of 3 blocks get an extra transfer that spends coins \
created earlier in the same block. After every block its import result is processed by the real worker functions \
(process_transactions + process_executor_events, both indexations on) in one off-chain database transaction, then every \
off-chain index table is compared with what follows from the on-chain Coins and Messages tables, and a real ReadView is \
queried (balance per owner x asset, balances, owned coins, owned messages, coins_to_spend at total and total+1). Node \
leg: the same comparison on an in-process FuelService (real importer and worker task) after every manually produced \
block of submitted session transactions. Non-trivial block: >=1 coin consumed and >=1 of {message imported/consumed, \
non-base-asset coin event, coin created and spent in the same block}; distinct = multiset of index-relevant event \
classes (kind x base/other asset x retryable) of the block.";

pub fn assumptions() -> Vec<&'static str> {
    vec![
        "the on-chain Coins/Messages tables are the reference (their correctness is C02)",
        "a message is retryable iff it carries data (fuel specification); coin-like otherwise",
        "ReadView::balance for the base asset is coins + non-retryable messages (retryable amounts are stored but not added: upstream TODO #2448); the stored retryable amount is checked on the table",
        "balances()/MessageBalances entries equal to zero are equivalent to absent entries",
        "session leg: Task::process_block is private; the harness performs its public steps (process_transactions, FuelBlockIdsToHeights, tx count, process_executor_events, commit) - the private whole is exercised by the node leg",
        "zero-amount messages are unspent resources and are expected in OwnedMessageIds and CoinsToSpendIndex",
    ]
}

// ------------------------------------------------------------------ oracle

#[derive(Clone, Copy, Debug, PartialEq, Eq, PartialOrd, Ord)]
enum ResId {
    Coin(UtxoId),
    Msg(Nonce),
}

/// One entry of the coins-to-spend index as (retryable, owner, asset, amount, id).
type Spendable = (bool, Address, AssetId, u64, ResId);

#[derive(Default, Debug, PartialEq)]
struct Indexes {
    coin_bal: BTreeMap<(Address, AssetId), u128>,
    /// owner -> (retryable, non-retryable)
    msg_bal: BTreeMap<Address, (u128, u128)>,
    owned_coins: BTreeSet<Vec<u8>>,
    owned_msgs: BTreeSet<(Address, Nonce)>,
    to_spend: BTreeSet<Spendable>,
}

/// What the indexes must contain, from the on-chain tables alone.
fn expected_from_chain(
    coins: &BTreeMap<UtxoId, CompressedCoin>,
    msgs: &BTreeMap<Nonce, Message>,
    base: &AssetId,
) -> Indexes {
    let mut e = Indexes::default();
    for (utxo, c) in coins {
        *e.coin_bal.entry((*c.owner(), *c.asset_id())).or_default() += *c.amount() as u128;
        e.owned_coins.insert(owner_coin_id_key(c.owner(), utxo).to_vec());
        e.to_spend
            .insert((false, *c.owner(), *c.asset_id(), *c.amount(), ResId::Coin(*utxo)));
    }
    for (nonce, m) in msgs {
        let retryable = !m.data().is_empty();
        let b = e.msg_bal.entry(*m.recipient()).or_default();
        if retryable {
            b.0 += m.amount() as u128;
        } else {
            b.1 += m.amount() as u128;
        }
        e.owned_msgs.insert((*m.recipient(), *nonce));
        e.to_spend
            .insert((retryable, *m.recipient(), *base, m.amount(), ResId::Msg(*nonce)));
    }
    e
}

/// What the off-chain tables contain (full iteration of each index table).
fn observed_from_off_chain(off: &Database<OffChain>) -> Result<Indexes, String> {
    let mut o = Indexes::default();
    for r in off.iter_all::<CoinBalances>(None) {
        let (k, v) = r.map_err(|e| e.to_string())?;
        o.coin_bal.insert((*k.address(), *k.asset_id()), v);
    }
    for r in off.iter_all::<MessageBalances>(None) {
        let (k, v) = r.map_err(|e| e.to_string())?;
        o.msg_bal.insert(k, (v.retryable, v.non_retryable));
    }
    for r in off.iter_all_keys::<OwnedCoins>(None) {
        o.owned_coins.insert(r.map_err(|e| e.to_string())?.to_vec());
    }
    for r in off.iter_all_keys::<OwnedMessageIds>(None) {
        let k = r.map_err(|e| e.to_string())?;
        o.owned_msgs.insert((*k.address(), *k.nonce()));
    }
    for r in off.iter_all_keys::<CoinsToSpendIndex>(None) {
        let k = r.map_err(|e| e.to_string())?;
        // 0x00 = retryable message, 0x01 = coin or non-retryable message (storage format of the index)
        let retryable = k.retryable_flag() == 0;
        let entry = match &k {
            CoinsToSpendIndexKey::Coin {
                owner,
                asset_id,
                amount,
                utxo_id,
            } => (retryable, *owner, *asset_id, *amount, ResId::Coin(*utxo_id)),
            CoinsToSpendIndexKey::Message {
                owner,
                asset_id,
                amount,
                nonce,
                ..
            } => (retryable, *owner, *asset_id, *amount, ResId::Msg(*nonce)),
        };
        if k.retryable_flag() > 1 {
            return Err(format!("coins-to-spend key with flag {}", k.retryable_flag()));
        }
        o.to_spend.insert(entry);
    }
    Ok(o)
}

fn set_diff<T: Ord + Clone + std::fmt::Debug>(exp: &BTreeSet<T>, obs: &BTreeSet<T>) -> (Vec<T>, Vec<T>) {
    (
        exp.difference(obs).take(3).cloned().collect(),
        obs.difference(exp).take(3).cloned().collect(),
    )
}

/// Table-level comparison. Returns (signature, detail) per disagreement class.
fn compare_tables(exp: &Indexes, obs: &Indexes) -> Vec<(String, String)> {
    let mut out = Vec::new();
    // balances: absent == 0
    let keys: BTreeSet<_> = exp.coin_bal.keys().chain(obs.coin_bal.keys()).cloned().collect();
    let bad: Vec<String> = keys
        .iter()
        .filter_map(|k| {
            let e = exp.coin_bal.get(k).copied().unwrap_or(0);
            let o = obs.coin_bal.get(k).copied().unwrap_or(0);
            (e != o).then(|| format!("owner {} asset {}: unspent coins sum {e}, CoinBalances {o}", k.0, k.1))
        })
        .take(3)
        .collect();
    if !bad.is_empty() {
        out.push(("coin_balance_differs_from_unspent_coins".into(), bad.join("; ")));
    }
    let keys: BTreeSet<_> = exp.msg_bal.keys().chain(obs.msg_bal.keys()).cloned().collect();
    let mut bad_r = Vec::new();
    let mut bad_n = Vec::new();
    for k in &keys {
        let e = exp.msg_bal.get(k).copied().unwrap_or((0, 0));
        let o = obs.msg_bal.get(k).copied().unwrap_or((0, 0));
        if e.0 != o.0 && bad_r.len() < 3 {
            bad_r.push(format!("owner {k}: unspent data messages sum {}, MessageBalances.retryable {}", e.0, o.0));
        }
        if e.1 != o.1 && bad_n.len() < 3 {
            bad_n.push(format!("owner {k}: unspent coin-like messages sum {}, MessageBalances.non_retryable {}", e.1, o.1));
        }
    }
    if !bad_r.is_empty() {
        out.push(("message_balance_differs retryable".into(), bad_r.join("; ")));
    }
    if !bad_n.is_empty() {
        out.push(("message_balance_differs non_retryable".into(), bad_n.join("; ")));
    }
    let (missing, stale) = set_diff(&exp.owned_coins, &obs.owned_coins);
    if !missing.is_empty() {
        let m: Vec<String> = missing.iter().map(hex::encode).collect();
        out.push(("owned_coins_index missing_unspent_coin".into(), format!("unspent coins not in OwnedCoins (owner++utxo): {m:?}")));
    }
    if !stale.is_empty() {
        let m: Vec<String> = stale.iter().map(hex::encode).collect();
        out.push(("owned_coins_index stale_entry".into(), format!("OwnedCoins entries without unspent coin (owner++utxo): {m:?}")));
    }
    let (missing, stale) = set_diff(&exp.owned_msgs, &obs.owned_msgs);
    if !missing.is_empty() {
        out.push(("owned_messages_index missing_unspent_message".into(), format!("unspent messages not in OwnedMessageIds: {missing:?}")));
    }
    if !stale.is_empty() {
        out.push(("owned_messages_index stale_entry".into(), format!("OwnedMessageIds entries without unspent message: {stale:?}")));
    }
    let (missing, stale) = set_diff(&exp.to_spend, &obs.to_spend);
    if !missing.is_empty() {
        out.push((
            "coins_to_spend_index missing_unspent_resource".into(),
            format!("(retryable, owner, asset, amount, id) expected but not indexed: {missing:?}; similar indexed: {stale:?}"),
        ));
    }
    if !stale.is_empty() {
        out.push((
            "coins_to_spend_index stale_or_wrong_entry".into(),
            format!("(retryable, owner, asset, amount, id) indexed but no such unspent resource: {stale:?}; expected instead: {missing:?}"),
        ));
    }
    out
}

/// ReadView-level comparison for a set of owners.
#[allow(clippy::too_many_arguments)]
fn compare_readview(
    ctx: &Ctx,
    rt: &tokio::runtime::Runtime,
    view: &ReadView,
    coins: &BTreeMap<UtxoId, CompressedCoin>,
    msgs: &BTreeMap<Nonce, Message>,
    exp: &Indexes,
    owners: &[Address],
    assets: &[AssetId],
    params: &ConsensusParameters,
    rng: &mut StdRng,
    prefix: &str,
) -> Vec<(String, String)> {
    let base = *params.base_asset_id();
    let report = &ctx.report;
    let mut out = Vec::new();
    for owner in owners {
        let coin_sum = |asset: &AssetId| exp.coin_bal.get(&(*owner, *asset)).copied().unwrap_or(0);
        let non_retryable = exp.msg_bal.get(owner).map(|b| b.1).unwrap_or(0);
        // balance(owner, asset)
        for asset in assets {
            let want = coin_sum(asset) + if *asset == base { non_retryable } else { 0 };
            match rt.block_on(view.balance(*owner, *asset, base)) {
                Ok(b) => {
                    report.count(&format!("{prefix}.readview.balance"));
                    if want > 0 {
                        report.count(&format!("{prefix}.readview.balance_nonzero"));
                    }
                    let got = if ctx.st(3) { b.amount + 1 } else { b.amount };
                    if got != want {
                        out.push((
                            "readview_balance_differs".into(),
                            format!("balance(owner {owner}, asset {asset}) = {got}, unspent coins (+ coin-like messages for the base asset) sum to {want}"),
                        ));
                    }
                }
                Err(e) => out.push(("readview_balance_error".into(), format!("balance(owner {owner}, asset {asset}) failed: {e}"))),
            }
        }
        // balances(owner)
        let listed: Vec<_> = rt.block_on(view.balances(owner, None, IterDirection::Forward, &base).collect::<Vec<_>>());
        report.count(&format!("{prefix}.readview.balances"));
        let mut got: BTreeMap<AssetId, u128> = BTreeMap::new();
        let mut dup = false;
        for r in listed {
            match r {
                Ok(b) => {
                    if b.amount != 0 {
                        dup |= got.insert(b.asset_id, b.amount).is_some();
                    }
                }
                Err(e) => out.push(("readview_balances_error".into(), format!("balances(owner {owner}) failed: {e}"))),
            }
        }
        let mut want: BTreeMap<AssetId, u128> = exp
            .coin_bal
            .iter()
            .filter(|((o, _), v)| o == owner && **v > 0)
            .map(|((_, a), v)| (*a, *v))
            .collect();
        if non_retryable > 0 {
            *want.entry(base).or_default() += non_retryable;
        }
        if got != want || dup {
            out.push((
                "readview_balances_differs".into(),
                format!("balances(owner {owner}) = {got:?} (duplicate asset: {dup}), expected non-zero balances {want:?}"),
            ));
        }
        // owned coins
        let listed: Vec<_> = rt.block_on(view.owned_coins(owner, None, IterDirection::Forward).collect::<Vec<_>>());
        report.count(&format!("{prefix}.readview.owned_coins"));
        let mut got = BTreeSet::new();
        for r in listed {
            match r {
                Ok(c) => {
                    got.insert((c.utxo_id, c.owner, c.asset_id, c.amount));
                }
                Err(e) => out.push(("readview_owned_coins_error".into(), format!("owned_coins(owner {owner}) failed: {e}"))),
            }
        }
        let want: BTreeSet<_> = coins
            .iter()
            .filter(|(_, c)| c.owner() == owner)
            .map(|(u, c)| (*u, *c.owner(), *c.asset_id(), *c.amount()))
            .collect();
        report.add(&format!("{prefix}.readview.owned_coins_listed"), got.len() as u64);
        if got != want {
            let (missing, extra) = set_diff(&want, &got);
            out.push((
                "readview_owned_coins_differs".into(),
                format!("owned_coins(owner {owner}): missing {missing:?}, unexpected {extra:?}"),
            ));
        }
        // owned messages
        let listed: Vec<_> = rt.block_on(view.owned_messages(owner, None, IterDirection::Forward).collect::<Vec<_>>());
        report.count(&format!("{prefix}.readview.owned_messages"));
        let mut got = BTreeSet::new();
        for r in listed {
            match r {
                Ok(m) => {
                    got.insert((*m.nonce(), *m.recipient(), m.amount(), m.data().is_empty()));
                }
                Err(e) => out.push(("readview_owned_messages_error".into(), format!("owned_messages(owner {owner}) failed: {e}"))),
            }
        }
        let want: BTreeSet<_> = msgs
            .iter()
            .filter(|(_, m)| m.recipient() == owner)
            .map(|(n, m)| (*n, *m.recipient(), m.amount(), m.data().is_empty()))
            .collect();
        report.add(&format!("{prefix}.readview.owned_messages_listed"), got.len() as u64);
        if got != want {
            let (missing, extra) = set_diff(&want, &got);
            out.push((
                "readview_owned_messages_differs".into(),
                format!("owned_messages(owner {owner}): missing {missing:?}, unexpected {extra:?}"),
            ));
        }
    }
    // coins_to_spend for two random (owner, asset) pairs: everything is selectable, nothing more
    for _ in 0..2 {
        let owner = owners[rng.gen_range(0..owners.len())];
        let asset = assets[rng.gen_range(0..assets.len())];
        let mut amounts: Vec<u64> = exp
            .to_spend
            .iter()
            .filter(|(retryable, o, a, _, _)| !*retryable && *o == owner && *a == asset)
            .map(|(_, _, _, amount, _)| *amount)
            .collect();
        amounts.sort();
        let total: u128 = amounts.iter().map(|a| *a as u128).sum();
        if amounts.is_empty() || amounts.len() > 200 || total == 0 {
            continue;
        }
        let exclude = Exclude::new(vec![]);
        for (target, must_succeed) in [(total, true), (total + 1, false)] {
            let q = SpendQueryElementInput {
                asset_id: scalars::AssetId::from(asset),
                amount: scalars::U128(target),
                max: Some(scalars::U16(255)),
                allow_partial: Some(false),
            };
            let res = rt.block_on(view.coins_to_spend(owner, &[q], &exclude, params, 255));
            report.count(&format!("{prefix}.readview.coins_to_spend"));
            match (res, must_succeed) {
                (Ok(lists), true) => {
                    let mut got: Vec<u64> = lists.iter().flatten().map(|c| c.amount()).collect();
                    got.sort();
                    let sum: u128 = got.iter().map(|a| *a as u128).sum();
                    // every non-zero resource is needed to reach the total
                    let nz = |v: &Vec<u64>| v.iter().filter(|a| **a > 0).cloned().collect::<Vec<_>>();
                    if sum != total || nz(&got) != nz(&amounts) {
                        out.push((
                            "readview_coins_to_spend_wrong_selection".into(),
                            format!("coins_to_spend(owner {owner}, asset {asset}, target = total {total}) returned amounts {got:?}, unspent spendable amounts are {amounts:?}"),
                        ));
                    }
                }
                (Err(e), true) => out.push((
                    "readview_coins_to_spend_insufficient_at_total".into(),
                    format!("coins_to_spend(owner {owner}, asset {asset}, target = total {total}, max 255) failed: {e:?}; unspent spendable amounts {amounts:?}"),
                )),
                (Ok(lists), false) => {
                    let got: Vec<u64> = lists.iter().flatten().map(|c| c.amount()).collect();
                    out.push((
                        "readview_coins_to_spend_more_than_owned".into(),
                        format!("coins_to_spend(owner {owner}, asset {asset}, target = total+1 {target}) succeeded with {got:?}; unspent spendable amounts {amounts:?}"),
                    ));
                }
                (Err(_), false) => {}
            }
        }
    }
    out
}

// ------------------------------------------------------------------ worker driver

fn genesis_block_id(sess: &ChainSession) -> Result<BlockId, String> {
    let b = sess
        .on_chain
        .storage::<FuelBlocks>()
        .get(&BlockHeight::from(0u32))
        .map_err(|e| e.to_string())?
        .ok_or("no genesis block")?;
    Ok(b.id())
}

/// One block through the worker's per-block processing (public parts of
/// `Task::process_block`), in one off-chain transaction.
fn worker_process(
    off: &mut Database<OffChain>,
    block_id: BlockId,
    height: BlockHeight,
    txs: &[Transaction],
    events: &[ExecutorEvent],
    base: &AssetId,
) -> Result<(), String> {
    let mut tx = WorkerOffChainDatabase::transaction(off);
    process_transactions(txs.iter(), &mut tx).map_err(|e| format!("process_transactions: {e}"))?;
    tx.storage_as_mut::<FuelBlockIdsToHeights>()
        .insert(&block_id, &height)
        .map_err(|e| format!("FuelBlockIdsToHeights: {e}"))?;
    let _ = OffChainDatabaseTransaction::increase_tx_count(&mut tx, txs.len() as u64);
    process_executor_events(events.iter().map(Cow::Borrowed), &mut tx, true, true, base)
        .map_err(|e| format!("process_executor_events: {e}"))?;
    OffChainDatabaseTransaction::commit(tx).map_err(|e| format!("commit: {e}"))
}

fn event_class(e: &ExecutorEvent, base: &AssetId) -> String {
    match e {
        ExecutorEvent::CoinCreated(c) => format!("coin_created.{}", if c.asset_id == *base { "base" } else { "other" }),
        ExecutorEvent::CoinConsumed(c) => format!("coin_consumed.{}", if c.asset_id == *base { "base" } else { "other" }),
        ExecutorEvent::MessageImported(m) => {
            format!("message_imported.{}", if m.data().is_empty() { "non_retryable" } else { "retryable" })
        }
        ExecutorEvent::MessageConsumed(m) => {
            format!("message_consumed.{}", if m.data().is_empty() { "non_retryable" } else { "retryable" })
        }
        ExecutorEvent::ForcedTransactionFailed { .. } => "forced_tx_failed".into(),
    }
}

fn zero_amount_outputs(block: &Block) -> u64 {
    let mut n = 0;
    for t in block.transactions() {
        if matches!(t, Transaction::Mint(_)) {
            continue;
        }
        for o in t.outputs().iter() {
            if matches!(o, Output::Coin { .. } | Output::Change { .. } | Output::Variable { .. }) && o.amount() == Some(0) {
                n += 1;
            }
        }
    }
    n
}

fn owners_to_query(sess: &ChainSession, exp: &Indexes, obs: &Indexes, rng: &mut StdRng) -> Vec<Address> {
    use chaingen::programs;
    let mut v: Vec<Address> = sess.owners.iter().map(|o| o.address).collect();
    v.push(Input::predicate_owner(programs::predicate_true()));
    v.push(Input::predicate_owner(programs::predicate_false()));
    v.push(Input::predicate_owner(programs::predicate_hungry()));
    // plus a few of the other addresses that hold (or are indexed as holding) something
    let mut others: Vec<Address> = exp
        .coin_bal
        .keys()
        .map(|k| k.0)
        .chain(exp.msg_bal.keys().cloned())
        .chain(obs.coin_bal.keys().map(|k| k.0))
        .chain(obs.msg_bal.keys().cloned())
        .filter(|a| !v.contains(a))
        .collect();
    others.sort();
    others.dedup();
    others.shuffle(rng);
    v.extend(others.into_iter().take(3));
    v
}

/// All comparisons for the current state. Returns the number of disagreements.
#[allow(clippy::too_many_arguments)]
fn judge_state(
    ctx: &Ctx,
    rt: &tokio::runtime::Runtime,
    sess: &ChainSession,
    off: &Database<OffChain>,
    read_db: &ReadDatabase,
    rng: &mut StdRng,
    prefix: &str,
    leg: &str,
    replay: &dyn Fn() -> Value,
) -> usize {
    let base = sess.base_asset();
    let coins = sess.coins();
    let msgs = sess.messages();
    let exp = expected_from_chain(&coins, &msgs, &base);
    let mut obs = match observed_from_off_chain(off) {
        Ok(o) => o,
        Err(e) => {
            ctx.report.inconclusive(format!("{leg}: cannot read the off-chain tables: {e}"));
            return 0;
        }
    };
    if ctx.st(4) {
        // perturb the observation: one coins-to-spend entry loses a unit of amount
        if let Some(first) = obs.to_spend.iter().find(|e| e.3 > 0).cloned() {
            obs.to_spend.remove(&first);
            obs.to_spend.insert((first.0, first.1, first.2, first.3 - 1, first.4));
        }
    }
    ctx.report.eval();
    ctx.report.add(&format!("{prefix}.unspent_coins_compared"), coins.len() as u64);
    ctx.report.add(&format!("{prefix}.unspent_messages_compared"), msgs.len() as u64);
    let mut verdicts = compare_tables(&exp, &obs);
    let view = match read_db.view() {
        Ok(v) => v,
        Err(e) => {
            ctx.report.inconclusive(format!("{leg}: no ReadView: {e}"));
            return 0;
        }
    };
    let owners = owners_to_query(sess, &exp, &obs, rng);
    match catch(|| compare_readview(ctx, rt, &view, &coins, &msgs, &exp, &owners, &sess.assets, &sess.params, rng, prefix)) {
        Ok(v) => verdicts.extend(v),
        Err(p) => ctx.report.inconclusive(format!("{leg}: panic during ReadView queries: {p}")),
    }
    let n = verdicts.len();
    for (sig, detail) in verdicts {
        ctx.violation(&format!("{leg}: {sig}"), detail, replay());
    }
    n
}

// ------------------------------------------------------------------ session leg

fn run_session(ctx: &Ctx, case: &Case, rng: &mut StdRng, blocks: u32) {
    let report = &ctx.report;
    let rt = tokio::runtime::Builder::new_current_thread().enable_all().build().expect("rt");
    let cfg = SessionConfig::random(rng);
    let mut sess = ChainSession::new(rng, cfg);
    let base = sess.base_asset();
    let mut off = Database::<OffChain>::in_memory();
    let mut opt = GenOptions::default();
    opt.twist_permille = 150;
    opt.revert_heavy = case.session % 4 == 3;

    // ---- genesis: coins and messages as events, like the genesis off-chain importer
    let mut genesis_events: Vec<ExecutorEvent> = sess
        .coins()
        .into_iter()
        .map(|(u, c)| ExecutorEvent::CoinCreated(c.uncompress(u)))
        .chain(sess.messages().into_values().map(ExecutorEvent::MessageImported))
        .collect();
    genesis_events.shuffle(rng);
    let gid = match genesis_block_id(&sess) {
        Ok(id) => id,
        Err(e) => {
            report.inconclusive(format!("harness: {e}"));
            return;
        }
    };
    if let Err(e) = worker_process(&mut off, gid, 0u32.into(), &[], &genesis_events, &base) {
        report.inconclusive(format!("harness: genesis indexing failed: {e}"));
        return;
    }
    let batch = *vcommon::pick(rng, &[1usize, 2, 7, 100]);
    let read_db = match ReadDatabase::new(batch, 0u32.into(), sess.on_chain.clone(), off.clone()) {
        Ok(r) => r,
        Err(e) => {
            report.inconclusive(format!("harness: no ReadDatabase: {e}"));
            return;
        }
    };
    judge_state(ctx, &rt, &sess, &off, &read_db, rng, "c36", "session", &|| case.replay(0, json!("genesis")));

    for _ in 0..blocks {
        let plan = sess.gen_block_plan(rng, &opt);
        let source = SourceKind::Honest;
        let mut txs = plan.txs.clone();
        let mut produced = match catch(|| sess.produce_txs(&plan, &txs, source)) {
            Ok(Ok(p)) => p,
            Ok(Err(e)) => {
                report.count(&format!("c36.production_error.{}", exec_err_class(&e)));
                break;
            }
            Err(p) => {
                report.inconclusive(format!("panic during production: {p}"));
                break;
            }
        };
        // extra transfer spending coins created earlier in this very block
        if chance(rng, 66) {
            if let Some(ch) = chained_spend(&sess, rng, &plan, &produced) {
                report.count("c36.chained_spend.planned");
                txs.push(ch);
                match catch(|| sess.produce_txs(&plan, &txs, source)) {
                    Ok(Ok(p)) => produced = p,
                    Ok(Err(e)) => {
                        report.count(&format!("c36.production_error.{}", exec_err_class(&e)));
                        break;
                    }
                    Err(p) => {
                        report.inconclusive(format!("panic during production: {p}"));
                        break;
                    }
                }
            }
        }
        let replay = || {
            case.replay(
                plan.height,
                json!({"txs": txs.iter().map(|p| p.label()).collect::<Vec<_>>(),
                       "events": produced.events.iter().map(|e| event_class(e, &base)).collect::<Vec<_>>()}),
            )
        };
        if let Err(e) = commit_block(&mut sess, &plan, &produced) {
            report.inconclusive(format!("commit failed: {e}"));
            break;
        }
        // what the importer hands to the worker
        let result = ImportResult::new_from_local(
            SealedBlock {
                entity: produced.block.clone(),
                consensus: Default::default(),
            },
            produced.tx_status.clone(),
            produced.events.clone(),
        );
        let mut events = result.events.clone();
        if ctx.st(1) {
            if let Some(i) = events.iter().position(|e| matches!(e, ExecutorEvent::CoinConsumed(_))) {
                events.remove(i);
            }
        }
        if ctx.st(2) {
            if let Some(ExecutorEvent::CoinCreated(c)) = events.iter_mut().find(|e| matches!(e, ExecutorEvent::CoinCreated(_))) {
                c.amount += 1;
            }
        }
        if ctx.st(5) {
            if let Some(i) = events.iter().position(|e| matches!(e, ExecutorEvent::MessageConsumed(_))) {
                events.remove(i);
            }
        }
        let block = &result.sealed_block.entity;
        if let Err(e) = worker_process(&mut off, block.id(), *block.header().height(), block.transactions(), &events, &base) {
            report.count("c36.worker_errors");
            ctx.violation(
                "session: worker_failed_to_process_block",
                format!("block {}: {e} (the block is on chain but was not indexed)", plan.height),
                replay(),
            );
        }
        report.count("c36.blocks");

        // ---- evidence about the block
        let mut created = BTreeSet::new();
        let mut consumed = BTreeSet::new();
        let mut classes: BTreeMap<String, u32> = BTreeMap::new();
        for e in &produced.events {
            let c = event_class(e, &base);
            report.count(&format!("c36.events.{c}"));
            *classes.entry(c).or_default() += 1;
            match e {
                ExecutorEvent::CoinCreated(c) => {
                    created.insert(c.utxo_id);
                }
                ExecutorEvent::CoinConsumed(c) => {
                    consumed.insert(c.utxo_id);
                }
                _ => {}
            }
        }
        let same_block = created.intersection(&consumed).count() as u64;
        report.add("c36.coins_created_and_spent_in_same_block", same_block);
        if same_block > 0 {
            report.count("c36.blocks_with_coin_created_and_spent");
        }
        report.add("c36.zero_amount_outputs_in_executed_txs", zero_amount_outputs(&produced.block));
        let msg_event = classes.keys().any(|k| k.starts_with("message_"));
        let other_asset = classes.keys().any(|k| k.ends_with(".other"));
        if !consumed.is_empty() && (msg_event || other_asset || same_block > 0) {
            report.count("c36.nontrivial_blocks");
            report.distinct(&(classes.iter().map(|(k, v)| (k.clone(), (*v).min(6))).collect::<Vec<_>>(), same_block.min(3)));
        }

        let n = judge_state(ctx, &rt, &sess, &off, &read_db, rng, "c36", "session", &replay);
        if report.wants_sample() && chance(rng, 3) {
            report.sample(replay());
        }
        if n > 0 {
            // the indexes have diverged; later blocks would only repeat the finding
            break;
        }
    }
}

// ------------------------------------------------------------------ node leg

async fn node_leg(ctx: &Ctx, args: &Args, rt_queries: &tokio::runtime::Runtime, rounds: u32, idx: u64) {
    let report = &ctx.report;
    let mut rng = rng_for(args.seed, &[tag("c36-node"), idx]);
    let mut cfg = SessionConfig::random(&mut rng);
    cfg.genesis_da_height = 0;
    let mut sess = ChainSession::new(&mut rng, cfg);
    let dir = args.scratch.join(format!("c36-node-{idx}"));
    let node = match Node::start(&mut sess, &dir).await {
        Ok(n) => n,
        Err(e) => {
            report.inconclusive(format!("node leg: {e}"));
            return;
        }
    };
    let off = node.srv.shared.database.off_chain().clone();
    let read_db = match ReadDatabase::new(3, 0u32.into(), sess.on_chain.clone(), off.clone()) {
        Ok(r) => r,
        Err(e) => {
            report.inconclusive(format!("node leg: no ReadDatabase: {e}"));
            return;
        }
    };
    let mut opt = GenOptions::default();
    opt.relayer_events = false;
    opt.max_da_advance = 0;
    opt.upgrades = false;
    opt.twist_permille = 80;
    opt.txs = 4..=9;
    let base = sess.base_asset();
    let seed = args.seed;
    let mut submitted_log: Vec<String> = Vec::new();
    let replay = |round: u32, log: &Vec<String>| json!({"leg": "node", "seed": seed, "node": idx, "round": round, "ops": log});
    if !node.quiesce().await {
        report.inconclusive("node leg: off-chain worker did not catch up after genesis");
        return;
    }
    tokio::task::block_in_place(|| {
        judge_state(ctx, rt_queries, &sess, &off, &read_db, &mut rng, "c36.node", "node", &|| replay(0, &submitted_log))
    });
    for round in 1..=rounds {
        let plan = sess.gen_block_plan(&mut rng, &opt);
        let mut accepted = 0;
        for p in &plan.txs {
            match node.client.submit(&p.tx).await {
                Ok(_) => {
                    accepted += 1;
                    report.count("c36.node.submit.accepted");
                    submitted_log.push(format!("r{round} submit {} accepted", p.label()));
                }
                Err(e) => {
                    report.count(&format!("c36.node.submit.rejected.{}", err_class(&e.to_string())));
                    submitted_log.push(format!("r{round} submit {} rejected", p.label()));
                }
            }
        }
        if let Err(e) = node.client.produce_blocks(1, None).await {
            report.inconclusive(format!("node leg: produce_blocks failed: {e}"));
            break;
        }
        if !node.quiesce().await {
            report.inconclusive("node leg: off-chain worker did not catch up with the importer");
            break;
        }
        let h = node.on_chain_height().unwrap_or(0);
        sess.height = h;
        report.count("c36.node.blocks");
        // what did the block contain (from the on-chain block itself)
        use fuel_core_storage::transactional::AtomicView;
        let n_txs = node
            .srv
            .shared
            .database
            .on_chain()
            .latest_view()
            .ok()
            .and_then(|v| v.get_full_block(&h.into()).ok().flatten())
            .map(|b| b.transactions().len().saturating_sub(1))
            .unwrap_or(0);
        report.add("c36.node.txs_in_blocks", n_txs as u64);
        submitted_log.push(format!("r{round} block {h}: {accepted} accepted, {n_txs} included"));
        let n = tokio::task::block_in_place(|| {
            judge_state(ctx, rt_queries, &sess, &off, &read_db, &mut rng, "c36.node", "node", &|| replay(round, &submitted_log))
        });
        // the same through GraphQL for two owners
        for o in sess.owners.iter().take(2) {
            let want_coins: u128 = sess
                .coins()
                .values()
                .filter(|c| c.owner() == &o.address && c.asset_id() == &base)
                .map(|c| *c.amount() as u128)
                .sum();
            let want_msgs: u128 = sess
                .messages()
                .values()
                .filter(|m| m.recipient() == &o.address && m.data().is_empty())
                .map(|m| m.amount() as u128)
                .sum();
            match node.client.balance(&o.address, Some(&base)).await {
                Ok(b) => {
                    report.count("c36.node.graphql_balance");
                    if b != want_coins + want_msgs {
                        ctx.violation(
                            "node: graphql_balance_differs",
                            format!("balance(owner {}, base asset) = {b} through GraphQL, unspent coins + coin-like messages sum to {}", o.address, want_coins + want_msgs),
                            replay(round, &submitted_log),
                        );
                    }
                }
                Err(e) => report.inconclusive(format!("node leg: balance query failed: {e}")),
            }
        }
        if n > 0 {
            break;
        }
    }
    let _ = node.srv.send_stop_signal_and_await_shutdown().await;
}

fn run_node_legs(ctx: &Ctx, args: &Args, nodes: u64, rounds: u32, only: Option<u64>) {
    let rt = match tokio::runtime::Builder::new_multi_thread().worker_threads(3).enable_all().build() {
        Ok(rt) => rt,
        Err(e) => {
            ctx.report.inconclusive(format!("node leg: no runtime: {e}"));
            return;
        }
    };
    // ReadView queries are driven with block_on on a separate current-thread runtime
    let rt_queries = Arc::new(tokio::runtime::Builder::new_current_thread().enable_all().build().expect("rt"));
    for idx in 0..nodes {
        if only.map(|o| o != idx).unwrap_or(false) {
            continue;
        }
        let rq = rt_queries.clone();
        if let Err(p) = catch(|| rt.block_on(node_leg(ctx, args, &rq, rounds, idx))) {
            ctx.report.inconclusive(format!("node leg: harness panic: {p}"));
        }
    }
    rt.shutdown_timeout(std::time::Duration::from_secs(2));
}

// ------------------------------------------------------------------ entry

pub fn run(args: &Args, report: &Report) -> (&'static str, bool, Vec<&'static str>) {
    let ctx = Ctx::new(args, report);
    let replaying = read_replay(args);
    let node_replay = replaying.as_ref().map(|r| r.get("leg").and_then(|l| l.as_str()) == Some("node")).unwrap_or(false);

    // node leg on its own thread, concurrently with the session leg
    let node_thread = if replaying.is_none() || node_replay {
        let ctx2 = ctx.clone();
        let mut args2 = args.clone();
        if let Some(s) = replaying.as_ref().and_then(|r| r.get("seed")).and_then(|s| s.as_u64()) {
            args2.seed = s;
        }
        let nodes = args.by_tier(2u64, 4);
        let only = replaying.as_ref().and_then(|r| r.get("node")).and_then(|n| n.as_u64());
        let rounds = args.by_tier(10u32, 16);
        Some(
            std::thread::Builder::new()
                .stack_size(64 << 20)
                .spawn(move || run_node_legs(&ctx2, &args2, nodes.max(only.map(|o| o + 1).unwrap_or(0)), rounds, only))
                .expect("spawn"),
        )
    } else {
        None
    };

    if !node_replay {
        let shards = args.by_tier(16usize, 32);
        let sessions = args.by_tier(20usize, 240);
        let blocks = args.by_tier(12u32, 16);
        let c = ctx.clone();
        for_each_session(args, report, shards, sessions, move |case, rng| run_session(&c, case, rng, blocks));
    }
    if let Some(t) = node_thread {
        if t.join().is_err() {
            report.inconclusive("node leg thread panicked");
        }
    }

    if replaying.is_none() && ctx.selftest == 0 {
        // observed at quick seed 1 (16 shards x 20 sessions x 12 blocks): about 2.5x the figures below
        let k = args.by_tier(1u64, 25);
        for (key, min) in [
            ("c36.blocks", 2800u64),
            ("c36.nontrivial_blocks", 1700),
            ("c36.events.coin_consumed.base", 8000),
            ("c36.events.coin_consumed.other", 500),
            ("c36.events.coin_created.other", 800),
            ("c36.events.message_imported.retryable", 600),
            ("c36.events.message_imported.non_retryable", 600),
            ("c36.events.message_consumed.retryable", 500),
            ("c36.events.message_consumed.non_retryable", 600),
            ("c36.coins_created_and_spent_in_same_block", 800),
            ("c36.zero_amount_outputs_in_executed_txs", 5000),
            ("c36.readview.balance_nonzero", 25000),
            ("c36.readview.owned_coins_listed", 100000),
            ("c36.readview.owned_messages_listed", 14000),
            ("c36.readview.coins_to_spend", 4000),
        ] {
            report.require(key, min * k);
        }
        let n = args.by_tier(2u64, 4);
        report.require("c36.node.blocks", 8 * n);
        report.require("c36.node.txs_in_blocks", 15 * n);
        report.require("c36.node.readview.balance_nonzero", 100 * n);
    }
    (RULE, false, assumptions())
}
