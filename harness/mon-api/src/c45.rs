//! C45 — dry runs and read-only queries leave the chain state unchanged.
//!
//! Leg (a), producer level, volume: chaingen sessions (in memory, and every second
//! session on `HistoricalRocksDB` with full rewind so that past heights exist).
//! The real `fuel_core_producer::Producer::dry_run` (view provider = the session's
//! real `Database<OnChain>` through fuel-core's own `BlockProducerDatabase`
//! adapter, executor port = the real upgradable `Executor::dry_run`) receives
//! generated requests: single planned transactions and groups of them (valid,
//! reverting, invalid twists, unknown contracts), latest / next / past height,
//! utxo validation on / off / default, gas price given or from the provider,
//! storage-read recording on / off; plus `Executor::dry_run_without_commit_with_source`
//! of the whole block. Oracle per request: byte-wise dump of every on-chain column
//! and both relayer columns before == after; the same request again gives the
//! same answer - also when, between the two requests, the relayer port reports a
//! later finalized DA height and/or the relayer has synced a further DA height into
//! its database (the chain is unchanged by that). Per block: producing the block before and after all its dry runs
//! gives the same block id, statuses, skipped list and storage changes ("as if
//! never dry-run"); then the block is committed and the chain goes on.
//!
//! Leg (b), node: an in-process `FuelService` (RocksDB, manual block production,
//! UTXO validation on) on a session's genesis state. Per round the session
//! generates transactions against the node's tables; through `FuelClient`:
//! `dry_run`, `dry_run_opt` (utxo validation / gas price / at height),
//! `dry_run_opt_record_storage_reads`, `estimate_predicates`, `assemble_tx` and
//! read-only queries, each twice. Oracle: on-chain + off-chain (+ relayer) dumps of
//! the quiescent node before == after; identical requests, identical answers
//! (deterministic endpoints); a transaction whose dry run succeeded is then not
//! refused by the pool as spending spent/unknown inputs, and the assembled
//! transaction (signed) is accepted too. Then the block is produced.

use crate::sessutil::*;
use chaingen::{
    BlockPlan,
    ChainSession,
    GenOptions,
    PlannedTx,
    Produced,
    SessionConfig,
    SourceKind,
    Twist,
    session::RealExecutor,
};
use fuel_core::{
    database::{
        Database,
        database_description::on_chain::OnChain,
    },
    state::{
        historical_rocksdb::StateRewindPolicy,
        rocks_db::DatabaseConfig,
    },
};
use fuel_core_client::client::{
    pagination::{
        PageDirection,
        PaginationRequest,
    },
    types::assemble_tx::{
        Account,
        ChangePolicy,
        RequiredBalance,
    },
};
use fuel_core_producer::{
    Producer,
    block_producer::gas_price::{
        ChainStateInfoProvider,
        GasPriceProvider,
    },
    ports::{
        BlockProducer as BlockProducerPort,
        DryRunner,
        Relayer as RelayerPort,
        RelayerBlockInfo,
    },
};
use fuel_core_storage::{
    StorageAsMut,
    StorageAsRef,
    column::Column,
    iter::{
        IterDirection,
        IterableStore,
    },
    kv_store::{
        StorageColumn,
        WriteOperation,
    },
    tables::{
        ConsensusParametersVersions,
        StateTransitionBytecodeVersions,
    },
    transactional::{
        Changes,
        Modifiable,
        ReadTransaction,
    },
};
use fuel_core_types::{
    blockchain::{
        header::{
            ConsensusParametersVersion,
            LATEST_STATE_TRANSITION_VERSION,
        },
        primitives::DaBlockHeight,
    },
    fuel_tx::{
        Bytes32,
        ConsensusParameters,
        Output,
        Signable,
        Transaction,
        UniqueIdentifier,
        policies::Policies,
    },
    fuel_types::{
        BlockHeight,
        canonical::Serialize,
    },
    services::{
        block_producer::Components,
        executor::{
            DryRunResult,
            Result as ExecutorResult,
            TransactionExecutionResult,
            UncommittedResult,
        },
    },
    tai64::Tai64,
};
use fuel_core_upgradable_executor::{
    config::Config as ExecConfig,
    executor::Executor,
};
use fuel_core_types::{
    entities::relayer::message::{
        Message,
        MessageV1,
    },
    fuel_types::{
        Address,
        Nonce,
    },
    services::relayer::Event as RelayerEvent,
};
use fuel_core_executor::executor::OnceTransactionsSource;
use std::{
    collections::BTreeMap,
    sync::{
        Arc,
        Condvar,
        Mutex,
        atomic::{
            AtomicUsize,
            Ordering,
        },
    },
};
use vcommon::{
    Args,
    Report,
    catch,
    chance,
    hash64,
    pick,
    rand::{
        Rng,
        rngs::StdRng,
    },
    read_replay,
    rng_for,
    serde_json::{
        Value,
        json,
    },
    tag,
};

pub const RULE: &str = "Leg a: chaingen sessions (every second on RocksDB with full state rewind); per block ~15-25 \
requests to the real Producer::dry_run (single planned transactions and groups; latest, next and past heights; utxo \
validation on/off/default; gas price given/default; storage-read recording on/off; time given/default) plus \
Executor::dry_run_without_commit_with_source of the whole block, every request issued twice, in 70% of the pairs with the relayer's finalized DA height advanced (sometimes after syncing a new DA height with message events) between the two; byte-wise dump of all \
on-chain and relayer columns before == after each request, both answers equal, and the block produced before and after \
all dry runs is identical (then committed). Leg b: in-process FuelService on RocksDB, manual blocks; per round, for each \
generated transaction dry_run / dry_run_opt (utxo validation, gas price, at height) / record_storage_reads / \
estimate_predicates, plus assemble_tx and read-only queries, each twice; dumps of on-chain + off-chain + relayer \
databases before == after, deterministic answers equal, dry-run transactions and the signed assembled transaction are \
then accepted by the pool. Non-trivial request: answer is a revert, an error, a past-height run, or a success that \
touched contract state or messages; distinct = (leg, endpoint, option combination, transaction shape, answer class).";

pub fn assumptions() -> Vec<&'static str> {
    vec![
        "byte-wise dumps iterate every column of fuel_core_storage::column::Column (on-chain), the two relayer columns and the 18 off-chain columns; RocksDB history column families are not part of the state",
        "node dumps are taken while no block is being produced (manual production, off-chain height == on-chain height); the gas-price and compression databases are excluded",
        "answers are compared as canonical bytes of (transactions, statuses incl. receipts, storage reads) or the error text",
        "assemble_tx and coins_to_spend select coins with randomness: only absence of side effects is judged for them, not equality of answers",
        "a pool rejection is a violation only if it says an input is spent / does not exist for a transaction whose dry run with UTXO validation just succeeded",
        "leg a: the producer's gas-price and consensus-parameter ports are harness stubs; the relayer port is a harness object that reports a finalized DA height (moved by the harness between requests, within the heights present in the real relayer database) and the forced-transaction cost/count of each height; view provider, executor and databases are real",
        "overlap: two identical Producer::dry_run calls (and a dry run with Producer::produce_and_execute_block_transactions of the next block, result dropped) are joined on one runtime; a gate in the harness's executor port holds each call (<= 250 ms) until both are inside the executor; answers must equal the sequential answers (the unchanged dry_run takes no lock)",
        "relayer progress (a later finalized DA height, further DA heights synced into the relayer database) is not a change of the chain: C45's 'same answer when repeated on an unchanged chain' is required across it; the unchanged code never consults the relayer in dry_run (it simulates on the last block's DA height)",
    ]
}

// ------------------------------------------------------------------ leg a: ports

/// Rendezvous inside the executor port: when armed for `n` callers, each caller
/// waits (bounded) until `n` callers are inside, so that the calls really overlap.
#[derive(Default)]
struct Gate {
    expected: AtomicUsize,
    arrived: Mutex<usize>,
    cv: Condvar,
}

impl Gate {
    fn arm(&self, n: usize) {
        *self.arrived.lock().unwrap() = 0;
        self.expected.store(n, Ordering::SeqCst);
    }

    /// disarm; returns how many callers were inside together
    fn disarm(&self) -> usize {
        self.expected.store(0, Ordering::SeqCst);
        *self.arrived.lock().unwrap()
    }

    fn pass(&self) {
        let n = self.expected.load(Ordering::SeqCst);
        if n < 2 {
            return;
        }
        let mut a = self.arrived.lock().unwrap();
        *a += 1;
        self.cv.notify_all();
        let deadline = std::time::Instant::now() + std::time::Duration::from_millis(250);
        while *a < n {
            let left = deadline.saturating_duration_since(std::time::Instant::now());
            if left.is_zero() {
                break;
            }
            a = self.cv.wait_timeout(a, left).unwrap().0;
        }
    }
}

struct DryRunExec(Arc<RealExecutor>, Arc<Gate>);

impl DryRunner for DryRunExec {
    fn dry_run(
        &self,
        block: Components<Vec<Transaction>>,
        forbid_fake_coins: Option<bool>,
        at_height: Option<BlockHeight>,
        record_storage_read_replay: bool,
    ) -> ExecutorResult<DryRunResult> {
        self.1.pass();
        self.0.dry_run(block, forbid_fake_coins, at_height, record_storage_read_replay)
    }
}

/// Same shape as fuel-core's `ExecutorAdapter` implementation for a transaction vector.
impl BlockProducerPort<Vec<Transaction>> for DryRunExec {
    type Deadline = ();

    async fn produce_without_commit(&self, component: Components<Vec<Transaction>>, _: ()) -> ExecutorResult<UncommittedResult<Changes>> {
        self.1.pass();
        let component = Components {
            header_to_produce: component.header_to_produce,
            transactions_source: OnceTransactionsSource::new(component.transactions_source),
            gas_price: component.gas_price,
            coinbase_recipient: component.coinbase_recipient,
        };
        self.0.produce_without_commit_with_source_direct_resolve(component)
    }
}

/// What the producer's relayer port reports. The harness moves `finalized`
/// between requests (within the DA heights whose events are in the real relayer
/// database) and sometimes lets the relayer "sync" a further DA height; the
/// chain itself does not change by that.
#[derive(Default)]
struct RelayerState {
    finalized: u64,
    /// DA height -> (gas cost of the forced transactions, number of forced transactions)
    info: BTreeMap<u64, (u64, u64)>,
    calls: u64,
}

#[derive(Clone, Default)]
struct MovingRelayer(Arc<Mutex<RelayerState>>);

impl MovingRelayer {
    fn sync_info(&self, sess: &ChainSession) {
        let mut st = self.0.lock().unwrap();
        st.info = sess
            .relayer_history
            .iter()
            .map(|(h, events)| {
                let cost = events.iter().map(|e| e.cost()).fold(0u64, |a, b| a.saturating_add(b));
                let txs = events.iter().filter(|e| matches!(e, RelayerEvent::Transaction(_))).count() as u64;
                (*h, (cost, txs))
            })
            .collect();
    }

    fn set_finalized(&self, h: u64) {
        self.0.lock().unwrap().finalized = h;
    }

    fn calls(&self) -> u64 {
        self.0.lock().unwrap().calls
    }
}

#[async_trait::async_trait]
impl RelayerPort for MovingRelayer {
    async fn wait_for_at_least_height(&self, height: &DaBlockHeight) -> anyhow::Result<DaBlockHeight> {
        let mut st = self.0.lock().unwrap();
        st.calls += 1;
        Ok(DaBlockHeight(st.finalized.max(height.0)))
    }

    async fn get_cost_and_transactions_number_for_block(&self, height: &DaBlockHeight) -> anyhow::Result<RelayerBlockInfo> {
        let mut st = self.0.lock().unwrap();
        st.calls += 1;
        let (gas_cost, tx_count) = st.info.get(&height.0).copied().unwrap_or((0, 0));
        Ok(RelayerBlockInfo { gas_cost, tx_count })
    }
}

/// Let the relayer sync one more DA height (0-2 message events) into the real
/// relayer database. The chain (on-chain database) is not touched.
fn relayer_syncs_one_more_height(sess: &mut ChainSession, rng: &mut StdRng) {
    let h = sess.relayer_tip + 1;
    let n = *pick(rng, &[0usize, 1, 1, 2]);
    let events: Vec<RelayerEvent> = (0..n)
        .map(|_| {
            let mut nonce = [0u8; 32];
            rng.fill(&mut nonce);
            nonce[0] = 0xDB;
            let recipient = sess.owners[rng.gen_range(0..sess.owners.len())].address;
            RelayerEvent::Message(Message::V1(MessageV1 {
                sender: Address::new(rng.r#gen()),
                recipient,
                nonce: Nonce::new(nonce),
                amount: rng.gen_range(1_000_000_000u64..9_000_000_000),
                data: if chance(rng, 50) { vec![] } else { vec![7, 7, 7] },
                da_height: DaBlockHeight(h),
            }))
        })
        .collect();
    sess.push_da_height(events);
}

fn on_chain_part(d: &Dump) -> Vec<(&(u32, Vec<u8>), &Vec<u8>)> {
    d.iter().filter(|((c, _), _)| *c < TAG_RELAYER).collect()
}

struct StaticPrice(u64);

impl GasPriceProvider for StaticPrice {
    fn production_gas_price(&self) -> anyhow::Result<u64> {
        Ok(self.0)
    }

    fn dry_run_gas_price(&self) -> anyhow::Result<u64> {
        Ok(self.0)
    }
}

struct ParamsFromDb(Database<OnChain>);

impl ChainStateInfoProvider for ParamsFromDb {
    fn consensus_params_at_version(&self, version: &ConsensusParametersVersion) -> anyhow::Result<Arc<ConsensusParameters>> {
        let p = self
            .0
            .storage::<ConsensusParametersVersions>()
            .get(version)?
            .ok_or_else(|| anyhow::anyhow!("no consensus parameters version {version}"))?
            .into_owned();
        Ok(Arc::new(p))
    }
}

type RealProducer = Producer<Database<OnChain>, (), DryRunExec, StaticPrice, ParamsFromDb>;

/// Move the session's genesis state into `target` (an empty database), add the
/// state-transition-version row the producer's header construction reads (the
/// node writes it at genesis, chaingen's genesis does not), and give the session
/// an executor that allows historical execution.
fn rebase(sess: &mut ChainSession, mut target: Database<OnChain>) -> Result<Arc<RealExecutor>, String> {
    let mut changes: Changes = Default::default();
    for id in 0..64u32 {
        let Ok(column) = Column::try_from(id) else { continue };
        if column == Column::Metadata {
            // the target database writes its own metadata (height 0) with this commit
            continue;
        }
        let tree = changes.entry(column.id()).or_default();
        for kv in sess.on_chain.iter_store(column, None, None, IterDirection::Forward) {
            let (k, v) = kv.map_err(|e| e.to_string())?;
            tree.insert(k.into(), WriteOperation::Insert(v));
        }
    }
    let full = {
        let mut tx = target.read_transaction().with_changes(changes);
        tx.storage_as_mut::<StateTransitionBytecodeVersions>()
            .insert(&LATEST_STATE_TRANSITION_VERSION, &Bytes32::zeroed())
            .map_err(|e| e.to_string())?;
        tx.into_changes()
    };
    target.commit_changes(full).map_err(|e| e.to_string())?;
    sess.on_chain = target;
    let config = ExecConfig {
        forbid_fake_coins_default: sess.cfg.forbid_fake_coins,
        allow_syscall: false,
        native_executor_version: None,
        allow_historical_execution: true,
    };
    let exec = Arc::new(Executor::native(sess.on_chain.clone(), sess.relayer.clone(), config.clone()));
    sess.executor = Executor::native(sess.on_chain.clone(), sess.relayer.clone(), config);
    Ok(exec)
}

fn dump_session(sess: &ChainSession) -> Dump {
    let mut d = Dump::new();
    dump_on_chain(&sess.on_chain, &mut d, TAG_ON_CHAIN);
    dump_relayer(&sess.relayer, &mut d, TAG_RELAYER);
    d
}

// ------------------------------------------------------------------ leg a: requests

#[derive(Clone, Debug)]
struct Req {
    /// indices into the block plan's transaction list
    idx: Vec<usize>,
    height: Option<u32>,
    height_kind: &'static str,
    time: Option<u64>,
    utxo: Option<bool>,
    gas_price: Option<u64>,
    record: bool,
}

impl Req {
    fn json(&self, plan: &BlockPlan) -> Value {
        json!({
            "txs": self.idx.iter().map(|i| plan.txs[*i].label()).collect::<Vec<_>>(),
            "height": self.height, "height_kind": self.height_kind, "time": self.time,
            "utxo_validation": self.utxo, "gas_price": self.gas_price, "record_storage_reads": self.record,
        })
    }
}

fn gen_options(rng: &mut StdRng, plan: &BlockPlan, latest: u32, history: bool) -> Req {
    let (height, height_kind) = match rng.gen_range(0..100) {
        0..=34 => (None, "latest"),
        35..=59 => (Some(latest + 1), "next"),
        60..=94 if history && latest >= 1 => (Some(rng.gen_range(1..=latest)), "past"),
        60..=94 => (None, "latest"),
        _ => (Some(latest + 2 + rng.gen_range(0..3)), "future"),
    };
    Req {
        idx: vec![],
        height,
        height_kind,
        time: if chance(rng, 25) { Some(4_611_686_018_427_387_914 + 1_700_000_000 + rng.gen_range(0..100_000)) } else { None },
        utxo: *pick(rng, &[None, None, Some(true), Some(false)]),
        gas_price: *pick(rng, &[None, Some(plan.gas_price), Some(plan.gas_price), Some(0), Some(1)]),
        record: chance(rng, 30),
    }
}

fn gen_requests(rng: &mut StdRng, plan: &BlockPlan, latest: u32, history: bool) -> Vec<Req> {
    let mut out = Vec::new();
    let n = plan.txs.len();
    for i in 0..n {
        let mut r = gen_options(rng, plan, latest, history);
        r.idx = vec![i];
        out.push(r);
        // invalid / reverting / contract-missing shapes get a second look with other options
        let p = &plan.txs[i];
        let interesting = p.twist != Twist::None || p.script.as_ref().map(|s| s.terminal != chaingen::programs::Terminal::Ret).unwrap_or(false);
        if interesting || chance(rng, 30) {
            let mut r = gen_options(rng, plan, latest, history);
            r.idx = vec![i];
            out.push(r);
        }
    }
    if n >= 2 {
        for _ in 0..3 {
            let mut r = gen_options(rng, plan, latest, history);
            let k = rng.gen_range(2..=n.min(5));
            let start = rng.gen_range(0..=(n - k));
            r.idx = (start..start + k).collect();
            out.push(r);
        }
        let mut r = gen_options(rng, plan, latest, history);
        r.idx = (0..n).collect();
        out.push(r);
    }
    // an empty request
    let mut r = gen_options(rng, plan, latest, history);
    r.idx = vec![];
    out.push(r);
    out
}

/// Canonical digest + class of a dry-run answer.
fn answer_of(r: &anyhow::Result<DryRunResult>) -> (String, &'static str, usize) {
    match r {
        Ok(d) => {
            let txs: Vec<(Vec<u8>, String)> = d.transactions.iter().map(|(t, s)| (t.to_bytes(), format!("{s:?}"))).collect();
            let reads: Vec<(u32, Vec<u8>, Option<Vec<u8>>)> = d.storage_reads.iter().map(|e| (e.column, e.key.clone(), e.value.clone())).collect();
            let failed = d
                .transactions
                .iter()
                .any(|(_, s)| matches!(s.result, TransactionExecutionResult::Failed { .. }));
            let summary: Vec<String> = d
                .transactions
                .iter()
                .map(|(_, s)| match &s.result {
                    TransactionExecutionResult::Success { total_gas, .. } => format!("ok(gas {total_gas})"),
                    TransactionExecutionResult::Failed { total_gas, .. } => format!("failed(gas {total_gas})"),
                })
                .collect();
            (
                format!("ok {summary:?} reads={} digest={:016x}", reads.len(), hash64(&(txs, reads))),
                if failed { "reverted" } else { "success" },
                d.storage_reads.len(),
            )
        }
        Err(e) => (format!("err {e:#}"), "error", 0),
    }
}

fn produced_digest(p: &Produced) -> (String, u64, Vec<chaingen::CanonOp>) {
    let statuses: Vec<String> = p.tx_status.iter().map(|s| format!("{s:?}")).collect();
    let skipped: Vec<String> = p.skipped.iter().map(|(id, e)| format!("{id} {e:?}")).collect();
    (format!("{}", p.block.id()), hash64(&(statuses, skipped, format!("{:?}", p.events))), p.canon())
}

// ------------------------------------------------------------------ leg a: session

fn run_session(ctx: &Ctx, args: &Args, case: &Case, rng: &mut StdRng, blocks: u32) {
    let report = &ctx.report;
    let rt = tokio::runtime::Builder::new_current_thread().enable_all().build().expect("rt");
    let cfg = SessionConfig::random(rng);
    let mut sess = ChainSession::new(rng, cfg);
    let history = case.session % 2 == 0;
    let dir = args.scratch.join(format!("c45a-{}-{}-{}", case.seed, case.shard, case.session));
    let target = if history {
        let _ = std::fs::remove_dir_all(&dir);
        if let Err(e) = std::fs::create_dir_all(&dir) {
            report.inconclusive(format!("harness: scratch dir: {e}"));
            return;
        }
        match Database::<OnChain>::open_rocksdb(&dir, StateRewindPolicy::RewindFullRange, DatabaseConfig::config_for_tests()) {
            Ok(db) => db,
            Err(e) => {
                report.inconclusive(format!("harness: rocksdb: {e:?}"));
                return;
            }
        }
    } else {
        Database::<OnChain>::in_memory()
    };
    let exec = match rebase(&mut sess, target) {
        Ok(e) => e,
        Err(e) => {
            report.inconclusive(format!("harness: rebase failed: {e}"));
            return;
        }
    };
    report.count(if history { "c45.a.sessions.rocksdb_history" } else { "c45.a.sessions.in_memory" });
    let moving_relayer = MovingRelayer::default();
    let gate = Arc::new(Gate::default());
    let provider_price = *pick(rng, &[0u64, 1, 2]);
    let producer: RealProducer = Producer {
        config: Default::default(),
        view_provider: sess.on_chain.clone(),
        txpool: (),
        executor: Arc::new(DryRunExec(exec.clone(), gate.clone())),
        relayer: Box::new(moving_relayer.clone()),
        lock: Default::default(),
        gas_price_provider: StaticPrice(provider_price),
        chain_state_info_provider: ParamsFromDb(sess.on_chain.clone()),
    };
    let mut opt = GenOptions::default();
    opt.twist_permille = 260;
    opt.revert_heavy = case.session % 4 == 1;
    opt.txs = 3..=9;

    'blocks: for _ in 0..blocks {
        let plan = sess.gen_block_plan(rng, &opt);
        let latest = sess.height;
        // reference: the block as produced before any dry run
        let r0 = match catch(|| sess.produce_on(&exec, &plan, &plan.txs, SourceKind::Honest, false)) {
            Ok(Ok(p)) => p,
            Ok(Err(e)) => {
                report.count(&format!("c45.a.production_error.{}", exec_err_class(&e)));
                break;
            }
            Err(p) => {
                report.inconclusive(format!("panic during production: {p}"));
                break;
            }
        };
        let mut before = dump_session(&sess);
        moving_relayer.sync_info(&sess);
        let mut ops_log: Vec<Value> = Vec::new();
        let mut reqs = gen_requests(rng, &plan, latest, history);
        // bound the work per block
        reqs.truncate(26);
        let mut overlap_pairs_left = 6u32;
        let mut last_executed: Option<(Req, String)> = None;

        for req in &reqs {
            let txs: Vec<Transaction> = req.idx.iter().map(|i| plan.txs[*i].tx.clone()).collect();
            let call = || {
                rt.block_on(producer.dry_run(
                    txs.clone(),
                    req.height.map(BlockHeight::from),
                    req.time.map(Tai64),
                    req.utxo,
                    req.gas_price,
                    req.record,
                ))
            };
            // the relayer as seen through the producer's port: somewhere between the chain's DA
            // height and the last DA height whose events are in the relayer database
            let f1 = if chance(rng, 50) { sess.da_height } else { rng.gen_range(sess.da_height..=sess.relayer_tip) };
            moving_relayer.set_finalized(f1);
            let a1 = catch(call);
            // ... and between the two identical requests the relayer makes progress (the chain does not)
            let mut f2 = f1;
            let mut relayer_move = "unchanged";
            if chance(rng, 70) {
                if f1 == sess.relayer_tip || chance(rng, 25) {
                    relayer_syncs_one_more_height(&mut sess, rng);
                    moving_relayer.sync_info(&sess);
                    let rebased = dump_session(&sess);
                    if on_chain_part(&rebased) != on_chain_part(&before) {
                        // a dry run that changed the chain is reported below from `after`; here only
                        // the harness's own relayer write may have happened
                        report.count("c45.a.on_chain_changed_before_relayer_sync");
                    } else {
                        before = rebased;
                    }
                    relayer_move = "synced_new_da_height_and_finalized_advanced";
                } else {
                    relayer_move = "finalized_advanced";
                }
                f2 = if chance(rng, 50) { sess.relayer_tip } else { rng.gen_range(f1 + 1..=sess.relayer_tip) };
                moving_relayer.set_finalized(f2);
            }
            let a2 = catch(call);
            let (a1, a2) = match (a1, a2) {
                (Ok(a), Ok(b)) => (a, b),
                (Err(p), _) | (_, Err(p)) => {
                    report.inconclusive(format!("panic inside Producer::dry_run: {p}; request {}", req.json(&plan)));
                    report.count("c45.a.panics");
                    continue;
                }
            };
            // what lies between the chain's DA height and the relayer's second position
            let pending: Vec<&RelayerEvent> = ((sess.da_height + 1)..=f2).flat_map(|h| sess.relayer_events(h).iter()).collect();
            let pending_forced = pending.iter().any(|e| matches!(e, RelayerEvent::Transaction(_)));
            // ... and between the relayer's two positions (what a DA-height-following header would add)
            let forced_between = ((f1 + 1)..=f2)
                .flat_map(|h| sess.relayer_events(h).iter())
                .any(|e| matches!(e, RelayerEvent::Transaction(_)));
            let (d1, class, n_reads) = answer_of(&a1);
            let (mut d2, _, _) = answer_of(&a2);
            if ctx.st(2) {
                d2.push('x');
            }
            if ctx.st(6) && req.height_kind == "next" && f2 != f1 {
                // a wrapper whose answer depends on the relayer's position
                d2.push_str(&format!(" da<={}", f2 - f1));
            }
            let mut after = dump_session(&sess);
            if ctx.st(1) {
                if let Some((_, v)) = after.iter_mut().next() {
                    v.push(0);
                }
            }
            report.eval();
            let mut rj = req.json(&plan);
            rj["relayer"] = json!({"chain_da_height": sess.da_height, "finalized_at_first_request": f1, "finalized_at_second_request": f2,
                "move": relayer_move, "pending_events": pending.len(), "pending_forced_tx": pending_forced});
            ops_log.push(rj.clone());
            let replay = || case.replay(plan.height, json!({"requests": ops_log, "failing": rj}));

            // ---- oracle
            if let Some((cols, lines)) = diff_dumps(&before, &after) {
                ctx.violation(
                    &format!("a: dry_run_changed_state columns={cols}"),
                    format!("Producer::dry_run({}) answered `{d1}`; database before != after: {lines}", req.json(&plan)),
                    replay(),
                );
                break 'blocks;
            }
            if d1 != d2 {
                if f2 != f1 {
                    ctx.violation(
                        &format!("a: dry_run_answer_depends_on_relayer_progress height={}", req.height_kind),
                        format!(
                            "the same Producer::dry_run({}) on an unchanged chain (DA height {}) answered `{d1}` while the relayer was at DA height {f1} and `{d2}` after it had moved to {f2} ({relayer_move}; {} relayer events, forced transactions: {pending_forced}, between the chain's DA height and {f2})",
                            req.json(&plan),
                            sess.da_height,
                            pending.len()
                        ),
                        replay(),
                    );
                } else {
                    ctx.violation(
                        &format!("a: dry_run_not_repeatable answer={class}"),
                        format!("the same Producer::dry_run({}) on an unchanged chain answered `{d1}` and then `{d2}`", req.json(&plan)),
                        replay(),
                    );
                }
            }
            let moved = if f2 != f1 { "relayer_advanced" } else { "relayer_unchanged" };
            report.count(&format!("c45.a.repeat.{moved}.{}", req.height_kind));
            if f2 != f1 {
                report.count(&format!("c45.a.repeat.relayer_advanced.move.{relayer_move}"));
                if !pending.is_empty() {
                    report.count(&format!("c45.a.repeat.relayer_advanced.{}.pending_events", req.height_kind));
                }
                if pending_forced {
                    report.count(&format!("c45.a.repeat.relayer_advanced.{}.pending_forced_tx", req.height_kind));
                }
                if forced_between {
                    report.count(&format!("c45.a.repeat.relayer_advanced.{}.forced_tx_between_positions", req.height_kind));
                }
            }

            // ---- evidence
            let shape: Vec<String> = req.idx.iter().map(|i| plan.txs[*i].label()).collect();
            report.count(&format!("c45.a.answer.{class}"));
            report.count(&format!("c45.a.height.{}.{class}", req.height_kind));
            report.count(&format!("c45.a.utxo_validation.{}", match req.utxo { None => "default", Some(true) => "on", Some(false) => "off" }));
            report.count(&format!("c45.a.gas_price.{}", if req.gas_price.is_some() { "given" } else { "provider" }));
            report.count(if req.idx.len() == 1 { "c45.a.request.single_tx" } else if req.idx.is_empty() { "c45.a.request.empty" } else { "c45.a.request.group" });
            if req.record {
                report.count("c45.a.record_storage_reads.on");
                if n_reads > 0 {
                    report.count("c45.a.record_storage_reads.nonempty");
                }
            }
            if let Err(e) = &a1 {
                report.count(&format!("c45.a.error.{}", err_class(&format!("{e:#}"))));
            }
            for i in &req.idx {
                let p = &plan.txs[*i];
                if p.twist != Twist::None {
                    report.count(&format!("c45.a.twist.{:?}.{class}", p.twist));
                }
                if p.uses_message {
                    report.count(&format!("c45.a.tx_with_message_input.{class}"));
                }
            }
            if class != "success" || req.height_kind == "past" || shape.iter().any(|s| s.contains("call_") || s.contains("+msg")) {
                report.distinct(&("a", req.height_kind, req.utxo, req.gas_price.is_some(), req.record, shape.clone(), class));
            }
            if report.wants_sample() && class != "success" && chance(rng, 2) {
                report.sample(json!({"leg": "a", "request": req.json(&plan), "answer": d1}));
            }

            // ---- the same request twice, CONCURRENTLY: both calls are held inside the executor port
            // until both are there; each answer must equal the sequential one
            if class != "error" {
                last_executed = Some((req.clone(), d1.clone()));
                if overlap_pairs_left > 0 && chance(rng, 40) {
                    overlap_pairs_left -= 1;
                    gate.arm(2);
                    let both = catch(|| {
                        rt.block_on(async {
                            let a = producer.dry_run(txs.clone(), req.height.map(BlockHeight::from), req.time.map(Tai64), req.utxo, req.gas_price, req.record);
                            let b = producer.dry_run(txs.clone(), req.height.map(BlockHeight::from), req.time.map(Tai64), req.utxo, req.gas_price, req.record);
                            tokio::join!(a, b)
                        })
                    });
                    let together = gate.disarm();
                    match both {
                        Ok((x, y)) => {
                            report.eval();
                            report.count(if together >= 2 { "c45.a.overlap.dry_run_pairs_inside_executor_together" } else { "c45.a.overlap.dry_run_pairs_not_together" });
                            report.count(&format!("c45.a.overlap.dry_run_pairs.{}", req.height_kind));
                            let (dx, _, _) = answer_of(&x);
                            let (mut dy, _, _) = answer_of(&y);
                            if ctx.st(7) {
                                dy.push('x');
                            }
                            if dx != d1 || dy != d1 {
                                ctx.violation(
                                    "a: overlapping_dry_runs_differ_from_sequential_answer",
                                    format!(
                                        "Producer::dry_run({}) answered `{d1}` alone; two such calls overlapping in time ({together} of 2 were inside the executor together) answered `{dx}` and `{dy}`",
                                        req.json(&plan)
                                    ),
                                    replay(),
                                );
                            }
                            let after = dump_session(&sess);
                            if let Some((cols, lines)) = diff_dumps(&before, &after) {
                                ctx.violation(
                                    &format!("a: dry_run_changed_state columns={cols}"),
                                    format!("two overlapping Producer::dry_run({}): database before != after: {lines}", req.json(&plan)),
                                    replay(),
                                );
                                break 'blocks;
                            }
                        }
                        Err(p) => report.inconclusive(format!("panic inside overlapping Producer::dry_run: {p}")),
                    }
                }
            }
        }

        // ---- a real production of the next block (through the real Producer, not committed) that
        // overlaps an in-flight dry run: same outcome as the production alone, same dry-run answer
        if let Some((req, d_seq)) = last_executed.take() {
            let txs: Vec<Transaction> = req.idx.iter().map(|i| plan.txs[*i].tx.clone()).collect();
            let block_txs: Vec<Transaction> = plan.txs.iter().map(|p| p.tx.clone()).collect();
            let time = Tai64(4_611_686_018_427_387_914 + 1_700_000_000 + plan.height as u64 * 7);
            let height = BlockHeight::from(plan.height);
            moving_relayer.set_finalized(if chance(rng, 70) { sess.da_height } else { rng.gen_range(sess.da_height..=sess.relayer_tip) });
            let prod_digest = |r: &anyhow::Result<UncommittedResult<Changes>>| match r {
                Ok(u) => {
                    let res = u.result();
                    let statuses: Vec<String> = res.tx_status.iter().map(|s| format!("{s:?}")).collect();
                    format!("ok block {} skipped {} digest {:016x}", res.block.id(), res.skipped_transactions.len(), hash64(&(statuses, format!("{:?}", res.events))))
                }
                Err(e) => format!("err {e:#}"),
            };
            let alone = catch(|| rt.block_on(producer.produce_and_execute_block_transactions(height, time, block_txs.clone())));
            for dry_run_first in [true, false] {
                gate.arm(2);
                let both = catch(|| {
                    rt.block_on(async {
                        let d = producer.dry_run(txs.clone(), req.height.map(BlockHeight::from), req.time.map(Tai64), req.utxo, req.gas_price, req.record);
                        let p = producer.produce_and_execute_block_transactions(height, time, block_txs.clone());
                        if dry_run_first {
                            tokio::join!(d, p)
                        } else {
                            let (p, d) = tokio::join!(p, d);
                            (d, p)
                        }
                    })
                });
                let together = gate.disarm();
                let (Ok(alone), Ok((d, p))) = (&alone, &both) else {
                    report.inconclusive("panic inside Producer during overlapping production / dry run");
                    break;
                };
                report.eval();
                let order = if dry_run_first { "dry_run_started_first" } else { "production_started_first" };
                report.count(&format!("c45.a.overlap.production_with_dry_run.{order}"));
                if together >= 2 {
                    report.count("c45.a.overlap.production_with_dry_run_inside_executor_together");
                }
                let (p_alone, p_over) = (prod_digest(alone), prod_digest(p));
                report.count(if p.is_ok() { "c45.a.overlap.production_ok" } else { "c45.a.overlap.production_err" });
                let (mut d_over, _, _) = answer_of(d);
                if ctx.st(7) {
                    d_over.push('x');
                }
                let replay = || case.replay(plan.height, json!({"requests": ops_log, "failing": {"overlap": order, "dry_run": req.json(&plan)}}));
                if p_alone != p_over {
                    ctx.violation(
                        "a: production_overlapping_dry_run_differs_from_production_alone",
                        format!(
                            "producing block {} through Producer::produce_and_execute_block_transactions alone: `{p_alone}`; while Producer::dry_run({}) was in flight ({order}, {together} of 2 inside the executor together): `{p_over}`",
                            plan.height,
                            req.json(&plan)
                        ),
                        replay(),
                    );
                }
                if d_over != d_seq {
                    ctx.violation(
                        "a: dry_run_overlapping_production_differs_from_sequential_answer",
                        format!(
                            "Producer::dry_run({}) answered `{d_seq}` alone and `{d_over}` while the next block was being produced ({order}, {together} of 2 inside the executor together)",
                            req.json(&plan)
                        ),
                        replay(),
                    );
                }
                let after = dump_session(&sess);
                if let Some((cols, lines)) = diff_dumps(&before, &after) {
                    ctx.violation(
                        &format!("a: dry_run_changed_state columns={cols}"),
                        format!("dry run overlapping an (uncommitted) production: database before != after: {lines}"),
                        replay(),
                    );
                    break 'blocks;
                }
            }
        }

        // ---- executor-level dry run of the whole block (uncommitted changes are returned and dropped)
        let e1 = catch(|| sess.produce_on(&exec, &plan, &plan.txs, SourceKind::Honest, true));
        let e2 = catch(|| sess.produce_on(&exec, &plan, &plan.txs, SourceKind::Honest, true));
        if let (Ok(Ok(p1)), Ok(Ok(p2))) = (&e1, &e2) {
            report.eval();
            report.count("c45.a.executor_dry_run_with_source");
            let after = dump_session(&sess);
            let replay = || case.replay(plan.height, json!({"requests": ops_log, "failing": "Executor::dry_run_without_commit_with_source(whole block)"}));
            if let Some((cols, lines)) = diff_dumps(&before, &after) {
                ctx.violation(
                    &format!("a: executor_dry_run_changed_state columns={cols}"),
                    format!("dry_run_without_commit_with_source of block {}: database before != after: {lines}", plan.height),
                    replay(),
                );
                break;
            }
            if produced_digest(p1) != produced_digest(p2) {
                ctx.violation(
                    "a: executor_dry_run_not_repeatable",
                    format!("block {}: two dry_run_without_commit_with_source calls on an unchanged chain differ: {:?}", plan.height, chaingen::diff_changes(&p1.canon(), &p2.canon())),
                    replay(),
                );
            }
        }

        // ---- as if never dry-run: the same production again
        let r1 = match catch(|| sess.produce_on(&exec, &plan, &plan.txs, SourceKind::Honest, false)) {
            Ok(Ok(p)) => p,
            Ok(Err(e)) => {
                ctx.violation(
                    "a: production_after_dry_runs_fails",
                    format!("block {} could be produced before its dry runs but fails after them: {e:?}", plan.height),
                    case.replay(plan.height, json!({"requests": ops_log})),
                );
                break;
            }
            Err(p) => {
                report.inconclusive(format!("panic during production: {p}"));
                break;
            }
        };
        report.eval();
        report.count("c45.a.blocks_produced_before_and_after_dry_runs");
        report.add("c45.a.txs_executed_after_dry_run", r1.tx_status.len().saturating_sub(1) as u64);
        let (id0, h0, c0) = produced_digest(&r0);
        let (id1, h1, mut c1) = produced_digest(&r1);
        if ctx.st(3) {
            c1.pop();
        }
        if id0 != id1 || h0 != h1 || c0 != c1 {
            ctx.violation(
                "a: production_after_dry_runs_differs",
                format!(
                    "block {}: produced before the dry runs: id {id0}, after: id {id1}; statuses/skipped/events equal: {}; first storage difference: {:?}",
                    plan.height,
                    h0 == h1,
                    chaingen::diff_changes(&c0, &c1)
                ),
                case.replay(plan.height, json!({"requests": ops_log})),
            );
            break;
        }
        if let Err(e) = commit_block(&mut sess, &plan, &r1) {
            report.inconclusive(format!("commit failed: {e}"));
            break;
        }
        report.count("c45.a.blocks");
    }
    report.add("c45.a.relayer_port_calls_during_dry_runs", moving_relayer.calls());
    drop(producer);
    drop(exec);
    drop(sess);
    if history {
        let _ = std::fs::remove_dir_all(&dir);
    }
}

// ------------------------------------------------------------------ leg b: node

struct NodeCtx<'a> {
    ctx: &'a Ctx,
    node: &'a Node,
    before: Dump,
    log: Vec<String>,
    seed: u64,
    idx: u64,
    round: u32,
}

impl NodeCtx<'_> {
    fn replay(&self) -> Value {
        json!({"leg": "node", "seed": self.seed, "node": self.idx, "round": self.round, "ops": self.log})
    }

    /// dumps before == after, else violation; returns false if the state changed
    fn check_unchanged(&mut self, what: &str, endpoint: &str) -> bool {
        let mut after = self.node.dump();
        if self.ctx.st(4) {
            if let Some((_, v)) = after.iter_mut().next() {
                v.push(0);
            }
        }
        self.ctx.report.eval();
        if let Some((cols, lines)) = diff_dumps(&self.before, &after) {
            self.ctx.violation(
                &format!("b: {endpoint}_changed_state columns={cols}"),
                format!("after {what}: node databases before != after: {lines}"),
                self.replay(),
            );
            // continue from the new state so that one leak is reported once
            self.before = after;
            return false;
        }
        true
    }

    /// identical requests, identical answers
    fn check_same(&mut self, endpoint: &str, what: &str, a: &str, b: &str) {
        let b = if self.ctx.st(5) { format!("{b}x") } else { b.to_string() };
        if a != b {
            self.ctx.violation(
                &format!("b: {endpoint}_not_repeatable"),
                format!("{what} on an unchanged chain answered `{}` and then `{}`", clip(a), clip(&b)),
                self.replay(),
            );
        }
    }
}

fn clip(s: &str) -> String {
    if s.len() > 600 { format!("{}..({} chars)", &s[..600], s.len()) } else { s.to_string() }
}

fn status_class<T: std::fmt::Debug>(r: &std::io::Result<Vec<T>>) -> &'static str {
    match r {
        Ok(v) => {
            let s = format!("{v:?}");
            if s.contains("Failed") { "reverted" } else { "success" }
        }
        Err(_) => "error",
    }
}

fn render<T: std::fmt::Debug>(r: &std::io::Result<T>) -> String {
    match r {
        Ok(v) => format!("ok {v:?}"),
        Err(e) => format!("err {e}"),
    }
}

fn spent_like(err: &str) -> bool {
    err.contains("was already spent") || (err.contains("UTXO") && err.contains("does not exist")) || err.contains("does not match any received message")
}

/// Spendable inputs (coins and messages) of a transaction, as bytes.
fn input_ids(tx: &Transaction) -> Vec<Vec<u8>> {
    use fuel_core_types::blockchain::transaction::TransactionExt;
    tx.inputs()
        .iter()
        .filter_map(|i| {
            i.utxo_id()
                .map(|u| {
                    let mut v = u.tx_id().to_vec();
                    v.extend_from_slice(&u.output_index().to_be_bytes());
                    v
                })
                .filter(|_| i.is_coin())
                .or_else(|| i.nonce().map(|n| n.to_vec()))
        })
        .collect()
}

fn sign_all(tx: &mut Transaction, sess: &ChainSession) {
    for o in &sess.owners {
        match tx {
            Transaction::Script(t) => t.sign_inputs(&o.secret, &sess.chain_id),
            Transaction::Create(t) => t.sign_inputs(&o.secret, &sess.chain_id),
            Transaction::Upgrade(t) => t.sign_inputs(&o.secret, &sess.chain_id),
            Transaction::Upload(t) => t.sign_inputs(&o.secret, &sess.chain_id),
            Transaction::Blob(t) => t.sign_inputs(&o.secret, &sess.chain_id),
            Transaction::Mint(_) => {}
        }
    }
}

async fn node_leg(ctx: &Ctx, args: &Args, rounds: u32, idx: u64) {
    let report = &ctx.report;
    let mut rng = rng_for(args.seed, &[tag("c45-node"), idx]);
    let mut cfg = SessionConfig::random(&mut rng);
    cfg.genesis_da_height = 0;
    let mut sess = ChainSession::new(&mut rng, cfg);
    let dir = args.scratch.join(format!("c45-node-{idx}"));
    let node = match Node::start(&mut sess, &dir).await {
        Ok(n) => n,
        Err(e) => {
            report.inconclusive(format!("node leg: {e}"));
            return;
        }
    };
    let client = &node.client;
    let base = sess.base_asset();
    let mut opt = GenOptions::default();
    opt.relayer_events = false;
    opt.max_da_advance = 0;
    opt.upgrades = false;
    opt.twist_permille = 230;
    opt.txs = 4..=8;
    let mut included: Vec<fuel_core_types::fuel_tx::TxId> = Vec::new();
    // inputs of every transaction the pool accepted so far: the pool remembers the inputs of
    // executed transactions as spent (also a data message of a reverted transaction, which stays
    // unspent on chain), so a later refusal of such an input says nothing about the dry runs
    let mut seen_by_pool: std::collections::HashSet<Vec<u8>> = Default::default();
    let t0 = std::time::Instant::now();
    let page = |n: i32| PaginationRequest::<String> {
        cursor: None,
        results: n,
        direction: PageDirection::Forward,
    };

    for round in 1..=rounds {
        opt.revert_heavy = round % 3 == 0;
        let plan = sess.gen_block_plan(&mut rng, &opt);
        if !node.quiesce().await {
            report.inconclusive("node leg: node not quiescent");
            break;
        }
        let latest = node.on_chain_height().unwrap_or(0);
        let mut nc = NodeCtx {
            ctx,
            node: &node,
            before: node.dump(),
            log: Vec::new(),
            seed: args.seed,
            idx,
            round,
        };
        let mut valid_now: Vec<&PlannedTx> = Vec::new();

        for p in &plan.txs {
            let tx = p.tx.clone();
            let label = p.label();
            // A: plain dry run (node defaults: utxo validation on, node gas price, latest height)
            let a1 = client.dry_run(std::slice::from_ref(&tx)).await;
            let a2 = client.dry_run(std::slice::from_ref(&tx)).await;
            let class = status_class(&a1);
            nc.log.push(format!("dry_run({label}) -> {class}"));
            nc.check_same("dry_run", &format!("dry_run({label})"), &render(&a1), &render(&a2));
            report.count(&format!("c45.b.dry_run.{class}"));
            report.count(&format!("c45.b.answers.{class}"));
            if let Err(e) = &a1 {
                report.count(&format!("c45.b.dry_run.error.{}", err_class(&e.to_string())));
            }
            if p.twist != Twist::None {
                report.count(&format!("c45.b.twist.{:?}.{class}", p.twist));
            }
            if a1.is_ok() {
                valid_now.push(p);
            }
            report.distinct(&("b", "dry_run", label.clone(), class));

            // B: options
            let utxo = *pick(&mut rng, &[Some(true), Some(false), None]);
            let gp = *pick(&mut rng, &[None, Some(0u64), Some(1), Some(plan.gas_price)]);
            let b1 = client.dry_run_opt(std::slice::from_ref(&tx), utxo, gp, None).await;
            let b2 = client.dry_run_opt(std::slice::from_ref(&tx), utxo, gp, None).await;
            let bclass = status_class(&b1);
            nc.log.push(format!("dry_run_opt({label}, utxo {utxo:?}, gas price {gp:?}) -> {bclass}"));
            nc.check_same("dry_run_opt", &format!("dry_run_opt({label}, utxo_validation {utxo:?}, gas_price {gp:?})"), &render(&b1), &render(&b2));
            report.count(&format!("c45.b.answers.{bclass}"));
            report.count(&format!("c45.b.dry_run_opt.utxo_{}.{bclass}", match utxo { Some(true) => "on", Some(false) => "off", None => "default" }));
            report.distinct(&("b", "dry_run_opt", utxo, gp.is_some(), label.clone(), bclass));

            // C: at a height (past heights need history; next == latest + 1)
            if latest >= 1 {
                let h = rng.gen_range(1..=latest + 1);
                let kind = if h == latest + 1 { "next" } else { "past" };
                let c1 = client.dry_run_opt(std::slice::from_ref(&tx), None, None, Some(h.into())).await;
                let c2 = client.dry_run_opt(std::slice::from_ref(&tx), None, None, Some(h.into())).await;
                let cclass = status_class(&c1);
                nc.log.push(format!("dry_run_opt({label}, at height {h} of {latest}) -> {cclass}"));
                nc.check_same("dry_run_at_height", &format!("dry_run_opt({label}, at_height {h}, chain at {latest})"), &render(&c1), &render(&c2));
                report.count(&format!("c45.b.answers.{cclass}"));
                report.count(&format!("c45.b.dry_run_at_height.{kind}.{cclass}"));
                report.distinct(&("b", "at_height", kind, label.clone(), cclass));
            }

            // D: with storage-read recording
            if chance(&mut rng, 40) {
                let d1 = client.dry_run_opt_record_storage_reads(std::slice::from_ref(&tx), None, None, None).await;
                let d2 = client.dry_run_opt_record_storage_reads(std::slice::from_ref(&tx), None, None, None).await;
                let n_reads = d1.as_ref().map(|(_, r)| r.len()).unwrap_or(0);
                nc.log.push(format!("dry_run_record_storage_reads({label}) -> {n_reads} reads"));
                let f = |r: &std::io::Result<(Vec<_>, Vec<fuel_core_types::services::executor::StorageReadReplayEvent>)>| match r {
                    Ok((s, reads)) => format!("ok {s:?} {:016x}", hash64(&reads.iter().map(|e| (e.column, e.key.clone(), e.value.clone())).collect::<Vec<_>>())),
                    Err(e) => format!("err {e}"),
                };
                nc.check_same("dry_run_record_storage_reads", &format!("dry_run_opt_record_storage_reads({label})"), &f(&d1), &f(&d2));
                report.count(if n_reads > 0 { "c45.b.record_storage_reads.nonempty" } else { "c45.b.record_storage_reads.empty_or_error" });
            }

            // E: estimate predicates
            if p.uses_predicate || chance(&mut rng, 20) {
                let mut t1 = tx.clone();
                let mut t2 = tx.clone();
                let e1 = client.estimate_predicates(&mut t1).await;
                let e2 = client.estimate_predicates(&mut t2).await;
                let f = |r: &std::io::Result<()>, t: &Transaction| match r {
                    Ok(()) => format!("ok {:016x}", hash64(&t.to_bytes())),
                    Err(e) => format!("err {e}"),
                };
                nc.log.push(format!("estimate_predicates({label}) -> {}", if e1.is_ok() { "ok" } else { "error" }));
                nc.check_same("estimate_predicates", &format!("estimate_predicates({label})"), &f(&e1, &t1), &f(&e2, &t2));
                report.count(&format!("c45.b.estimate_predicates.{}{}", if p.uses_predicate { "with_predicate." } else { "" }, if e1.is_ok() { "ok" } else { "error" }));
            }
            nc.check_unchanged(&format!("the dry runs / predicate estimation of {label}"), "dry_run");
        }

        // group dry run
        if valid_now.len() >= 2 {
            let txs: Vec<Transaction> = valid_now.iter().take(4).map(|p| p.tx.clone()).collect();
            let g1 = client.dry_run(&txs).await;
            let g2 = client.dry_run(&txs).await;
            let gclass = status_class(&g1);
            nc.log.push(format!("dry_run(group of {}) -> {gclass}", txs.len()));
            nc.check_same("dry_run", &format!("dry_run(group of {})", txs.len()), &render(&g1), &render(&g2));
            report.count(&format!("c45.b.answers.{gclass}"));
            report.count(&format!("c45.b.dry_run_group.{gclass}"));
            nc.check_unchanged("a group dry run", "dry_run");
        }

        // assemble_tx (+ its internal dry runs / predicate estimation / coin selection)
        let payer = &sess.owners[rng.gen_range(0..sess.owners.len())];
        let recipient = sess.owners[rng.gen_range(0..sess.owners.len())].address;
        let skeleton: Transaction = Transaction::script(0, vec![], vec![], Policies::new(), vec![], vec![Output::coin(recipient, rng.gen_range(1..5000), base)], vec![]).into();
        let required = vec![RequiredBalance {
            asset_id: base,
            amount: 5000,
            account: Account::Address(payer.address),
            change_policy: ChangePolicy::Change(payer.address),
        }];
        let as1 = client.assemble_tx(&skeleton, 1, required.clone(), 0, None, true, None).await;
        let _as2 = client.assemble_tx(&skeleton, 1, required.clone(), 0, None, true, None).await;
        nc.log.push(format!("assemble_tx(transfer from owner) -> {}", if as1.is_ok() { "ok" } else { "error" }));
        report.count(&format!("c45.b.assemble_tx.{}", if as1.is_ok() { "ok" } else { "error" }));
        if let Err(e) = &as1 {
            report.count(&format!("c45.b.assemble_tx.error.{}", err_class(&e.to_string())));
        }
        nc.check_unchanged("assemble_tx", "assemble_tx");

        // read-only queries, each twice
        {
            let o = &sess.owners[rng.gen_range(0..sess.owners.len())].address;
            let c = &sess.contracts[rng.gen_range(0..sess.contracts.len())].id;
            macro_rules! twice {
                ($name:expr, $call:expr) => {{
                    let r1 = $call.await;
                    let r2 = $call.await;
                    report.count(&format!("c45.b.query.{}.{}", $name, if r1.is_ok() { "ok" } else { "error" }));
                    nc.check_same(&format!("query_{}", $name), $name, &render(&r1), &render(&r2));
                }};
            }
            twice!("balance", client.balance(o, Some(&base)));
            twice!("balances", client.balances(o, page(10)));
            twice!("coins", client.coins(o, None, page(10)));
            twice!("messages", client.messages(Some(o), page(10)));
            twice!("chain_info", client.chain_info());
            twice!("block_by_height", client.block_by_height(latest.into()));
            twice!("contract_balances", client.contract_balances(c, page(10)));
            twice!("contract_balance", client.contract_balance(c, Some(&base)));
            twice!("latest_gas_price", client.latest_gas_price());
            if let Some(id) = included.last() {
                twice!("transaction", client.transaction(id));
                twice!("transaction_status", client.transaction_status(id));
                twice!("receipts", client.receipts(id));
            }
            // randomised selection: only side effects are judged
            let r = client.coins_to_spend(o, vec![(base, 1000, None)], None).await;
            report.count(&format!("c45.b.query.coins_to_spend.{}", if r.is_ok() { "ok" } else { "error" }));
            nc.log.push("read-only queries".into());
            nc.check_unchanged("read-only queries", "query");
        }

        // ---- the pool still accepts what was dry-run (inputs not marked spent)
        let mut accepted: Vec<(fuel_core_types::fuel_tx::TxId, String)> = Vec::new();
        for p in &valid_now {
            let ids = input_ids(&p.tx);
            let fresh = ids.iter().all(|i| !seen_by_pool.contains(i));
            match client.submit(&p.tx).await {
                Ok(_) => {
                    report.count("c45.b.submit_after_dry_run.accepted");
                    if fresh {
                        report.count("c45.b.submit_after_dry_run.accepted_with_fresh_inputs");
                    }
                    accepted.push((p.id, p.label()));
                    seen_by_pool.extend(ids);
                }
                Err(e) => {
                    let text = e.to_string();
                    report.count(&format!("c45.b.submit_after_dry_run.rejected.{}", err_class(&text)));
                    if spent_like(&text) && !fresh {
                        report.count("c45.b.submit_after_dry_run.not_judged_input_known_to_pool");
                    }
                    if spent_like(&text) && fresh {
                        nc.log.push(format!("submit({}) -> {text}", p.label()));
                        ctx.violation(
                            "b: pool_rejects_dry_run_tx_as_spent",
                            format!(
                                "{} was dry-run successfully (UTXO validation on), none of its inputs was ever part of a transaction given to the pool, and it is refused by the pool: {text}",
                                p.label()
                            ),
                            nc.replay(),
                        );
                    }
                }
            }
        }
        if let Ok(assembled) = as1 {
            let mut tx = assembled.transaction;
            sign_all(&mut tx, &sess);
            let ids = input_ids(&tx);
            let fresh = ids.iter().all(|i| !seen_by_pool.contains(i));
            match client.submit(&tx).await {
                Ok(_) => {
                    report.count("c45.b.submit_assembled.accepted");
                    accepted.push((tx.id(&sess.chain_id), "assembled transfer".into()));
                    seen_by_pool.extend(ids);
                }
                Err(e) => {
                    let text = e.to_string();
                    report.count(&format!("c45.b.submit_assembled.rejected.{}", err_class(&text)));
                    if spent_like(&text) && fresh {
                        ctx.violation(
                            "b: pool_rejects_assembled_tx_as_spent",
                            format!("the transaction returned by assemble_tx (inputs never given to the pool before) is refused by the pool: {text}"),
                            nc.replay(),
                        );
                    }
                }
            }
        }
        drop(nc);

        // ---- produce the block, look at what happened to the accepted transactions
        if let Err(e) = client.produce_blocks(1, None).await {
            report.inconclusive(format!("node leg: produce_blocks failed: {e}"));
            break;
        }
        if !node.quiesce().await {
            report.inconclusive("node leg: off-chain worker did not catch up");
            break;
        }
        sess.height = node.on_chain_height().unwrap_or(0);
        report.count("c45.b.blocks");
        for (id, _label) in &accepted {
            match client.transaction_status(id).await {
                Ok(s) => {
                    let s = format!("{s:?}");
                    let kind = s.split(|c: char| !c.is_alphanumeric()).next().unwrap_or("").to_string();
                    report.count(&format!("c45.b.after_block.{kind}"));
                    if kind == "Success" || kind == "Failure" {
                        included.push(*id);
                    }
                }
                Err(_) => report.count("c45.b.after_block.status_unknown"),
            }
        }
    }
    report.info(&format!("c45.b.node{idx}.wall_s"), json!(t0.elapsed().as_secs_f64()));
    let _ = node.srv.send_stop_signal_and_await_shutdown().await;
}

fn run_node_legs(ctx: &Ctx, args: &Args, nodes: u64, rounds: u32, only: Option<u64>) {
    let rt = match tokio::runtime::Builder::new_multi_thread().worker_threads(3).enable_all().build() {
        Ok(rt) => rt,
        Err(e) => {
            ctx.report.inconclusive(format!("node leg: no runtime: {e}"));
            return;
        }
    };
    for idx in 0..nodes {
        if only.map(|o| o != idx).unwrap_or(false) {
            continue;
        }
        if let Err(p) = catch(|| rt.block_on(node_leg(ctx, args, rounds, idx))) {
            ctx.report.inconclusive(format!("node leg: harness panic: {p}"));
        }
    }
    rt.shutdown_timeout(std::time::Duration::from_secs(2));
}

// ------------------------------------------------------------------ entry

pub fn run(args: &Args, report: &Report) -> (&'static str, bool, Vec<&'static str>) {
    let ctx = Ctx::new(args, report);
    let replaying = read_replay(args);
    let node_replay = replaying.as_ref().map(|r| r.get("leg").and_then(|l| l.as_str()) == Some("node")).unwrap_or(false);

    let node_thread = if replaying.is_none() || node_replay {
        let ctx2 = ctx.clone();
        let mut args2 = args.clone();
        if let Some(s) = replaying.as_ref().and_then(|r| r.get("seed")).and_then(|s| s.as_u64()) {
            args2.seed = s;
        }
        let nodes = args.by_tier(2u64, 4);
        let only = replaying.as_ref().and_then(|r| r.get("node")).and_then(|n| n.as_u64());
        let rounds = args.by_tier(12u32, 16);
        Some(
            std::thread::Builder::new()
                .stack_size(64 << 20)
                .spawn(move || run_node_legs(&ctx2, &args2, nodes.max(only.map(|o| o + 1).unwrap_or(0)), rounds, only))
                .expect("spawn"),
        )
    } else {
        None
    };

    if !node_replay {
        let shards = args.by_tier(16usize, 32);
        let sessions = args.by_tier(6usize, 30);
        let blocks = args.by_tier(6u32, 8);
        let c = ctx.clone();
        let a = args.clone();
        for_each_session(args, report, shards, sessions, move |case, rng| run_session(&c, &a, case, rng, blocks));
    }
    if let Some(t) = node_thread {
        if t.join().is_err() {
            report.inconclusive("node leg thread panicked");
        }
    }

    if replaying.is_none() && ctx.selftest == 0 {
        // observed at quick seed 1: about 2x the figures below
        let k = args.by_tier(1u64, 8);
        for (key, min) in [
            ("c45.a.blocks", 380u64),
            ("c45.a.answer.success", 1200),
            ("c45.a.answer.reverted", 1100),
            ("c45.a.answer.error", 1900),
            ("c45.a.height.past.success", 150),
            ("c45.a.height.past.reverted", 60),
            ("c45.a.height.past.error", 200),
            ("c45.a.height.next.success", 300),
            ("c45.a.repeat.relayer_advanced.next", 800),
            ("c45.a.repeat.relayer_advanced.next.pending_events", 500),
            ("c45.a.repeat.relayer_advanced.next.pending_forced_tx", 200),
            ("c45.a.repeat.relayer_advanced.next.forced_tx_between_positions", 100),
            ("c45.a.repeat.relayer_advanced.latest.forced_tx_between_positions", 200),
            ("c45.a.repeat.relayer_advanced.latest", 1000),
            ("c45.a.repeat.relayer_advanced.past", 300),
            ("c45.a.repeat.relayer_unchanged.next", 250),
            ("c45.a.overlap.dry_run_pairs_inside_executor_together", 1000),
            ("c45.a.overlap.production_with_dry_run_inside_executor_together", 400),
            ("c45.a.overlap.production_ok", 500),
            ("c45.a.utxo_validation.off", 1000),
            ("c45.a.utxo_validation.on", 1000),
            ("c45.a.record_storage_reads.nonempty", 700),
            ("c45.a.request.group", 1100),
            ("c45.a.twist.UnknownContract.error", 60),
            ("c45.a.tx_with_message_input.success", 200),
            ("c45.a.executor_dry_run_with_source", 380),
            ("c45.a.blocks_produced_before_and_after_dry_runs", 380),
            ("c45.a.txs_executed_after_dry_run", 1200),
        ] {
            report.require(key, min * k);
        }
        let n = args.by_tier(2u64, 4);
        for (key, min) in [
            ("c45.b.blocks", 7u64),
            ("c45.b.answers.success", 40),
            ("c45.b.answers.reverted", 25),
            ("c45.b.answers.error", 12),
            ("c45.b.dry_run_at_height.past.success", 4),
            ("c45.b.record_storage_reads.nonempty", 6),
            ("c45.b.submit_after_dry_run.accepted_with_fresh_inputs", 15),
            ("c45.b.assemble_tx.ok", 4),
            ("c45.b.query.balance.ok", 7),
        ] {
            report.require(key, min * n);
        }
    }
    (RULE, false, assumptions())
}
