//! C38, end-to-end leg: the same enumeration property through GraphQL on an
//! in-process node (`FuelService` + `FuelClient`), for the `coins`, `messages` and
//! `blocks` connections, page sizes 1..=4 and one larger than the collection, both
//! directions. The collections are known to the harness because it wrote the genesis
//! state (coins / messages of one owner among other owners') and asked for the blocks.
//!
//! Everything that fails before a page was received (node does not start, request
//! error) is *inconclusive*, never a violation.

use fuel_core::{
    chain_config::{
        CoinConfig,
        MessageConfig,
        StateConfig,
    },
    database::Database,
    service::{
        Config,
        FuelService,
    },
};
use fuel_core_client::client::{
    FuelClient,
    pagination::{
        PageDirection,
        PaginatedResult,
        PaginationRequest,
    },
};
use fuel_core_types::{
    blockchain::primitives::DaBlockHeight,
    fuel_tx::{
        Address,
        AssetId,
        Bytes32,
    },
    fuel_types::Nonce,
};
use serde_json::json;
use vcommon::*;

const N_COINS: u16 = 7;
const N_MESSAGES: u8 = 5;
const N_BLOCKS: u32 = 6;

struct Walk<'a> {
    report: &'a Report,
    prefix: &'a str,
    perturb: u32,
}

impl Walk<'_> {
    /// follow cursors through one connection; `fetch` performs one page request and
    /// renders the entries as strings
    async fn run<F, Fut>(&self, what: &str, expected_fwd: &[String], page: i32, dir: PageDirection, fetch: F)
    where
        F: Fn(PaginationRequest<String>) -> Fut,
        Fut: std::future::Future<Output = std::io::Result<PaginatedResult<String, String>>>,
    {
        let d = if dir == PageDirection::Forward { "fwd" } else { "bwd" };
        let mut expected: Vec<String> = expected_fwd.to_vec();
        if dir == PageDirection::Backward {
            expected.reverse();
        }
        let mut cursor: Option<String> = None;
        let mut collected: Vec<String> = Vec::new();
        let mut trail = Vec::new();
        let max_pages = expected.len().div_ceil(page as usize) + 2;
        let replay = json!({"e2e": what, "dir": d, "page": page});
        for _ in 0..max_pages {
            let res = fetch(PaginationRequest {
                cursor: cursor.clone(),
                results: page,
                direction: dir,
            })
            .await;
            let mut res = match res {
                Ok(r) => r,
                Err(e) => {
                    self.report
                        .inconclusive(format!("e2e {what} {d} page={page}: request failed: {e}"));
                    return;
                }
            };
            if self.perturb == 1 && res.results.len() >= 2 {
                res.results.pop();
            }
            if self.perturb == 2 {
                res.has_next_page = !res.has_next_page;
            }
            self.report.count(&format!("c38.e2e.pages.{what}"));
            trail.push(json!({"cursor": cursor, "got": res.results.len(), "has_next": res.has_next_page, "has_prev": res.has_previous_page}));
            if res.results.len() > page as usize {
                self.report.violation(
                    format!("{}e2e page_longer_than_requested conn={what} dir={d}", self.prefix),
                    format!("requested {page}, got {}: {trail:?}", res.results.len()),
                    replay.clone(),
                );
            }
            if res.has_previous_page != cursor.is_some() {
                self.report.violation(
                    format!("{}e2e has_previous_page_wrong conn={what} dir={d}", self.prefix),
                    format!("has_previous_page={} with cursor {:?} (an entry or absent); pages {trail:?}", res.has_previous_page, cursor),
                    replay.clone(),
                );
            }
            collected.extend(res.results.iter().cloned());
            let remaining = expected.len().saturating_sub(collected.len());
            if res.has_next_page != (remaining > 0) && collected.len() <= expected.len() && expected.starts_with(&collected) {
                self.report.violation(
                    format!("{}e2e has_next_page_wrong conn={what} dir={d}", self.prefix),
                    format!("has_next_page={} but {remaining} entries remain; pages {trail:?}", res.has_next_page),
                    replay.clone(),
                );
            }
            if !res.has_next_page {
                break;
            }
            match res.cursor {
                Some(c) => cursor = Some(c),
                None => break,
            }
        }
        self.report.eval();
        self.report.count(&format!("c38.e2e.walks.{what}.{d}"));
        if collected != expected {
            self.report.violation(
                format!("{}e2e walk_union_mismatch conn={what} dir={d}", self.prefix),
                format!("page size {page}: expected {expected:?}, collected {collected:?}; pages {trail:?}"),
                replay,
            );
        }
        if expected.len() > page as usize {
            self.report.distinct(&("e2e", what.to_string(), d, page));
        }
    }
}

pub fn run(report: &Report, selftest: u32) {
    let rt = match tokio::runtime::Builder::new_multi_thread().worker_threads(2).enable_all().build() {
        Ok(rt) => rt,
        Err(e) => {
            report.inconclusive(format!("e2e: no runtime: {e}"));
            return;
        }
    };
    if let Err(p) = catch(|| rt.block_on(run_async(report, selftest))) {
        report.inconclusive(format!("e2e: harness panic: {p}"));
    }
    rt.shutdown_timeout(std::time::Duration::from_secs(2));
}

async fn run_async(report: &Report, selftest: u32) {
    let owner = Address::from([0x42; 32]);
    let mut lo = [0x42u8; 32];
    lo[31] = 0x41;
    let mut hi = [0x42u8; 32];
    hi[31] = 0x43;
    let asset = AssetId::from([7u8; 32]);

    let mut coins = Vec::new();
    let mut expected_coins = Vec::new();
    for i in 0..N_COINS {
        // two tx ids so that ordering is by (tx id, output index)
        let tx_id = Bytes32::from([if i % 2 == 0 { 0x10 } else { 0x20 }; 32]);
        coins.push(CoinConfig {
            tx_id,
            output_index: 100 - i,
            owner: owner.into(),
            amount: 1000 + i as u64,
            asset_id: asset,
            ..Default::default()
        });
        expected_coins.push((tx_id, 100 - i));
    }
    for (j, other) in [lo, hi].into_iter().enumerate() {
        for k in 0..2u16 {
            coins.push(CoinConfig {
                tx_id: Bytes32::from([0x30 + j as u8; 32]),
                output_index: k,
                owner: Address::from(other).into(),
                amount: 5,
                asset_id: asset,
                ..Default::default()
            });
        }
    }
    expected_coins.sort();
    let expected_coins: Vec<String> = expected_coins.iter().map(|(t, o)| format!("{}:{o}", hex(t))).collect();

    let mut messages = Vec::new();
    let mut expected_messages = Vec::new();
    for i in 0..N_MESSAGES {
        let nonce = Nonce::from([i * 40 + 3; 32]);
        messages.push(MessageConfig {
            sender: Address::from([1; 32]),
            recipient: owner,
            nonce,
            amount: 10 + i as u64,
            data: if i % 2 == 0 { vec![] } else { vec![i] },
            da_height: DaBlockHeight(0),
        });
        expected_messages.push(nonce);
    }
    for (j, other) in [lo, hi].into_iter().enumerate() {
        messages.push(MessageConfig {
            sender: Address::from([1; 32]),
            recipient: Address::from(other),
            nonce: Nonce::from([200 + j as u8; 32]),
            amount: 1,
            data: vec![],
            da_height: DaBlockHeight(0),
        });
    }
    expected_messages.sort();
    let expected_messages: Vec<String> = expected_messages.iter().map(hex).collect();

    let state = StateConfig {
        coins,
        messages,
        ..Default::default()
    };
    let config = Config::local_node_with_state_config(state);
    let srv = match FuelService::from_database(Database::in_memory(), config).await {
        Ok(s) => s,
        Err(e) => {
            report.inconclusive(format!("e2e: node did not start: {e}"));
            return;
        }
    };
    let client = FuelClient::from(srv.bound_address);
    if let Err(e) = client.produce_blocks(N_BLOCKS - 1, None).await {
        report.inconclusive(format!("e2e: could not produce blocks: {e}"));
        return;
    }
    let expected_blocks: Vec<String> = (0..N_BLOCKS).map(|h| h.to_string()).collect();

    let w = Walk {
        report,
        prefix: if selftest == 0 { "" } else { "selftest:" },
        perturb: selftest,
    };
    for dir in [PageDirection::Forward, PageDirection::Backward] {
        for page in [1, 2, 3, 4, 50] {
            w.run("coins", &expected_coins, page, dir, |req| {
                let client = &client;
                async move {
                    let r = client.coins(&owner, None, req).await?;
                    Ok(PaginatedResult {
                        cursor: r.cursor,
                        results: r.results.iter().map(|c| format!("{}:{}", hex(c.utxo_id.tx_id()), c.utxo_id.output_index())).collect(),
                        has_next_page: r.has_next_page,
                        has_previous_page: r.has_previous_page,
                    })
                }
            })
            .await;
            w.run("messages", &expected_messages, page, dir, |req| {
                let client = &client;
                async move {
                    let r = client.messages(Some(&owner), req).await?;
                    Ok(PaginatedResult {
                        cursor: r.cursor,
                        results: r.results.iter().map(|m| hex(m.nonce)).collect(),
                        has_next_page: r.has_next_page,
                        has_previous_page: r.has_previous_page,
                    })
                }
            })
            .await;
            w.run("blocks", &expected_blocks, page, dir, |req| {
                let client = &client;
                async move {
                    let r = client.blocks(req).await?;
                    Ok(PaginatedResult {
                        cursor: r.cursor,
                        results: r.results.iter().map(|b| b.header.height.to_string()).collect(),
                        has_next_page: r.has_next_page,
                        has_previous_page: r.has_previous_page,
                    })
                }
            })
            .await;
        }
    }
    let _ = srv.send_stop_signal_and_await_shutdown().await;
}
