//! C38 — cursor pagination enumerates every entry exactly once.
//!
//! Driver: the real `fuel_core::schema::query_pagination` (through the hook
//! `verif_query_pagination`), fed by
//!   * source `vec`: a generated ordered collection with gaps between keys (u64
//!     cursors), served the way storage iterators serve it (inclusive start key in
//!     the direction of travel);
//!   * source `db`: the real `ReadView::owned_coins_ids` iterator over a real
//!     in-memory off-chain database, with the real `scalars::UtxoId` cursor type,
//!     i.e. exactly what the `coins` resolver passes to `query_pagination`.
//! EXHAUSTIVE over collection sizes 0..=8 x page sizes 0..=10 (+ i32::MAX) x both
//! directions x every cursor position (none / every entry / every gap, before the
//! first and after the last entry), plus the rejected argument combinations, plus
//! complete cursor-following walks; followed by a seeded random extension on
//! larger collections.
//!
//! Oracle (independent model, from the property text): with `seq` = the collection
//! in the direction of travel and `rest` = the entries of `seq` strictly beyond the
//! cursor (all of `seq` without cursor):
//!   edges == first `p` entries of `rest`, in order, each node the entry's value;
//!   has_next_page == (`rest` has more than `p` entries)   [direction-relative];
//!   has_previous_page == (a cursor was supplied)  — judged only when the cursor is
//!     absent or is an entry of the collection: for those cases this coincides with
//!     "entries exist behind the page" (the cursor entry itself). For a cursor that
//!     is NOT an entry the statement is ambiguous (entries may exist behind although
//!     the cursor was not found) and the flag is not judged (counted).
//!   walk: following the last edge's cursor until has_next_page is false yields
//!     exactly `seq`, every page <= p, in at most ceil(n/p)+1 calls.

use crate::dbutil::TestDb;
use fuel_core::schema::{
    scalars,
    verif_query_pagination,
};
use fuel_core_storage::{
    Result as StorageResult,
    iter::IterDirection,
};
use fuel_core_types::fuel_tx::{
    Address,
    AssetId,
    UtxoId,
};
use futures::StreamExt;
use serde_json::json;
use vcommon::{
    rand::Rng,
    *,
};

#[derive(Clone, Copy, Debug, PartialEq, Eq, Hash)]
pub enum Dir {
    Fwd,
    Bwd,
}

impl Dir {
    fn s(&self) -> &'static str {
        match self {
            Dir::Fwd => "fwd",
            Dir::Bwd => "bwd",
        }
    }
}

/// what the hook answered, reduced to model terms (keys as u64 model ids)
#[derive(Clone, Debug)]
pub enum Observed {
    Page {
        keys: Vec<u64>,
        nodes: Vec<u64>,
        has_next: bool,
        has_prev: bool,
    },
    Err(String),
}

/// Key `i` of a collection of size n is `10 * (i + 1)`; gaps hold "missing" cursors.
fn key_of(i: usize) -> u64 {
    10 * (i as u64 + 1)
}

fn value_of(key: u64) -> u64 {
    key * 7 + 3
}

#[derive(Clone, Debug)]
pub struct Call {
    pub source: &'static str,
    pub n: usize,
    pub dir: Dir,
    /// model key used as cursor (may be a key that is not in the collection)
    pub cursor: Option<u64>,
    pub page: i32,
}

impl Call {
    fn to_json(&self) -> serde_json::Value {
        json!({"source": self.source, "n": self.n, "dir": self.dir.s(), "cursor": self.cursor, "page": self.page})
    }
}

pub trait Source {
    fn name(&self) -> &'static str;
    /// run the real pagination for a collection of size n
    fn call(&self, n: usize, after: Option<String>, before: Option<String>, first: Option<i32>, last: Option<i32>) -> Observed;
    fn encode(&self, key: u64) -> String;
}

/// Harness-side perturbations for the oracle self-test.
#[derive(Clone, Copy, Debug, PartialEq, Eq)]
pub enum Perturb {
    None,
    DropLastEdge,
    FlipHasNext,
    FlipHasPrev,
    /// the entries closure handed to the hook silently skips the 2nd element
    LossyIterator,
}

// ---------------------------------------------------------------------------
// source `vec`
// ---------------------------------------------------------------------------

pub struct VecSource {
    pub rt: tokio::runtime::Runtime,
    pub lossy: bool,
}

impl Source for VecSource {
    fn name(&self) -> &'static str {
        "vec"
    }

    fn encode(&self, key: u64) -> String {
        key.to_string()
    }

    fn call(&self, n: usize, after: Option<String>, before: Option<String>, first: Option<i32>, last: Option<i32>) -> Observed {
        let keys: Vec<u64> = (0..n).map(key_of).collect();
        let lossy = self.lossy;
        let fut = verif_query_pagination::<_, _, u64, u64>(after, before, first, last, move |start: &Option<u64>, dir| {
            // what a storage iterator does: start at the given key (inclusive) and go
            // in the requested direction
            let mut items: Vec<u64> = match dir {
                IterDirection::Forward => keys.iter().copied().filter(|k| start.map_or(true, |s| *k >= s)).collect(),
                IterDirection::Reverse => keys.iter().rev().copied().filter(|k| start.map_or(true, |s| *k <= s)).collect(),
            };
            if lossy && items.len() >= 2 {
                items.remove(1);
            }
            let items: Vec<StorageResult<(u64, u64)>> = items.into_iter().map(|k| Ok((k, value_of(k)))).collect();
            Ok(futures::stream::iter(items))
        });
        match self.rt.block_on(fut) {
            Ok(conn) => Observed::Page {
                keys: conn.edges.iter().map(|e| e.cursor).collect(),
                nodes: conn.edges.iter().map(|e| e.node).collect(),
                has_next: conn.has_next_page,
                has_prev: conn.has_previous_page,
            },
            Err(e) => Observed::Err(e.message),
        }
    }
}

// ---------------------------------------------------------------------------
// source `db`: real ReadView::owned_coins_ids with the real UtxoId cursor scalar
// ---------------------------------------------------------------------------

pub struct DbSource {
    pub rt: tokio::runtime::Runtime,
    /// one database per collection size
    dbs: Vec<TestDb>,
    owner: Address,
}

fn utxo_of(key: u64) -> UtxoId {
    UtxoId::new([0x5A; 32].into(), key as u16)
}

impl DbSource {
    pub fn new(max_n: usize) -> Self {
        let owner = Address::from([0x11; 32]);
        // neighbours in key space that must never show up
        let mut below = [0x11u8; 32];
        below[31] = 0x10;
        let mut above = [0x11u8; 32];
        above[31] = 0x12;
        let asset = AssetId::from([3u8; 32]);
        let mut dbs = Vec::new();
        for n in 0..=max_n {
            let mut db = TestDb::new(AssetId::from([9u8; 32]));
            for i in 0..n {
                let k = key_of(i);
                db.insert_coin(utxo_of(k), owner, asset, value_of(k));
            }
            for (j, other) in [below, above].into_iter().enumerate() {
                // same output indexes as the owner's entries and gaps, different tx id
                let tx: fuel_core_types::fuel_tx::Bytes32 = [0x5A + 1 + j as u8; 32].into();
                db.insert_coin(UtxoId::new(tx, 15), Address::from(other), asset, 1);
                db.insert_coin(UtxoId::new(tx, 20), Address::from(other), asset, 2);
            }
            dbs.push(db);
        }
        DbSource {
            rt: tokio::runtime::Builder::new_current_thread().enable_all().build().expect("rt"),
            dbs,
            owner,
        }
    }
}

impl Source for DbSource {
    fn name(&self) -> &'static str {
        "db"
    }

    fn encode(&self, key: u64) -> String {
        // the documented cursor format of the `coins` connection
        scalars::UtxoId::from(utxo_of(key)).to_string()
    }

    fn call(&self, n: usize, after: Option<String>, before: Option<String>, first: Option<i32>, last: Option<i32>) -> Observed {
        let view = self.dbs[n].view(3);
        let owner = self.owner;
        let fut = verif_query_pagination::<_, _, scalars::UtxoId, scalars::U64>(after, before, first, last, |start: &Option<scalars::UtxoId>, dir| {
            let stream = view
                .owned_coins_ids(&owner, (*start).map(Into::into), dir)
                .map(|r| r.map(|id: UtxoId| (scalars::UtxoId::from(id), scalars::U64(value_of(id.output_index() as u64)))));
            Ok(stream)
        });
        match self.rt.block_on(fut) {
            Ok(conn) => {
                let mut keys = Vec::new();
                for e in &conn.edges {
                    let id: UtxoId = e.cursor.into();
                    if *id.tx_id() != fuel_core_types::fuel_tx::Bytes32::from([0x5A; 32]) {
                        // an id the model does not know: map to an impossible key
                        keys.push(u64::MAX);
                    } else {
                        keys.push(id.output_index() as u64);
                    }
                }
                Observed::Page {
                    keys,
                    nodes: conn.edges.iter().map(|e| e.node.0).collect(),
                    has_next: conn.has_next_page,
                    has_prev: conn.has_previous_page,
                }
            }
            Err(e) => Observed::Err(e.message),
        }
    }
}

// ---------------------------------------------------------------------------
// the oracle
// ---------------------------------------------------------------------------

pub struct Expect {
    pub keys: Vec<u64>,
    pub has_next: bool,
    /// None = not judged (cursor is not an entry: statement ambiguous)
    pub has_prev: Option<bool>,
}

/// Independent model of one page.
pub fn expect(n: usize, dir: Dir, cursor: Option<u64>, page: usize) -> Expect {
    let mut seq: Vec<u64> = (0..n).map(key_of).collect();
    if dir == Dir::Bwd {
        seq.reverse();
    }
    let rest: Vec<u64> = match cursor {
        None => seq.clone(),
        Some(c) => seq
            .iter()
            .copied()
            .filter(|k| match dir {
                Dir::Fwd => *k > c,
                Dir::Bwd => *k < c,
            })
            .collect(),
    };
    let cursor_is_entry = cursor.map(|c| seq.contains(&c));
    Expect {
        keys: rest.iter().copied().take(page).collect(),
        has_next: rest.len() > page,
        has_prev: match cursor_is_entry {
            None => Some(false),
            Some(true) => Some(true),
            Some(false) => None,
        },
    }
}

fn perturb(obs: Observed, p: Perturb) -> Observed {
    match (obs, p) {
        (Observed::Page { mut keys, mut nodes, has_next, has_prev }, Perturb::DropLastEdge) => {
            keys.pop();
            nodes.pop();
            Observed::Page { keys, nodes, has_next, has_prev }
        }
        (Observed::Page { keys, nodes, has_next, has_prev }, Perturb::FlipHasNext) => Observed::Page {
            keys,
            nodes,
            has_next: !has_next,
            has_prev,
        },
        (Observed::Page { keys, nodes, has_next, has_prev }, Perturb::FlipHasPrev) => Observed::Page {
            keys,
            nodes,
            has_next,
            has_prev: !has_prev,
        },
        (o, _) => o,
    }
}

struct Ctx<'a> {
    report: &'a Report,
    prefix: &'static str,
    perturb: Perturb,
    seed: u64,
}

impl Ctx<'_> {
    fn violation(&self, sig: String, detail: String, call: &Call) {
        self.report.violation(
            format!("{}{}", self.prefix, sig),
            detail,
            json!({"seed": self.seed, "call": call.to_json()}),
        );
    }
}

fn do_call(src: &dyn Source, call: &Call) -> Observed {
    let cur = call.cursor.map(|c| src.encode(c));
    match call.dir {
        Dir::Fwd => src.call(call.n, cur, None, Some(call.page), None),
        Dir::Bwd => src.call(call.n, None, cur, None, Some(call.page)),
    }
}

/// judge one page request; returns the observed page for walk bookkeeping
fn judge_call(ctx: &Ctx, src: &dyn Source, call: &Call) -> Observed {
    let obs = perturb(do_call(src, call), ctx.perturb);
    let exp = expect(call.n, call.dir, call.cursor, call.page as usize);
    ctx.report.eval();
    ctx.report.count(&format!("c38.calls.{}.{}", src.name(), call.dir.s()));
    let d = call.dir.s();
    match &obs {
        Observed::Err(m) => {
            ctx.violation(
                format!("valid_request_rejected dir={d}"),
                format!("a valid page request returned an error `{m}`; request {}", call.to_json()),
                call,
            );
        }
        Observed::Page { keys, nodes, has_next, has_prev } => {
            if keys.len() > call.page as usize {
                ctx.violation(
                    format!("page_longer_than_requested dir={d}"),
                    format!("requested {} entries, got {}: {:?}; request {}", call.page, keys.len(), keys, call.to_json()),
                    call,
                );
            } else if *keys != exp.keys {
                let kind = if keys.len() < exp.keys.len() && exp.keys.starts_with(keys) {
                    "short_page"
                } else if keys.iter().any(|k| !exp.keys.contains(k)) {
                    "wrong_entries"
                } else {
                    "wrong_order_or_missing"
                };
                ctx.violation(
                    format!("page_content_mismatch {kind} dir={d}"),
                    format!("expected entries {:?}, got {:?}; request {}", exp.keys, keys, call.to_json()),
                    call,
                );
            } else {
                let want_nodes: Vec<u64> = keys.iter().map(|k| value_of(*k)).collect();
                if *nodes != want_nodes {
                    ctx.violation(
                        format!("node_does_not_belong_to_cursor dir={d}"),
                        format!("cursors {:?} came with nodes {:?}, expected {:?}; request {}", keys, nodes, want_nodes, call.to_json()),
                        call,
                    );
                }
            }
            if *has_next != exp.has_next {
                ctx.violation(
                    format!("has_next_page_wrong dir={d} expected={}", exp.has_next),
                    format!(
                        "has_next_page={} but {} entries remain beyond this page in the direction of travel; page {:?}; request {}",
                        has_next,
                        if exp.has_next { "some" } else { "no" },
                        keys,
                        call.to_json()
                    ),
                    call,
                );
            }
            match exp.has_prev {
                Some(want) => {
                    if *has_prev != want {
                        ctx.violation(
                            format!("has_previous_page_wrong dir={d} expected={want}"),
                            format!("has_previous_page={} for cursor {:?} (an entry or absent); request {}", has_prev, call.cursor, call.to_json()),
                            call,
                        );
                    }
                }
                None => ctx.report.count("c38.has_previous_page.not_judged_cursor_not_an_entry"),
            }
            // distinct non-trivial: the page is a strict, non-empty part of the collection
            if !keys.is_empty() && (keys.len() < call.n) {
                ctx.report
                    .distinct(&(src.name(), call.n, call.dir, call.cursor, call.page));
            }
        }
    }
    obs
}

/// follow cursors from the start (fwd) / the end (bwd) until has_next_page is false
fn judge_walk(ctx: &Ctx, src: &dyn Source, n: usize, dir: Dir, page: i32) {
    let mut seq: Vec<u64> = (0..n).map(key_of).collect();
    if dir == Dir::Bwd {
        seq.reverse();
    }
    let mut collected: Vec<u64> = Vec::new();
    let mut cursor: Option<u64> = None;
    let mut pages = 0usize;
    let max_pages = n.div_ceil(page as usize) + 2;
    let mut trail = Vec::new();
    let walk_call = Call {
        source: src.name(),
        n,
        dir,
        cursor: None,
        page,
    };
    loop {
        let call = Call {
            source: src.name(),
            n,
            dir,
            cursor,
            page,
        };
        let obs = perturb(do_call(src, &call), ctx.perturb);
        pages += 1;
        match obs {
            Observed::Err(m) => {
                ctx.violation(
                    format!("walk_aborted_by_error dir={}", dir.s()),
                    format!("walk n={n} page={page}: request {} failed with `{m}` after pages {:?}", call.to_json(), trail),
                    &walk_call,
                );
                return;
            }
            Observed::Page { keys, has_next, .. } => {
                trail.push(json!({"cursor": cursor, "got": keys, "has_next": has_next}));
                if keys.len() > page as usize {
                    ctx.violation(
                        format!("page_longer_than_requested dir={}", dir.s()),
                        format!("walk n={n} page={page}: pages {:?}", trail),
                        &walk_call,
                    );
                }
                collected.extend(keys.iter().copied());
                if !has_next {
                    break;
                }
                match keys.last() {
                    Some(k) => cursor = Some(*k),
                    None => {
                        ctx.violation(
                            format!("walk_stuck_empty_page_with_next dir={}", dir.s()),
                            format!("walk n={n} page={page}: empty page claims a next page; pages {:?}", trail),
                            &walk_call,
                        );
                        return;
                    }
                }
                if pages > max_pages {
                    ctx.violation(
                        format!("walk_does_not_terminate dir={}", dir.s()),
                        format!("walk n={n} page={page}: more than {max_pages} pages; pages {:?}", trail),
                        &walk_call,
                    );
                    return;
                }
            }
        }
    }
    ctx.report.eval();
    ctx.report.count(&format!("c38.walks.{}.{}", src.name(), dir.s()));
    ctx.report.add("c38.walk_pages", pages as u64);
    if collected != seq {
        let mut sorted = collected.clone();
        sorted.sort();
        sorted.dedup();
        let kind = if sorted.len() != collected.len() {
            "repeated_entry"
        } else if collected.len() < seq.len() {
            "missing_entry"
        } else {
            "wrong_order_or_foreign"
        };
        ctx.violation(
            format!("walk_union_mismatch {kind} dir={}", dir.s()),
            format!("walk n={n} page={page} dir={}: expected {:?}, collected {:?}; pages {:?}", dir.s(), seq, collected, trail),
            &walk_call,
        );
    }
    if n > page as usize {
        ctx.report.distinct(&("walk", src.name(), n, dir, page));
    }
    if ctx.report.wants_sample() && n >= 5 && page == 2 {
        ctx.report.sample(json!({"walk": {"source": src.name(), "n": n, "dir": dir.s(), "page": page, "pages": trail}}));
    }
}

/// argument combinations `query_pagination` documents as unsupported
fn judge_rejections(ctx: &Ctx, src: &dyn Source) {
    let n = 4usize;
    let c = Some(src.encode(key_of(1)));
    let c2 = Some(src.encode(key_of(2)));
    let bad = Some("zz-not-a-cursor".to_string());
    #[allow(clippy::type_complexity)]
    let cases: Vec<(&str, Option<String>, Option<String>, Option<i32>, Option<i32>)> = vec![
        ("first+last", None, None, Some(2), Some(2)),
        ("first+last+after", c.clone(), None, Some(2), Some(2)),
        ("first+last+before", None, c.clone(), Some(2), Some(2)),
        ("after+last", c.clone(), None, None, Some(2)),
        ("before+first", None, c.clone(), Some(2), None),
        ("after+before+first", c.clone(), c2.clone(), Some(2), None),
        ("after+before+last", c.clone(), c2.clone(), None, Some(2)),
        ("neither_first_nor_last", None, None, None, None),
        ("after_only", c.clone(), None, None, None),
        ("before_only", None, c.clone(), None, None),
        ("after+before_only", c.clone(), c2.clone(), None, None),
        ("negative_first", None, None, Some(-1), None),
        ("negative_last", None, None, None, Some(-1)),
        ("min_first", None, None, Some(i32::MIN), None),
        ("undecodable_after", bad.clone(), None, Some(2), None),
        ("undecodable_before", None, bad.clone(), None, Some(2)),
    ];
    for (name, after, before, first, last) in cases {
        let obs = src.call(n, after.clone(), before.clone(), first, last);
        ctx.report.eval();
        ctx.report.count("c38.rejections.judged");
        let call = Call {
            source: src.name(),
            n,
            dir: Dir::Fwd,
            cursor: None,
            page: first.or(last).unwrap_or(0),
        };
        match obs {
            Observed::Err(_) => ctx.report.count(&format!("c38.rejected.{name}")),
            Observed::Page { keys, .. } => ctx.violation(
                format!("unsupported_arguments_served combo={name}"),
                format!(
                    "after={after:?} before={before:?} first={first:?} last={last:?} is documented as unsupported but was served with entries {keys:?}"
                ),
                &call,
            ),
        }
    }
}

fn cursor_positions(n: usize) -> Vec<Option<u64>> {
    // none, every entry, every gap (5 = before the first, 10n+5 = after the last)
    let mut v = vec![None];
    for i in 0..n {
        v.push(Some(key_of(i)));
    }
    for g in 0..=n {
        v.push(Some(10 * g as u64 + 5));
    }
    v
}

pub const MAX_N: usize = 8;
pub const MAX_PAGE: i32 = 10;

fn exhaustive(ctx: &Ctx, src: &dyn Source) {
    for n in 0..=MAX_N {
        for dir in [Dir::Fwd, Dir::Bwd] {
            let mut pages: Vec<i32> = (0..=MAX_PAGE).collect();
            pages.push(i32::MAX);
            for page in pages {
                for cursor in cursor_positions(n) {
                    let call = Call {
                        source: src.name(),
                        n,
                        dir,
                        cursor,
                        page,
                    };
                    judge_call(ctx, src, &call);
                    ctx.report.count("c38.exhaustive.calls");
                    if cursor.is_some_and(|c| c % 10 == 5) {
                        ctx.report.count("c38.exhaustive.cursor_in_gap");
                    }
                }
                if (1..=MAX_PAGE).contains(&page) {
                    judge_walk(ctx, src, n, dir, page);
                    ctx.report.count("c38.exhaustive.walks");
                }
            }
        }
    }
    judge_rejections(ctx, src);
}

/// number of calls `exhaustive` makes per source (for the threshold)
fn exhaustive_call_count() -> u64 {
    let mut c = 0u64;
    for n in 0..=MAX_N {
        c += 2 * (MAX_PAGE as u64 + 2) * (1 + n as u64 + n as u64 + 1);
    }
    c
}

/// What happens to a storage error inside the stream is outside the property
/// (it quantifies over collections, not failing storage); observed and noted only.
fn probe_stream_error(report: &Report, rt: &tokio::runtime::Runtime) {
    let fut = verif_query_pagination::<_, _, u64, u64>(None, None, Some(5), None, |_start: &Option<u64>, _dir| {
        let items: Vec<StorageResult<(u64, u64)>> = vec![
            Ok((10, 1)),
            Ok((20, 2)),
            Err(fuel_core_storage::Error::Other(anyhow::anyhow!("injected storage failure"))),
            Ok((30, 3)),
        ];
        Ok(futures::stream::iter(items))
    });
    match rt.block_on(fut) {
        Ok(conn) => {
            report.count("c38.probe.stream_error_swallowed");
            report.note(format!(
                "not judged (outside C38): a storage error at stream position 2 produced an Ok page of {} entries with has_next_page={} (the error is dropped by take_while)",
                conn.edges.len(),
                conn.has_next_page
            ));
        }
        Err(_) => report.count("c38.probe.stream_error_propagated"),
    }
}

pub fn run(args: &Args, report: &Report) -> (&'static str, bool, Vec<&'static str>) {
    let selftest: u32 = args.extra.get("selftest").and_then(|s| s.parse().ok()).unwrap_or(0);
    let perturb = match selftest {
        0 => Perturb::None,
        1 => Perturb::DropLastEdge,
        2 => Perturb::FlipHasNext,
        3 => Perturb::FlipHasPrev,
        4 => Perturb::LossyIterator,
        _ => Perturb::None,
    };
    let ctx = Ctx {
        report,
        prefix: if selftest == 0 { "" } else { "selftest:" },
        perturb,
        seed: args.seed,
    };
    let vec_src = VecSource {
        rt: tokio::runtime::Builder::new_current_thread().enable_all().build().expect("rt"),
        lossy: perturb == Perturb::LossyIterator,
    };

    if let Some(rep) = read_replay(args) {
        // re-execute exactly the recorded request (and its walk)
        let c = &rep["call"];
        let n = c["n"].as_u64().unwrap_or(0) as usize;
        let db_src = DbSource::new(n.max(MAX_N));
        let src: &dyn Source = if c["source"] == "db" { &db_src } else { &vec_src };
        let call = Call {
            source: src.name(),
            n,
            dir: if c["dir"] == "bwd" { Dir::Bwd } else { Dir::Fwd },
            cursor: c["cursor"].as_u64(),
            page: c["page"].as_i64().unwrap_or(1) as i32,
        };
        judge_call(&ctx, src, &call);
        if call.page >= 1 && call.page < i32::MAX {
            judge_walk(&ctx, src, call.n, call.dir, call.page);
        }
        judge_rejections(&ctx, src);
        return (RULE, false, assumptions());
    }

    let random_n_max = 40usize;
    let db_src = DbSource::new(random_n_max);

    // 1. exhaustive region, both sources
    exhaustive(&ctx, &vec_src);
    exhaustive(&ctx, &db_src);

    // 2. seeded random extension: larger collections and page sizes
    let iters = args.by_tier(3_000u64, 600_000u64);
    let mut rng = rng_for(args.seed, &[tag("c38-random")]);
    for it in 0..iters {
        let src: &dyn Source = if it % 2 == 0 { &vec_src } else { &db_src };
        let n = rng.gen_range(9..=random_n_max);
        let dir = if rng.gen_bool(0.5) { Dir::Fwd } else { Dir::Bwd };
        let page = *pick(&mut rng, &[1, 2, 3, 5, 7, 8, 9, 16, 31, 39, 40, 41, 100]);
        let cursor = match rng.gen_range(0..10) {
            0 => None,
            1..=6 => Some(key_of(rng.gen_range(0..n))),
            _ => Some(10 * rng.gen_range(0..=n) as u64 + 5),
        };
        let call = Call {
            source: src.name(),
            n,
            dir,
            cursor,
            page,
        };
        judge_call(&ctx, src, &call);
        report.count("c38.random.calls");
        if it % 10 < 2 {
            judge_walk(&ctx, src, n, dir, page);
            report.count("c38.random.walks");
        }
    }

    probe_stream_error(report, &vec_src.rt);

    // 3. the same property end to end through GraphQL (coins, messages, blocks)
    let e2e_perturb: u32 = match selftest {
        5 => 1,
        6 => 2,
        _ => 0,
    };
    if selftest == 0 || e2e_perturb != 0 {
        crate::c38_e2e::run(report, e2e_perturb);
        for conn in ["coins", "messages", "blocks"] {
            for d in ["fwd", "bwd"] {
                report.require(&format!("c38.e2e.walks.{conn}.{d}"), 5);
            }
        }
    }

    let per_source = exhaustive_call_count();
    report.info("c38.exhaustive.calls_per_source", json!(per_source));
    report.require("c38.exhaustive.calls", 2 * per_source);
    report.require("c38.exhaustive.walks", 2 * 2 * (MAX_N as u64 + 1) * MAX_PAGE as u64);
    report.require("c38.rejections.judged", 2 * 16);
    report.require("c38.exhaustive.cursor_in_gap", 1000);
    report.require("c38.calls.db.bwd", 1000);
    report.require("c38.calls.vec.fwd", 1000);
    report.require("c38.random.calls", iters);

    (RULE, selftest == 0, assumptions())
}

const RULE: &str = "EXHAUSTIVE: for each of 2 sources (generated Vec with u64 cursors; real ReadView::owned_coins_ids over an in-memory off-chain DB with UtxoId cursors), every collection size 0..=8 x page size 0..=10 and i32::MAX x direction {first/after, last/before} x cursor position {none, each entry, each gap incl. before-first/after-last} is requested through the real query_pagination and compared with an independent model (entries, order, page length, node values, has_next_page, has_previous_page); for page sizes 1..=10 a complete cursor-following walk is checked to enumerate the collection exactly once; 16 unsupported argument combinations must be rejected. Then a seeded random extension (sizes 9..=40, page sizes up to 100), and the same walk property end to end through GraphQL on an in-process node for the coins, messages and blocks connections (page sizes 1,2,3,4,50, both directions). A case counts as distinct non-trivial when the served page is a non-empty strict part of the collection (key: source,size,direction,cursor,page size) or a walk needs more than one page.";

fn assumptions() -> Vec<&'static str> {
    vec![
        "has_next_page / has_previous_page are direction-relative (next = further in the direction of travel), as pinned by tests/tests/tx.rs::get_transactions",
        "has_previous_page is judged only for an absent cursor or a cursor that is an entry; for a cursor that is not an entry the statement is ambiguous and the flag is not judged (edges and has_next_page still are)",
        "entry sources hand the stream to query_pagination the way storage iterators do: starting at the cursor key inclusive, in the direction of travel",
        "storage errors inside the stream are outside the property (observed and noted only)",
    ]
}
