//! Shared plumbing of the chaingen-based monitors of this crate (C36, C45):
//! case enumeration with replay, self-test switch, byte-wise database dumps, a
//! transaction that spends coins created earlier in the same block, conversion of
//! a session's genesis state into a node `StateConfig`, and the in-process node
//! fixture (a `FuelService` over RocksDB whose on-chain database is then used by
//! the chaingen session as the source of spendable resources).

use chaingen::{
    BlockPlan,
    ChainSession,
    CheckedMode,
    PlannedTx,
    Produced,
    TxKind,
    Twist,
};
use fuel_core::{
    chain_config::{
        AddTable,
        ChainConfig,
        StateConfig,
        StateConfigBuilder,
        TableEntry,
    },
    database::{
        Database,
        database_description::{
            off_chain::OffChain,
            on_chain::OnChain,
            relayer::Relayer,
        },
    },
    fuel_core_graphql_api::storage::Column as OffChainColumn,
    service::{
        Config,
        FuelService,
    },
};
use fuel_core_poa::Trigger;
use fuel_core_storage::{
    column::Column,
    iter::{
        IterDirection,
        IterableStore,
        IteratorOverTable,
    },
    kv_store::StorageColumn,
    tables::{
        Coins,
        ContractsAssets,
        ContractsLatestUtxo,
        ContractsRawCode,
        ContractsState,
        Messages,
    },
};
use fuel_core_types::{
    fuel_tx::{
        Cacheable,
        Input,
        Output,
        Signable,
        Transaction,
        TransactionFee,
        TxId,
        UniqueIdentifier,
        UtxoId,
        Witness,
        field::MaxFeeLimit,
        policies::Policies,
    },
    fuel_types::Address,
    services::executor::{
        Error as ExecutorError,
        Event as ExecutorEvent,
    },
};
use std::collections::{
    BTreeMap,
    HashSet,
};
use vcommon::{
    Args,
    Report,
    chance,
    mix,
    rand::{
        Rng,
        rngs::StdRng,
    },
    read_replay,
    rng_for,
    run_shards,
    serde_json::{
        Value,
        json,
    },
    tag,
};

// ------------------------------------------------------------------ cases

/// One generated session: identified by `(shard, session)`.
#[derive(Clone, Debug)]
pub struct Case {
    pub seed: u64,
    pub shard: usize,
    pub session: usize,
}

impl Case {
    pub fn replay(&self, block: u32, extra: Value) -> Value {
        json!({"seed": self.seed, "shard": self.shard, "session": self.session, "block": block, "ops": extra})
    }
}

/// Monitor context: report + self-test perturbation number (0 = none).
#[derive(Clone)]
pub struct Ctx {
    pub report: Report,
    pub selftest: u32,
}

impl Ctx {
    pub fn new(args: &Args, report: &Report) -> Self {
        let selftest = args.extra.get("selftest").and_then(|s| s.parse().ok()).unwrap_or(0);
        Ctx {
            report: report.clone(),
            selftest,
        }
    }

    pub fn st(&self, n: u32) -> bool {
        self.selftest == n
    }

    pub fn violation(&self, sig: &str, detail: String, replay: Value) {
        let sig = if self.selftest != 0 {
            format!("selftest:{sig}")
        } else {
            sig.to_string()
        };
        self.report.violation(sig, detail, replay);
    }
}

/// Run `f` for every `(shard, session)`; with `--replay` only the recorded case
/// (replay records without a `session` field belong to another leg and are
/// left to the caller).
pub fn for_each_session<F>(args: &Args, report: &Report, shards: usize, sessions: usize, f: F)
where
    F: Fn(&Case, &mut StdRng) + Send + Sync + 'static,
{
    if let Some(r) = read_replay(args) {
        let Some(session) = r.get("session").and_then(|v| v.as_u64()) else {
            return
        };
        let seed = r.get("seed").and_then(|v| v.as_u64()).unwrap_or(args.seed);
        let shard = r.get("shard").and_then(|v| v.as_u64()).unwrap_or(0) as usize;
        let shard_seed = mix(seed, &[tag(&args.property), shard as u64]);
        let mut rng = rng_for(shard_seed, &[session]);
        let case = Case {
            seed,
            shard,
            session: session as usize,
        };
        report.note(format!("replaying shard {shard} session {session} seed {seed}"));
        if let Err(p) = vcommon::catch(|| f(&case, &mut rng)) {
            report.inconclusive(format!("replay panicked in harness: {p}"));
        }
        return;
    }
    let seed = args.seed;
    run_shards(report, args, shards, move |shard, shard_seed| {
        for session in 0..sessions {
            let mut rng = rng_for(shard_seed, &[session as u64]);
            let case = Case {
                seed,
                shard,
                session,
            };
            f(&case, &mut rng);
        }
    });
}

/// Commit, register deployed contracts, remember skipped transactions.
pub fn commit_block(sess: &mut ChainSession, plan: &BlockPlan, produced: &Produced) -> Result<(), String> {
    sess.commit(&produced.block, &produced.changes)?;
    sess.note_committed(plan);
    sess.note_skipped(plan, produced);
    Ok(())
}

/// Short, stable class of an error text for counters: the leading words, with
/// hex strings, numbers and punctuation removed.
pub fn err_class(text: &str) -> String {
    let mut words = Vec::new();
    for w in text.split(|c: char| !(c.is_alphanumeric() || c == '_')) {
        if w.is_empty() {
            continue;
        }
        let hexish = w.len() >= 8 && w.chars().all(|c| c.is_ascii_hexdigit());
        let numeric = w.chars().all(|c| c.is_ascii_digit());
        if hexish || numeric || w.starts_with("0x") {
            continue;
        }
        words.push(w.to_string());
        if words.len() >= 7 {
            break;
        }
    }
    words.join("_")
}

pub fn exec_err_class(e: &ExecutorError) -> String {
    err_class(&format!("{e:?}"))
}

// ------------------------------------------------------------------ dumps

/// Byte-wise content of a database: (column id, key) -> value.
pub type Dump = BTreeMap<(u32, Vec<u8>), Vec<u8>>;

pub fn dump_on_chain(db: &Database<OnChain>, into: &mut Dump, tag: u32) {
    for id in 0..64u32 {
        let Ok(column) = Column::try_from(id) else { continue };
        for kv in db.iter_store(column, None, None, IterDirection::Forward) {
            let (k, v) = kv.expect("iterate on-chain column");
            into.insert((tag + column.id(), k), v.as_ref().to_vec());
        }
    }
}

pub fn dump_relayer(db: &Database<Relayer>, into: &mut Dump, tag: u32) {
    use fuel_core_relayer::storage::Column as RCol;
    for column in [RCol::Metadata, RCol::History] {
        for kv in db.iter_store(column, None, None, IterDirection::Forward) {
            let (k, v) = kv.expect("iterate relayer column");
            into.insert((tag + column.id(), k), v.as_ref().to_vec());
        }
    }
}

pub const OFF_CHAIN_COLUMNS: [OffChainColumn; 18] = [
    OffChainColumn::Metadata,
    OffChainColumn::GenesisMetadata,
    OffChainColumn::OwnedCoins,
    OffChainColumn::TransactionStatus,
    OffChainColumn::TransactionsByOwnerBlockIdx,
    OffChainColumn::OwnedMessageIds,
    OffChainColumn::Statistic,
    OffChainColumn::FuelBlockIdsToHeights,
    OffChainColumn::ContractsInfo,
    OffChainColumn::OldFuelBlocks,
    OffChainColumn::OldFuelBlockConsensus,
    OffChainColumn::OldTransactions,
    OffChainColumn::RelayedTransactionStatus,
    OffChainColumn::SpentMessages,
    OffChainColumn::CoinBalances,
    OffChainColumn::MessageBalances,
    OffChainColumn::AssetsInfo,
    OffChainColumn::CoinsToSpend,
];

pub fn dump_off_chain(db: &Database<OffChain>, into: &mut Dump, tag: u32) {
    for column in OFF_CHAIN_COLUMNS {
        for kv in db.iter_store(column, None, None, IterDirection::Forward) {
            let (k, v) = kv.expect("iterate off-chain column");
            into.insert((tag + column.id(), k), v.as_ref().to_vec());
        }
    }
}

pub const TAG_ON_CHAIN: u32 = 0;
pub const TAG_RELAYER: u32 = 1000;
pub const TAG_OFF_CHAIN: u32 = 2000;

fn column_name(id: u32) -> String {
    let (space, c) = (id / 1000, id % 1000);
    match space {
        0 => Column::try_from(c).map(|c| format!("on_chain.{}", c.name())).unwrap_or(format!("on_chain.{c}")),
        1 => format!("relayer.{c}"),
        _ => OFF_CHAIN_COLUMNS
            .iter()
            .find(|x| x.id() == c)
            .map(|x| format!("off_chain.{}", x.name()))
            .unwrap_or(format!("off_chain.{c}")),
    }
}

/// `None` if equal, otherwise (columns that differ, human-readable first differences).
pub fn diff_dumps(before: &Dump, after: &Dump) -> Option<(String, String)> {
    if before == after {
        return None;
    }
    let mut cols: Vec<String> = Vec::new();
    let mut lines = Vec::new();
    let mut note = |col: u32, line: String| {
        let name = column_name(col);
        if !cols.contains(&name) {
            cols.push(name);
        }
        if lines.len() < 6 {
            lines.push(line);
        }
    };
    for ((c, k), v) in before {
        match after.get(&(*c, k.clone())) {
            None => note(*c, format!("{} key {} removed", column_name(*c), hex::encode(k))),
            Some(v2) if v2 != v => note(
                *c,
                format!("{} key {} value {} -> {}", column_name(*c), hex::encode(k), short_hex(v), short_hex(v2)),
            ),
            _ => {}
        }
    }
    for ((c, k), v) in after {
        if !before.contains_key(&(*c, k.clone())) {
            note(*c, format!("{} key {} added = {}", column_name(*c), hex::encode(k), short_hex(v)));
        }
    }
    cols.sort();
    Some((cols.join(","), lines.join("; ")))
}

fn short_hex(v: &[u8]) -> String {
    if v.len() <= 24 {
        hex::encode(v)
    } else {
        format!("{}..({} bytes)", hex::encode(&v[..24]), v.len())
    }
}

// ------------------------------------------------------------------ chained spend

fn planned(sess: &ChainSession, tx: Transaction) -> PlannedTx {
    let id = tx.id(&sess.chain_id);
    PlannedTx {
        tx,
        id,
        kind: TxKind::Transfer,
        twist: Twist::None,
        checked: CheckedMode::Raw,
        script: None,
        creates: None,
        uses_message: false,
        uses_predicate: false,
    }
}

/// A transfer that spends coins *created by earlier transactions of the same
/// block* (taken from the production's `CoinCreated` events): one base-asset coin
/// that pays the fee and, if there is one, a coin of another asset. `None` if the
/// block created no suitable coin for an owner whose key the session knows.
pub fn chained_spend(sess: &ChainSession, rng: &mut StdRng, plan: &BlockPlan, produced: &Produced) -> Option<PlannedTx> {
    let base = sess.base_asset();
    let in_block: HashSet<TxId> = produced.block.transactions().iter().map(|t| t.id(&sess.chain_id)).collect();
    let consumed: HashSet<UtxoId> = produced
        .events
        .iter()
        .filter_map(|e| match e {
            ExecutorEvent::CoinConsumed(c) => Some(c.utxo_id),
            _ => None,
        })
        .collect();
    let cands: Vec<_> = produced
        .events
        .iter()
        .filter_map(|e| match e {
            ExecutorEvent::CoinCreated(c)
                if in_block.contains(c.utxo_id.tx_id())
                    && !consumed.contains(&c.utxo_id)
                    && sess.owner_secret(&c.owner).is_some() =>
            {
                Some(c.clone())
            }
            _ => None,
        })
        .collect();
    let fee_coin = cands.iter().filter(|c| c.asset_id == base).max_by_key(|c| c.amount)?.clone();
    let others: Vec<_> = cands.iter().filter(|c| c.asset_id != base).cloned().collect();
    let mut spend = vec![fee_coin.clone()];
    if !others.is_empty() && chance(rng, 70) {
        spend.push(others[rng.gen_range(0..others.len())].clone());
    }

    let mut signers: Vec<Address> = Vec::new();
    let mut inputs = Vec::new();
    let mut outputs = Vec::new();
    for c in &spend {
        let w = match signers.iter().position(|a| a == &c.owner) {
            Some(i) => i,
            None => {
                signers.push(c.owner);
                signers.len() - 1
            }
        };
        inputs.push(Input::coin_signed(c.utxo_id, c.owner, c.amount, c.asset_id, c.tx_pointer, w as u16));
        let to = sess.owners[rng.gen_range(0..sess.owners.len())].address;
        let amount = if chance(rng, 25) { 0 } else { rng.gen_range(0..=c.amount.min(700)) };
        outputs.push(Output::coin(to, amount, c.asset_id));
        if c.asset_id == base || chance(rng, 80) {
            outputs.push(Output::change(c.owner, 0, c.asset_id));
        }
    }
    let witnesses = vec![Witness::default(); signers.len()];
    let mut tx = Transaction::script(0, vec![], vec![], Policies::new().with_max_fee(0), inputs, outputs, witnesses);
    let sign = |tx: &mut fuel_core_types::fuel_tx::Script| {
        for a in &signers {
            if let Some(s) = sess.owner_secret(a) {
                tx.sign_inputs(s, &sess.chain_id);
            }
        }
    };
    sign(&mut tx);
    let params = &sess.params;
    let max_fee = TransactionFee::checked_from_tx(params.gas_costs(), params.fee_params(), &tx, plan.gas_price)
        .map(|f| f.max_fee())
        .unwrap_or(u64::MAX);
    if max_fee > fee_coin.amount {
        return None;
    }
    tx.set_max_fee_limit(max_fee);
    sign(&mut tx);
    let _ = tx.precompute(&sess.chain_id);
    Some(planned(sess, tx.into()))
}

// ------------------------------------------------------------------ node fixture

/// The session's current on-chain state (coins, messages, contracts) as a
/// `StateConfig`, so that a node can be started on the same genesis state.
pub fn state_config_of(sess: &ChainSession, max_message_da_height: u64) -> Result<StateConfig, String> {
    let db = &sess.on_chain;
    let mut b = StateConfigBuilder::default();
    b.add(
        db.iter_all::<Coins>(None)
            .map(|r| r.map(|(key, value)| TableEntry::<Coins> { key, value }))
            .collect::<Result<Vec<_>, _>>()
            .map_err(|e| e.to_string())?,
    );
    // a node refuses genesis messages from DA heights above its genesis DA height
    b.add(
        db.iter_all::<Messages>(None)
            .filter(|r| r.as_ref().map(|(_, m)| m.da_height().0 <= max_message_da_height).unwrap_or(true))
            .map(|r| r.map(|(key, value)| TableEntry::<Messages> { key, value }))
            .collect::<Result<Vec<_>, _>>()
            .map_err(|e| e.to_string())?,
    );
    b.add(
        db.iter_all::<ContractsRawCode>(None)
            .map(|r| r.map(|(key, value)| TableEntry::<ContractsRawCode> { key, value }))
            .collect::<Result<Vec<_>, _>>()
            .map_err(|e| e.to_string())?,
    );
    b.add(
        db.iter_all::<ContractsLatestUtxo>(None)
            .map(|r| r.map(|(key, value)| TableEntry::<ContractsLatestUtxo> { key, value }))
            .collect::<Result<Vec<_>, _>>()
            .map_err(|e| e.to_string())?,
    );
    b.add(
        db.iter_all::<ContractsState>(None)
            .map(|r| r.map(|(key, value)| TableEntry::<ContractsState> { key, value }))
            .collect::<Result<Vec<_>, _>>()
            .map_err(|e| e.to_string())?,
    );
    b.add(
        db.iter_all::<ContractsAssets>(None)
            .map(|r| r.map(|(key, value)| TableEntry::<ContractsAssets> { key, value }))
            .collect::<Result<Vec<_>, _>>()
            .map_err(|e| e.to_string())?,
    );
    b.build(None).map_err(|e| e.to_string())
}

/// An in-process node started on the genesis state of a chaingen session.
pub struct Node {
    pub srv: FuelService,
    pub client: fuel_core_client::client::FuelClient,
}

impl Node {
    /// Start a node (RocksDB under `dir`, full state rewind, manual block
    /// production, UTXO validation on) on the session's genesis state and point
    /// the session's on-chain database at the node's, so that `gen_block_plan`
    /// draws its inputs from the node's real tables.
    pub async fn start(sess: &mut ChainSession, dir: &std::path::Path) -> Result<Node, String> {
        let state = state_config_of(sess, 0)?;
        let chain = ChainConfig {
            consensus_parameters: sess.params.clone(),
            ..ChainConfig::local_testnet()
        };
        let mut config = Config::local_node_with_configs(chain, state);
        config.utxo_validation = true;
        config.txpool.utxo_validation = true;
        config.block_production = Trigger::Never;
        config.debug = true;
        config.historical_execution = true;
        config.p2p = None;
        config.combined_db_config.database_path = dir.to_path_buf();
        // never reopen a database left by an earlier run
        let _ = std::fs::remove_dir_all(dir);
        std::fs::create_dir_all(dir).map_err(|e| e.to_string())?;
        let srv = FuelService::new_node(config).await.map_err(|e| format!("node did not start: {e}"))?;
        let client = fuel_core_client::client::FuelClient::from(srv.bound_address);
        // from now on the session generates transactions against the node's tables
        let genesis_coins = sess.coins();
        sess.on_chain = srv.shared.database.on_chain().clone();
        sess.height = 0;
        if sess.coins() != genesis_coins {
            return Err("harness: node genesis coins differ from the session's genesis coins".into());
        }
        Ok(Node { srv, client })
    }

    pub fn on_chain_height(&self) -> Option<u32> {
        use fuel_core_storage::transactional::HistoricalView;
        self.srv.shared.database.on_chain().latest_height().map(u32::from)
    }

    pub fn off_chain_height(&self) -> Option<u32> {
        use fuel_core_storage::transactional::HistoricalView;
        self.srv.shared.database.off_chain().latest_height().map(u32::from)
    }

    /// Wait (bounded) until the off-chain worker has processed every imported
    /// block. `false` = not quiescent in time (the caller reports inconclusive).
    pub async fn quiesce(&self) -> bool {
        for _ in 0..400 {
            if self.on_chain_height() == self.off_chain_height() {
                return true;
            }
            tokio::time::sleep(std::time::Duration::from_millis(10)).await;
        }
        false
    }

    /// Byte-wise dump of the node's on-chain, off-chain and relayer databases.
    pub fn dump(&self) -> Dump {
        let mut d = Dump::new();
        dump_on_chain(self.srv.shared.database.on_chain(), &mut d, TAG_ON_CHAIN);
        dump_off_chain(self.srv.shared.database.off_chain(), &mut d, TAG_OFF_CHAIN);
        dump_relayer(self.srv.shared.database.relayer(), &mut d, TAG_RELAYER);
        d
    }
}
