//! C42 — sequence-lock readers only see complete, recent values.
//! Real OS threads over the public `fuel_core_services::seqlock` API with a
//! value oracle. (The Miri leg lives in ../miri-seqlock and is run by
//! /verif/lib/miri_seqlock.py.)
use fuel_core_services::seqlock::SeqLock;
use std::{
    collections::BTreeSet,
    sync::{
        Arc,
        Mutex,
        atomic::{
            AtomicBool,
            AtomicU64,
            Ordering,
        },
    },
    thread,
    time::{
        Duration,
        Instant,
    },
};
use vcommon::{
    serde_json::json,
    *,
};

const WORDS: usize = 8;
type Payload = [u64; WORDS];

#[derive(Default)]
struct Obs {
    reads: u64,
    fresh: u64,
    overlapped: u64,
    distinct: BTreeSet<u64>,
    violations: Vec<(String, String)>,
    sample: Vec<String>,
}

/// One universe: 1 writer + `readers` reader threads over one lock.
fn universe(
    report: &Report,
    seed: u64,
    idx: usize,
    readers: usize,
    writes: u64,
    selftest: u64,
    pace: u64,
) {
    let (writer, reader) = unsafe { SeqLock::new([0u64; WORDS]) };
    let completed = Arc::new(AtomicU64::new(0));
    let done = Arc::new(AtomicBool::new(false));
    let obs = Arc::new(Mutex::new(Obs::default()));

    let mut hs = Vec::new();
    for r in 0..readers {
        let reader = reader.clone();
        let completed = completed.clone();
        let done = done.clone();
        let obs = obs.clone();
        hs.push(thread::spawn(move || {
            let mut local = Obs::default();
            let mut last = 0u64;
            let mut n = 0u64;
            loop {
                let finished = done.load(Ordering::SeqCst);
                let before = completed.load(Ordering::SeqCst);
                let mut v: Payload = reader.read();
                if selftest == 1 && n % 1000 == 999 {
                    v[WORDS - 1] = v[0].wrapping_add(1); // harness-side torn value
                }
                if selftest == 2 && n % 1000 == 999 && v[0] > 0 {
                    v = [v[0] - 1; WORDS]; // harness-side stale value
                }
                let after = completed.load(Ordering::SeqCst);
                n += 1;
                local.reads += 1;
                let first = v[0];
                let pre = if selftest > 0 { "selftest:" } else { "" };
                if v.iter().any(|x| *x != first) {
                    if local.violations.len() < 3 {
                        local.violations.push((
                            format!("{pre}torn_read"),
                            format!("reader {r} read #{n} returned a mix of two writes: {v:?}"),
                        ));
                    }
                } else {
                    if first < before && local.violations.len() < 3 {
                        local.violations.push((
                            format!("{pre}stale_read"),
                            format!("reader {r} read #{n} returned {first} although write {before} had completed before the read started"),
                        ));
                    }
                    if first < last && local.violations.len() < 3 {
                        local.violations.push((
                            format!("{pre}backwards_read"),
                            format!("reader {r} read #{n} returned {first} after having returned {last}"),
                        ));
                    }
                    if first > after.saturating_add(1) && local.violations.len() < 3 {
                        local.violations.push((
                            format!("{pre}never_written_value"),
                            format!("reader {r} read #{n} returned {first} but only {after} writes had completed after the read"),
                        ));
                    }
                    last = first;
                }
                if first > before {
                    local.overlapped += 1;
                } else {
                    local.fresh += 1;
                }
                if local.distinct.len() < 100_000 {
                    local.distinct.insert(first);
                }
                if local.sample.len() < 4 && first > before {
                    local.sample.push(format!("reader{r}: completed_before={before} value={first} completed_after={after}"));
                }
                if finished {
                    break;
                }
            }
            let mut o = obs.lock().unwrap();
            o.reads += local.reads;
            o.fresh += local.fresh;
            o.overlapped += local.overlapped;
            o.distinct.extend(local.distinct);
            o.violations.extend(local.violations);
            o.sample.extend(local.sample);
        }));
    }

    let w = {
        let completed = completed.clone();
        thread::spawn(move || {
            for i in 1..=writes {
                writer.write(move |data| {
                    for k in 0..WORDS {
                        // volatile so the stores are not merged into one vector store
                        unsafe { std::ptr::write_volatile(&mut data[k], i) };
                        if pace > 0 && k == WORDS / 2 {
                            for _ in 0..pace {
                                std::hint::spin_loop();
                            }
                        }
                    }
                });
                completed.store(i, Ordering::SeqCst);
            }
            // a write whose closure panics after a complete update must leave the
            // lock usable (sequence even again)
            let i = writes + 1;
            let r = catch(|| {
                writer.write(move |data| {
                    for k in 0..WORDS {
                        data[k] = i;
                    }
                    panic!("closure panics after a complete update");
                })
            });
            assert!(r.is_err());
            completed.store(i, Ordering::SeqCst);
            writer
        })
    };
    let _writer = w.join().expect("writer thread");
    done.store(true, Ordering::SeqCst);

    // With the writer quiescent a read must return on its first iteration.
    let (tx, rx) = std::sync::mpsc::channel();
    {
        let reader = reader.clone();
        thread::spawn(move || {
            let v = reader.read();
            let _ = tx.send(v);
        });
    }
    match rx.recv_timeout(Duration::from_secs(20)) {
        Ok(v) => {
            report.count("quiescent_reads_after_panicking_write");
            if v != [writes + 1; WORDS] {
                report.violation(
                    "quiescent_read_wrong_value",
                    format!("after all {} writes completed a read returned {v:?}", writes + 1),
                    json!({"seed": seed, "universe": idx}),
                );
            }
        }
        Err(_) => {
            report.violation(
                "reader_stuck_with_quiescent_writer",
                "no writer active, but read() did not return within 20 s: the sequence was left odd",
                json!({"seed": seed, "universe": idx}),
            );
            // readers would spin forever; leave them detached
            report.inconclusive("reader threads abandoned after stuck read");
            return;
        }
    }
    for h in hs {
        h.join().expect("reader thread");
    }
    let o = obs.lock().unwrap();
    report.evals(o.reads);
    report.add("reads", o.reads);
    report.add("reads_returning_value_newer_than_completed_before (overlapped a write)", o.overlapped);
    report.add("reads_returning_exactly_completed_before", o.fresh);
    report.add("writes", writes + 1);
    report.add("distinct_values_observed", o.distinct.len() as u64);
    for v in &o.distinct {
        report.distinct_hash(mix(*v, &[idx as u64, seed]));
    }
    for (sig, detail) in &o.violations {
        report.violation(
            sig.clone(),
            detail.clone(),
            json!({"seed": seed, "universe": idx, "readers": readers, "writes": writes, "note": "real threads: the schedule cannot be forced; the observation itself is the witness"}),
        );
    }
    if report.wants_sample() {
        report.sample(json!({"universe": idx, "readers": readers, "writes": writes, "overlapping_reads": o.sample}));
    }
}

fn main() {
    let args = Args::parse();
    install_quiet_panic_hook();
    let report = Report::new(&args.property);
    let selftest: u64 = args.extra.get("selftest").and_then(|s| s.parse().ok()).unwrap_or(0);
    match args.property.as_str() {
        "C42" => {
            // universes run one after the other; each uses up to 16 threads
            let t0 = Instant::now();
            let budget = Duration::from_secs(args.by_tier(12, 240));
            let mut idx = 0usize;
            let mut rng = rng_for(args.seed, &[tag("C42")]);
            use rand::Rng;
            while t0.elapsed() < budget && idx < args.by_tier(40, 400) {
                let readers = *pick(&mut rng, &[1usize, 2, 3, 7, 15]);
                let writes = *pick(&mut rng, &[20_000u64, 100_000, 400_000]);
                let pace = *pick(&mut rng, &[0u64, 0, 5, 50]);
                let _: u8 = rng.r#gen();
                universe(&report, args.seed, idx, readers, writes, selftest, pace);
                report.count("universes");
                idx += 1;
            }
            report.require("universes", 5);
            report.require("reads", 1_000_000);
            report.require("reads_returning_value_newer_than_completed_before (overlapped a write)", 1_000);
            report.require("quiescent_reads_after_panicking_write", 5);
        }
        other => report.inconclusive(format!("property {other} not implemented in this monitor")),
    }
    report.finish(
        &args,
        "exploration",
        "universe = 1 writer + k reader threads on the real SeqLock<[u64;8]>; writer publishes a completed-counter after each write returns; a read is judged for tearing (all 8 words equal), recency (value >= completed counter sampled before the read), per-reader monotonicity and never-written values; distinct = distinct (universe, value) pairs actually returned by reads; non-trivial reads are those that overlapped a write (value newer than the counter sampled before)",
        false,
        &[
            "x86-64 hardware schedule of this machine; interleavings are those the OS produced",
            "payload of 64 bytes written word by word with volatile stores",
        ],
    );
}
