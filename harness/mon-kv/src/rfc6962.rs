//! Independent RFC-6962-style binary Merkle root (SHA-256, 0x00 leaf prefix,
//! 0x01 node prefix, split at the largest power of two strictly below `n`).
//! Written from the RFC text; cross-checked once per run against fuel-merkle's
//! in-memory binary tree (`cross_check`).

use sha2::{
    Digest,
    Sha256,
};

pub type H = [u8; 32];

pub fn empty() -> H {
    Sha256::new().finalize().into()
}

pub fn leaf(data: &[u8]) -> H {
    let mut h = Sha256::new();
    h.update([0u8]);
    h.update(data);
    h.finalize().into()
}

pub fn node(l: &H, r: &H) -> H {
    let mut h = Sha256::new();
    h.update([1u8]);
    h.update(l);
    h.update(r);
    h.finalize().into()
}

/// MTH(D[n]) of RFC 6962 section 2.1
pub fn root<T: AsRef<[u8]>>(leaves: &[T]) -> H {
    match leaves.len() {
        0 => empty(),
        1 => leaf(leaves[0].as_ref()),
        n => {
            // largest power of two strictly smaller than n
            let mut k = 1usize;
            while k * 2 < n {
                k *= 2;
            }
            node(&root(&leaves[..k]), &root(&leaves[k..]))
        }
    }
}

/// Compare with fuel-merkle's in-memory binary tree for 0..=max leaves.
pub fn cross_check(max: usize) -> Result<(), String> {
    use fuel_core_types::fuel_merkle::binary::in_memory::MerkleTree;
    let mut leaves: Vec<Vec<u8>> = Vec::new();
    let mut tree = MerkleTree::new();
    for n in 0..=max {
        let mine = root(&leaves);
        let theirs = tree.root();
        if mine != theirs {
            return Err(format!(
                "own rfc6962 root differs from fuel-merkle in-memory binary tree at n={n}: {} vs {}",
                hex::encode(mine),
                hex::encode(theirs)
            ));
        }
        // leaves of varying length (incl. empty and 32 bytes like block ids)
        let data: Vec<u8> = match n % 4 {
            0 => vec![],
            1 => vec![n as u8],
            2 => (0..32u8).map(|i| i.wrapping_mul(n as u8 + 3)).collect(),
            _ => (0..70u8).map(|i| i ^ (n as u8)).collect(),
        };
        tree.push(&data);
        leaves.push(data);
    }
    Ok(())
}
