//! mon-kv: runtime monitors for the storage layer.
//!   C10 storage transactions (read-your-writes, exact commit, drop, Fail merges)
//!   C13 block Merkle accumulator (Merklized blueprint on FuelBlocks)
//!   C14 sparse Merkle roots vs table contents (Sparse blueprint, compression tables)

mod c10;
mod c13;
mod c14;
mod rfc6962;

use vcommon::*;

fn main() {
    let args = Args::parse();
    install_quiet_panic_hook();
    let report = Report::new(&args.property);
    if let Some(n) = args.extra.get("selftest") {
        report.info("selftest", serde_json::json!(n));
    }
    let (rule, assumptions): (&str, &[&str]) = match args.property.as_str() {
        "C10" => {
            c10::run(&args, &report);
            (c10::RULE, c10::ASSUMPTIONS)
        }
        "C13" => {
            c13::run(&args, &report);
            (c13::RULE, c13::ASSUMPTIONS)
        }
        "C14" => {
            c14::run(&args, &report);
            (c14::RULE, c14::ASSUMPTIONS)
        }
        other => {
            report.inconclusive(format!("property {other} not implemented in this monitor"));
            ("", &[])
        }
    };
    report.finish(&args, "exploration", rule, false, assumptions);
}
