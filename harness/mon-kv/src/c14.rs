//! C14 — sparse Merkle roots always match the table contents (Sparse blueprint,
//! merkleized compression-registry tables).
//!
//! Driver: generated single and batched ops, interleaved across the 8
//! merkleized tables of `Database<CompressionDatabase>` (in memory), executed
//! directly on the database, inside a transaction (committed or dropped) and
//! inside a nested transaction.
//! Oracle: `fuel_merkle::sparse::in_memory::MerkleTree::root_from_set` over the
//! table's current raw entries (read back by iteration; for uncommitted views
//! the iteration result overlaid with the transactions' pending change sets);
//! plus: roots of all *other* tables unchanged by the op.

use fuel_core::database::{
    Database,
    database_description::compression::CompressionDatabase,
};
use fuel_core_compression_service::storage::{
    self as cs,
    column::CompressionColumn,
    evictor_cache::MetadataKey,
    registry_index::ReverseKey,
    timestamps::{
        TimestampKey,
        TimestampKeyspace,
    },
};
use fuel_core_storage::{
    Error as StorageError,
    Mappable,
    MerkleRootStorage,
    StorageBatchMutate,
    StorageInspect,
    StorageMutate,
    iter::{
        IterDirection,
        IterableStore,
    },
    kv_store::{
        StorageColumn,
        WriteOperation,
    },
    merkle::column::MerkleizedColumn,
    transactional::{
        Changes,
        StorageTransaction,
        WriteTransaction,
    },
};
use fuel_core_types::{
    fuel_compression::RegistryKey,
    fuel_merkle::sparse::{
        MerkleTreeKey,
        in_memory::MerkleTree as SparseInMemory,
    },
    fuel_tx::{
        Address,
        AssetId,
        Bytes32,
        ContractId,
        ScriptCode,
        input::PredicateCode,
    },
    tai64::Tai64,
};
use rand::Rng;
use serde::{
    Deserialize,
    Serialize,
};
use std::collections::BTreeMap;
use vcommon::{
    serde_json::{
        self,
        json,
    },
    *,
};

pub const RULE: &str = "sessions of generated insert/replace/remove/take/init_storage/insert_batch/remove_batch ops interleaved over the 8 merkleized compression tables (<=6 keys, 4 values each, incl. empty byte values and duplicate keys inside batches) on Database<CompressionDatabase>: directly, inside a transaction (committed/dropped) and inside a nested transaction; after every op the root of every table is compared with root_from_set over that table's current raw entries, typed contents with a map model, and all other tables' roots with their value before the op. Non-trivial: the affected tree had >=1 leaf before the op or the batch has >=2 elements; distinct = (mode, table, op kind, size before, key present, batch length, duplicate in batch).";
pub const ASSUMPTIONS: &[&str] = &[
    "fuel-merkle's in-memory sparse tree (root_from_set) is the trusted primitive for the from-scratch root",
    "current entries of an uncommitted view = committed entries read by iteration, overlaid with the pending change sets (Changes) of the open transactions",
    "init_storage on a non-empty table may fail (documented) or succeed; in both cases roots must match contents",
];

type Db = Database<CompressionDatabase>;
type Col = MerkleizedColumn<CompressionColumn>;
type Root = [u8; 32];

const NTABLES: usize = 8;
const NVALS: u8 = 4;

fn regkey(i: u8) -> RegistryKey {
    let raw = [0u32, 1, 2, 255, 256, 65536, 16777213, 3, 257, 65535, 1 << 20, 4096][i as usize % 12];
    RegistryKey::try_from(raw).expect("registry key")
}

fn b32(tag: u8, j: u8) -> [u8; 32] {
    let mut a = [tag; 32];
    a[0] = j;
    a[31] = j.wrapping_mul(3);
    a
}

fn code_bytes(j: u8) -> Vec<u8> {
    match j {
        0 => vec![],
        1 => vec![0],
        2 => vec![1, 2, 3],
        _ => (0..40u8).collect(),
    }
}

/// harness-side description of one merkleized table
pub trait Tbl {
    type K: Clone;
    type V: Clone + PartialEq;
    type M: Mappable<Key = Self::K, OwnedKey = Self::K, Value = Self::V, OwnedValue = Self::V>;
    const NAME: &'static str;
    const NKEYS: u8;
    const TC: CompressionColumn;
    fn key(i: u8) -> Self::K;
    fn val(j: u8) -> Self::V;
    fn column() -> Col {
        Col::TableColumn(Self::TC)
    }
    /// primary key of the table's tree in the merkle metadata table
    fn primary() -> u32 {
        Self::column().id()
    }
}

macro_rules! tbl {
    ($name:ident, $m:ty, $k:ty, $v:ty, $nk:expr, $tc:expr, $key:expr, $val:expr) => {
        pub struct $name;
        impl Tbl for $name {
            type K = $k;
            type V = $v;
            type M = $m;
            const NAME: &'static str = stringify!($name);
            const NKEYS: u8 = $nk;
            const TC: CompressionColumn = $tc;
            fn key(i: u8) -> $k {
                ($key)(i % $nk)
            }
            fn val(j: u8) -> $v {
                ($val)(j % NVALS)
            }
        }
    };
}

tbl!(TAddress, cs::Address, RegistryKey, Address, 12, CompressionColumn::Address, regkey, |j| Address::from(b32(0xA1, j)));
tbl!(TAssetId, cs::AssetId, RegistryKey, AssetId, 12, CompressionColumn::AssetId, regkey, |j| AssetId::from(b32(0xA2, j)));
tbl!(TContractId, cs::ContractId, RegistryKey, ContractId, 12, CompressionColumn::ContractId, regkey, |j| ContractId::from(b32(0xA3, j)));
tbl!(TScriptCode, cs::ScriptCode, RegistryKey, ScriptCode, 12, CompressionColumn::ScriptCode, regkey, |j| ScriptCode::new(code_bytes(j)));
tbl!(TPredicateCode, cs::PredicateCode, RegistryKey, PredicateCode, 12, CompressionColumn::PredicateCode, regkey, |j| PredicateCode::new(code_bytes(j)));
tbl!(TRegistryIndex, cs::RegistryIndex, ReverseKey, RegistryKey, 6, CompressionColumn::RegistryIndex, |i: u8| match i {
    0 => ReverseKey::Address(Address::from(b32(1, 1))),
    1 => ReverseKey::Address(Address::from(b32(1, 2))),
    2 => ReverseKey::AssetId(AssetId::from(b32(1, 1))),
    3 => ReverseKey::ContractId(ContractId::from(b32(1, 1))),
    4 => ReverseKey::ScriptCode(Bytes32::from(b32(1, 1))),
    _ => ReverseKey::PredicateCode(Bytes32::from(b32(1, 1))),
}, |j| regkey(j + 1));
tbl!(TEvictorCache, cs::EvictorCache, MetadataKey, RegistryKey, 5, CompressionColumn::EvictorCache, |i: u8| match i {
    0 => MetadataKey::Address,
    1 => MetadataKey::AssetId,
    2 => MetadataKey::ContractId,
    3 => MetadataKey::ScriptCode,
    _ => MetadataKey::PredicateCode,
}, |j| regkey(j + 2));
tbl!(TTimestamps, cs::Timestamps, TimestampKey, Tai64, 10, CompressionColumn::Timestamps, |i: u8| TimestampKey {
    keyspace: [
        TimestampKeyspace::Address,
        TimestampKeyspace::AssetId,
        TimestampKeyspace::ContractId,
        TimestampKeyspace::ScriptCode,
        TimestampKeyspace::PredicateCode,
    ][i as usize % 5],
    key: regkey(i / 5 * 6),
}, |j: u8| Tai64(1u64 << 62 | (j as u64 * 1000)));

const TABLE_NAMES: [&str; NTABLES] = ["Address", "AssetId", "ContractId", "ScriptCode", "PredicateCode", "RegistryIndex", "EvictorCache", "Timestamps"];

/// everything the monitor needs from a handle for one table
pub trait TOps<T: Tbl>:
    StorageMutate<T::M, Error = StorageError> + StorageBatchMutate<T::M> + MerkleRootStorage<u32, T::M>
{
}
impl<T: Tbl, S> TOps<T> for S where
    S: StorageMutate<T::M, Error = StorageError> + StorageBatchMutate<T::M> + MerkleRootStorage<u32, T::M>
{
}

pub trait CompOps:
    TOps<TAddress>
    + TOps<TAssetId>
    + TOps<TContractId>
    + TOps<TScriptCode>
    + TOps<TPredicateCode>
    + TOps<TRegistryIndex>
    + TOps<TEvictorCache>
    + TOps<TTimestamps>
{
}
impl<S> CompOps for S where
    S: TOps<TAddress>
        + TOps<TAssetId>
        + TOps<TContractId>
        + TOps<TScriptCode>
        + TOps<TPredicateCode>
        + TOps<TRegistryIndex>
        + TOps<TEvictorCache>
        + TOps<TTimestamps>
{
}

macro_rules! dispatch {
    ($t:expr, $f:ident, $($arg:expr),*) => {
        match $t % NTABLES as u8 {
            0 => $f::<TAddress, _>($($arg),*),
            1 => $f::<TAssetId, _>($($arg),*),
            2 => $f::<TContractId, _>($($arg),*),
            3 => $f::<TScriptCode, _>($($arg),*),
            4 => $f::<TPredicateCode, _>($($arg),*),
            5 => $f::<TRegistryIndex, _>($($arg),*),
            6 => $f::<TEvictorCache, _>($($arg),*),
            _ => $f::<TTimestamps, _>($($arg),*),
        }
    };
}

#[derive(Clone, Debug, Serialize, Deserialize)]
#[serde(tag = "op", rename_all = "snake_case")]
pub enum TOp {
    Insert { k: u8, v: u8 },
    Replace { k: u8, v: u8 },
    Remove { k: u8 },
    Take { k: u8 },
    InitStorage { items: Vec<(u8, u8)> },
    InsertBatch { items: Vec<(u8, u8)> },
    RemoveBatch { ks: Vec<u8> },
}

impl TOp {
    fn name(&self) -> &'static str {
        match self {
            TOp::Insert { .. } => "insert",
            TOp::Replace { .. } => "replace",
            TOp::Remove { .. } => "remove",
            TOp::Take { .. } => "take",
            TOp::InitStorage { .. } => "init_storage",
            TOp::InsertBatch { .. } => "insert_batch",
            TOp::RemoveBatch { .. } => "remove_batch",
        }
    }
}

#[derive(Clone, Debug, Serialize, Deserialize)]
pub struct TStep {
    table: u8,
    op: TOp,
}

#[derive(Clone, Debug, Serialize, Deserialize)]
#[serde(tag = "block", rename_all = "snake_case")]
pub enum Block {
    Direct { steps: Vec<TStep> },
    Tx { steps: Vec<TStep>, commit: bool },
    Nested { outer_pre: Vec<TStep>, inner: Vec<TStep>, commit_inner: bool, outer_post: Vec<TStep>, commit_outer: bool },
}

#[derive(Clone, Debug, Serialize, Deserialize)]
pub struct Session {
    blocks: Vec<Block>,
}

#[derive(Debug)]
enum Outcome {
    /// Ok; for replace/take the previous value mapped back to its index (255 = not in the alphabet)
    Ok(Option<Option<u8>>),
    Err(String),
    Panic(String),
}

fn val_index<T: Tbl>(v: &T::V) -> u8 {
    (0..NVALS).find(|j| &T::val(*j) == v).unwrap_or(255)
}

fn apply<T: Tbl, S: TOps<T>>(s: &mut S, op: &TOp) -> Outcome {
    let r = catch(|| -> Result<Option<Option<u8>>, StorageError> {
        match op {
            TOp::Insert { k, v } => {
                StorageMutate::<T::M>::insert(s, &T::key(*k), &T::val(*v))?;
                Ok(None)
            }
            TOp::Replace { k, v } => {
                let p = StorageMutate::<T::M>::replace(s, &T::key(*k), &T::val(*v))?;
                Ok(Some(p.map(|p| val_index::<T>(&p))))
            }
            TOp::Remove { k } => {
                StorageMutate::<T::M>::remove(s, &T::key(*k))?;
                Ok(None)
            }
            TOp::Take { k } => {
                let p = StorageMutate::<T::M>::take(s, &T::key(*k))?;
                Ok(Some(p.map(|p| val_index::<T>(&p))))
            }
            TOp::InitStorage { items } | TOp::InsertBatch { items } => {
                let owned: Vec<(T::K, T::V)> = items.iter().map(|(k, v)| (T::key(*k), T::val(*v))).collect();
                let it = owned.iter().map(|(k, v)| (k, v));
                if matches!(op, TOp::InitStorage { .. }) {
                    StorageBatchMutate::<T::M>::init_storage(s, it)?;
                } else {
                    StorageBatchMutate::<T::M>::insert_batch(s, it)?;
                }
                Ok(None)
            }
            TOp::RemoveBatch { ks } => {
                let owned: Vec<T::K> = ks.iter().map(|k| T::key(*k)).collect();
                StorageBatchMutate::<T::M>::remove_batch(s, owned.iter())?;
                Ok(None)
            }
        }
    });
    match r {
        Ok(Ok(x)) => Outcome::Ok(x),
        Ok(Err(e)) => Outcome::Err(format!("{e}")),
        Err(p) => Outcome::Panic(p),
    }
}

/// typed contents of the table restricted to the key alphabet: key index -> value index
fn typed<T: Tbl, S: TOps<T>>(s: &S) -> Result<BTreeMap<u8, u8>, String> {
    catch(|| -> Result<TModel, String> {
        let mut m = BTreeMap::new();
        for i in 0..T::NKEYS {
            let k = T::key(i);
            let g = StorageInspect::<T::M>::get(s, &k).map_err(|e| format!("get: {e}"))?;
            let c = StorageInspect::<T::M>::contains_key(s, &k).map_err(|e| format!("contains_key: {e}"))?;
            if c != g.is_some() {
                return Err(format!("contains_key={c} but get is_some={} for key #{i}", g.is_some()));
            }
            if let Some(v) = g {
                m.insert(i, val_index::<T>(&*v));
            }
        }
        Ok(m)
    })
    .unwrap_or_else(|p| Err(format!("panic: {p}")))
}

fn root_of<T: Tbl, S: TOps<T>>(s: &S) -> Result<Root, String> {
    catch(|| <S as MerkleRootStorage<u32, T::M>>::root(s, &T::primary()).map_err(|e| format!("{e}")))
        .unwrap_or_else(|p| Err(format!("panic: {p}")))
}

fn col_of<T: Tbl, S>(_: &S) -> Col {
    T::column()
}

fn nkeys_of<T: Tbl, S>(_: &S) -> u8 {
    T::NKEYS
}

type Raw = BTreeMap<Vec<u8>, Vec<u8>>;

/// raw entries of all tables, read back from the committed database by iteration
fn raw_all(db: &Db) -> Result<Vec<Raw>, String> {
    let mut out = Vec::new();
    for t in 0..NTABLES as u8 {
        let col: Col = dispatch!(t, col_of, db);
        let mut m = Raw::new();
        for item in db.iter_store(col, None, None, IterDirection::Forward) {
            let (k, v) = item.map_err(|e| format!("iteration failed: {e}"))?;
            m.insert(k, v.to_vec());
        }
        out.push(m);
    }
    Ok(out)
}

fn overlay(base: &Raw, layers: &[&Changes], col: Col) -> Raw {
    let mut m = base.clone();
    for ch in layers {
        if let Some(tree) = ch.get(&col.id()) {
            for (k, op) in tree.iter() {
                let key: &[u8] = k.as_ref();
                match op {
                    WriteOperation::Insert(v) => {
                        m.insert(key.to_vec(), v.to_vec());
                    }
                    WriteOperation::Remove => {
                        m.remove(key);
                    }
                }
            }
        }
    }
    m
}

fn scratch_root(raw: &Raw) -> Root {
    SparseInMemory::root_from_set(raw.iter().map(|(k, v)| (MerkleTreeKey::new(k), v)))
}

/// how to obtain the "current entries" seen through a handle
trait Pending {
    /// pending change sets from the outermost open transaction to this handle
    fn layers(&self, outer: &[Changes]) -> Vec<Changes>;
    /// for the committed database: fresh read-back by iteration
    fn raw_now(&self) -> Option<Result<Vec<Raw>, String>>;
}

impl Pending for Db {
    fn layers(&self, _: &[Changes]) -> Vec<Changes> {
        vec![]
    }
    fn raw_now(&self) -> Option<Result<Vec<Raw>, String>> {
        Some(raw_all(self))
    }
}

impl<S> Pending for StorageTransaction<S> {
    fn layers(&self, outer: &[Changes]) -> Vec<Changes> {
        let mut v = outer.to_vec();
        v.push(self.changes().clone());
        v
    }
    fn raw_now(&self) -> Option<Result<Vec<Raw>, String>> {
        None
    }
}

struct Viol {
    sig: String,
    detail: String,
}

struct Ctx<'a> {
    report: &'a Report,
    selftest: u32,
    st_counter: u64,
}

type TModel = BTreeMap<u8, u8>;

fn all_roots<S: CompOps>(s: &S) -> Vec<Result<Root, String>> {
    (0..NTABLES as u8).map(|t| dispatch!(t, root_of, s)).collect()
}

/// Compare everything observable through `s` with the oracle.
/// `pre_roots`/`touched`: roots before the op and the table it addressed.
fn check_state<S: CompOps>(
    s: &S,
    base_raw: &[Raw],
    layers: &[&Changes],
    model: &[TModel],
    pre: Option<(&[Result<Root, String>], u8)>,
    after: &str,
    view: &str,
    ctx: &mut Ctx,
) -> Option<Viol> {
    let mut roots = all_roots(s);
    // ---- selftest perturbations ----
    if ctx.selftest == 1 {
        ctx.st_counter += 1;
        if ctx.st_counter % 5 == 0 {
            if let Some((_, t)) = pre {
                if let Ok(r) = &mut roots[t as usize] {
                    r[0] ^= 0x80; // corrupt the observed root
                }
            }
        }
    }
    if ctx.selftest == 3 {
        ctx.st_counter += 1;
        if ctx.st_counter % 5 == 0 {
            roots.swap(0, 1); // observed roots attributed to the wrong tables
        }
    }
    for t in 0..NTABLES {
        let col: Col = dispatch!(t as u8, col_of, s);
        let mut raw = overlay(&base_raw[t], layers, col);
        if ctx.selftest == 2 && raw.len() >= 2 {
            ctx.st_counter += 1;
            if ctx.st_counter % 5 == 0 {
                let k = raw.keys().next().cloned().unwrap();
                raw.remove(&k); // oracle fed a stale entry set
            }
        }
        let exp = scratch_root(&raw);
        ctx.report.count("checks.root_vs_from_scratch");
        match &roots[t] {
            Ok(r) if *r == exp => {}
            Ok(r) => {
                return Some(Viol {
                    sig: format!("root_mismatch after={after} view={view}"),
                    detail: format!(
                        "table {}: root {} but from-scratch root over its {} current entries is {}; entries (raw key=value): {:?}",
                        TABLE_NAMES[t],
                        hex::encode(r),
                        raw.len(),
                        hex::encode(exp),
                        raw.iter().map(|(k, v)| format!("{}={}", hex::encode(k), hex::encode(v))).collect::<Vec<_>>()
                    ),
                })
            }
            Err(e) => {
                return Some(Viol { sig: format!("root_unreadable after={after} view={view}"), detail: format!("table {}: {e}", TABLE_NAMES[t]) })
            }
        }
        // typed contents vs model (and no stray raw entries)
        let got: Result<TModel, String> = dispatch!(t as u8, typed, s);
        match got {
            Ok(g) => {
                if g != model[t] || raw.len() != model[t].len() {
                    return Some(Viol {
                        sig: format!("contents_mismatch after={after} view={view}"),
                        detail: format!(
                            "table {}: expected entries (key#->value#) {:?}, typed read-back {:?}, raw entry count {}",
                            TABLE_NAMES[t],
                            model[t],
                            g,
                            raw.len()
                        ),
                    });
                }
            }
            Err(e) => return Some(Viol { sig: format!("contents_unreadable after={after} view={view}"), detail: format!("table {}: {e}", TABLE_NAMES[t]) }),
        }
        if let Some((pre_roots, touched)) = pre {
            if t as u8 != touched % NTABLES as u8 {
                ctx.report.count("checks.foreign_root_unchanged");
                let mut before = pre_roots[t].clone();
                if ctx.selftest == 4 {
                    ctx.st_counter += 1;
                    if ctx.st_counter % 11 == 0 {
                        if let Ok(r) = &mut before {
                            r[5] ^= 1; // pretend the foreign root was different before the op
                        }
                    }
                }
                if before != roots[t] {
                    return Some(Viol {
                        sig: format!("foreign_root_changed after={after} view={view}"),
                        detail: format!(
                            "op on table {} changed root of table {}: before {:?} after {:?}",
                            TABLE_NAMES[touched as usize % NTABLES],
                            TABLE_NAMES[t],
                            before.as_ref().map(hex::encode),
                            roots[t].as_ref().map(hex::encode)
                        ),
                    });
                }
            }
        }
    }
    None
}

/// Apply the model semantics of `op`; returns (expected previous value for
/// replace/take, whether the op is expected to be rejected).
fn model_apply(m: &mut TModel, op: &TOp, nkeys: u8, accepted: bool) -> Option<Option<u8>> {
    match op {
        TOp::Insert { k, v } => {
            m.insert(k % nkeys, v % NVALS);
            None
        }
        TOp::Replace { k, v } => Some(m.insert(k % nkeys, v % NVALS)),
        TOp::Remove { k } => {
            m.remove(&(k % nkeys));
            None
        }
        TOp::Take { k } => Some(m.remove(&(k % nkeys))),
        TOp::InitStorage { items } | TOp::InsertBatch { items } => {
            if accepted {
                for (k, v) in items {
                    m.insert(k % nkeys, v % NVALS);
                }
            }
            None
        }
        TOp::RemoveBatch { ks } => {
            for k in ks {
                m.remove(&(k % nkeys));
            }
            None
        }
    }
}

/// Run one step through handle `s` and judge it.
fn do_step<S: CompOps + Pending>(
    s: &mut S,
    outer: &[Changes],
    base_raw: &[Raw],
    model: &mut Vec<TModel>,
    step: &TStep,
    mode: &str,
    view: &str,
    ctx: &mut Ctx,
) -> Option<Viol> {
    let report = ctx.report;
    report.eval();
    let t = step.table % NTABLES as u8;
    let name = step.op.name();
    report.count(&format!("ops.{name}"));
    report.count(&format!("ops_by_table.{}", TABLE_NAMES[t as usize]));
    report.count(&format!("mode.{mode}"));
    let nkeys: u8 = dispatch!(t, nkeys_of, &*s);
    let before = model[t as usize].clone();
    // shape bookkeeping
    let (present, blen, dup) = match &step.op {
        TOp::Insert { k, .. } | TOp::Replace { k, .. } | TOp::Remove { k } | TOp::Take { k } => (before.contains_key(&(k % nkeys)), 0usize, false),
        TOp::InitStorage { items } | TOp::InsertBatch { items } => {
            let ks: Vec<u8> = items.iter().map(|(k, _)| k % nkeys).collect();
            let mut d = ks.clone();
            d.sort();
            d.dedup();
            (ks.iter().any(|k| before.contains_key(k)), ks.len(), d.len() != ks.len())
        }
        TOp::RemoveBatch { ks } => {
            let ks: Vec<u8> = ks.iter().map(|k| k % nkeys).collect();
            let mut d = ks.clone();
            d.sort();
            d.dedup();
            (ks.iter().any(|k| before.contains_key(k)), ks.len(), d.len() != ks.len())
        }
    };
    if !before.is_empty() || blen >= 2 {
        report.distinct(&(mode.to_string(), t, name, before.len(), present, blen.min(5), dup));
    }
    report.count(&format!("tree_size_before.{}", before.len()));
    if dup {
        report.count("batch.with_duplicate_keys");
    }

    let pre_roots = all_roots(&*s);
    let out = dispatch!(t, apply, s, &step.op);
    let is_init_nonempty = matches!(&step.op, TOp::InitStorage { items } if !items.is_empty()) && !before.is_empty();
    match &out {
        Outcome::Panic(p) => {
            return Some(Viol { sig: format!("panic op={name}"), detail: format!("table {} {:?}: {p}", TABLE_NAMES[t as usize], step.op) })
        }
        Outcome::Err(e) => {
            if is_init_nonempty {
                report.count("init_storage.on_non_empty.rejected");
                // documented: state must be unchanged (model untouched)
            } else {
                return Some(Viol {
                    sig: format!("unexpected_error op={name} view={view}"),
                    detail: format!("table {} {:?} with entries {:?}: {e}", TABLE_NAMES[t as usize], step.op, before),
                });
            }
        }
        Outcome::Ok(prev) => {
            if is_init_nonempty {
                report.count("init_storage.on_non_empty.accepted");
            }
            if matches!(&step.op, TOp::InitStorage { items } if !items.is_empty()) && before.is_empty() {
                report.count("init_storage.on_empty.ok");
            }
            let exp_prev = model_apply(&mut model[t as usize], &step.op, nkeys, true);
            if exp_prev != *prev {
                return Some(Viol {
                    sig: format!("wrong_previous_value op={name} view={view}"),
                    detail: format!("table {} {:?}: expected previous {:?} observed {:?}", TABLE_NAMES[t as usize], step.op, exp_prev, prev),
                });
            }
            if before.len() == 1 && model[t as usize].is_empty() {
                report.count("tree.emptied");
            }
        }
    }
    let chs = s.layers(outer);
    let layers: Vec<&Changes> = chs.iter().collect();
    let fresh;
    let base: &[Raw] = match s.raw_now() {
        Some(Ok(r)) => {
            fresh = r;
            &fresh
        }
        Some(Err(e)) => return Some(Viol { sig: "iteration_failed".into(), detail: e }),
        None => base_raw,
    };
    check_state(&*s, base, &layers, model, Some((&pre_roots[..], t)), name, view, ctx)
}

fn run_session(sess: &Session, report: &Report, selftest: u32) -> Option<(usize, Viol)> {
    let mut ctx = Ctx { report, selftest, st_counter: 0 };
    let mut db: Db = Db::in_memory();
    let mut model: Vec<TModel> = vec![TModel::new(); NTABLES];

    for (bi, block) in sess.blocks.iter().enumerate() {
        macro_rules! fail {
            ($v:expr) => {
                return Some((bi, $v))
            };
        }
        macro_rules! raw_or_fail {
            () => {
                match raw_all(&db) {
                    Ok(r) => r,
                    Err(e) => fail!(Viol { sig: "iteration_failed".into(), detail: e }),
                }
            };
        }
        match block {
            Block::Direct { steps } => {
                // ops via the database's own wrappers: each op is committed at once
                for step in steps {
                    if let Some(v) = do_step(&mut db, &[], &[], &mut model, step, "direct", "committed", &mut ctx) {
                        fail!(v);
                    }
                }
            }
            Block::Tx { steps, commit } => {
                let base_raw = raw_or_fail!();
                let mut m = model.clone();
                let committed = {
                    let mut tx = db.write_transaction();
                    for step in steps {
                        if let Some(v) = do_step(&mut tx, &[], &base_raw, &mut m, step, "tx", "pending", &mut ctx) {
                            fail!(v);
                        }
                    }
                    if *commit {
                        match catch(|| tx.commit()) {
                            Ok(Ok(_)) => true,
                            Ok(Err(e)) => fail!(Viol { sig: "commit_failed".into(), detail: format!("{e}") }),
                            Err(p) => fail!(Viol { sig: "commit_panicked".into(), detail: p }),
                        }
                    } else {
                        false
                    }
                };
                if committed {
                    model = m;
                    ctx.report.count("tx.committed");
                } else {
                    ctx.report.count("tx.dropped");
                }
                let raw = raw_or_fail!();
                if !committed && raw != base_raw {
                    fail!(Viol { sig: "dropped_tx_changed_database".into(), detail: "raw table entries differ after dropping the transaction".into() });
                }
                if let Some(v) = check_state(&db, &raw, &[], &model, None, if committed { "commit" } else { "drop" }, "committed", &mut ctx) {
                    fail!(v);
                }
            }
            Block::Nested { outer_pre, inner, commit_inner, outer_post, commit_outer } => {
                let base_raw = raw_or_fail!();
                let mut m = model.clone();
                let committed = {
                    let mut tx1 = db.write_transaction();
                    for step in outer_pre {
                        if let Some(v) = do_step(&mut tx1, &[], &base_raw, &mut m, step, "nested_outer", "pending", &mut ctx) {
                            fail!(v);
                        }
                    }
                    let outer_changes = tx1.changes().clone();
                    let mut m2 = m.clone();
                    let inner_committed = {
                        let mut tx2 = tx1.write_transaction();
                        let outer = [outer_changes.clone()];
                        for step in inner {
                            if let Some(v) = do_step(&mut tx2, &outer, &base_raw, &mut m2, step, "nested_inner", "pending", &mut ctx) {
                                fail!(v);
                            }
                        }
                        if *commit_inner {
                            match catch(|| tx2.commit()) {
                                Ok(Ok(_)) => true,
                                Ok(Err(e)) => fail!(Viol { sig: "commit_failed".into(), detail: format!("{e}") }),
                                Err(p) => fail!(Viol { sig: "commit_panicked".into(), detail: p }),
                            }
                        } else {
                            false
                        }
                    };
                    if inner_committed {
                        m = m2;
                        ctx.report.count("tx.inner_committed");
                    } else {
                        ctx.report.count("tx.inner_dropped");
                    }
                    {
                        let chs = tx1.layers(&[]);
                        let layers: Vec<&Changes> = chs.iter().collect();
                        if let Some(v) = check_state(&tx1, &base_raw, &layers, &m, None, if inner_committed { "inner_commit" } else { "inner_drop" }, "pending", &mut ctx) {
                            fail!(v);
                        }
                    }
                    for step in outer_post {
                        if let Some(v) = do_step(&mut tx1, &[], &base_raw, &mut m, step, "nested_outer", "pending", &mut ctx) {
                            fail!(v);
                        }
                    }
                    if *commit_outer {
                        match catch(|| tx1.commit()) {
                            Ok(Ok(_)) => true,
                            Ok(Err(e)) => fail!(Viol { sig: "commit_failed".into(), detail: format!("{e}") }),
                            Err(p) => fail!(Viol { sig: "commit_panicked".into(), detail: p }),
                        }
                    } else {
                        false
                    }
                };
                if committed {
                    model = m;
                    ctx.report.count("tx.committed");
                } else {
                    ctx.report.count("tx.dropped");
                }
                let raw = raw_or_fail!();
                if !committed && raw != base_raw {
                    fail!(Viol { sig: "dropped_tx_changed_database".into(), detail: "raw table entries differ after dropping the transaction".into() });
                }
                if let Some(v) = check_state(&db, &raw, &[], &model, None, if committed { "commit" } else { "drop" }, "committed", &mut ctx) {
                    fail!(v);
                }
            }
        }
    }
    None
}

fn gen_steps<Rg: Rng>(rng: &mut Rg, lo: usize, hi: usize, hot: &[u8]) -> Vec<TStep> {
    let n = rng.gen_range(lo..hi);
    (0..n)
        .map(|_| {
            let table = if chance(rng, 75) { *pick(rng, hot) } else { rng.gen_range(0..NTABLES as u8) };
            let k = rng.gen_range(0..12u8);
            let v = rng.gen_range(0..NVALS);
            let op = match rng.gen_range(0..100) {
                0..=25 => TOp::Insert { k, v },
                26..=39 => TOp::Replace { k, v },
                40..=50 => TOp::Remove { k },
                51..=59 => TOp::Take { k },
                60..=67 => {
                    let n = rng.gen_range(0..5);
                    TOp::InitStorage { items: (0..n).map(|_| (rng.gen_range(0..12u8), rng.gen_range(0..NVALS))).collect() }
                }
                68..=86 => {
                    let n = rng.gen_range(0..5);
                    TOp::InsertBatch { items: (0..n).map(|_| (rng.gen_range(0..12u8), rng.gen_range(0..NVALS))).collect() }
                }
                _ => {
                    let n = rng.gen_range(0..5);
                    TOp::RemoveBatch { ks: (0..n).map(|_| rng.gen_range(0..12u8)).collect() }
                }
            };
            TStep { table, op }
        })
        .collect()
}

fn gen_session<Rg: Rng>(rng: &mut Rg, n_blocks: usize) -> Session {
    let hot: Vec<u8> = (0..2).map(|_| rng.gen_range(0..NTABLES as u8)).collect();
    let blocks = (0..n_blocks)
        .map(|_| match rng.gen_range(0..100) {
            0..=34 => Block::Direct { steps: gen_steps(rng, 1, 6, &hot) },
            35..=74 => Block::Tx { steps: gen_steps(rng, 1, 8, &hot), commit: chance(rng, 75) },
            _ => Block::Nested {
                outer_pre: gen_steps(rng, 0, 4, &hot),
                inner: gen_steps(rng, 1, 6, &hot),
                commit_inner: chance(rng, 70),
                outer_post: gen_steps(rng, 0, 3, &hot),
                commit_outer: chance(rng, 75),
            },
        })
        .collect();
    Session { blocks }
}

pub fn run(args: &Args, report: &Report) {
    let selftest: u32 = args.extra.get("selftest").and_then(|s| s.parse().ok()).unwrap_or(0);
    let prefix = if selftest > 0 { "selftest:" } else { "" };

    if let Some(rp) = read_replay(args) {
        let sess: Session = match serde_json::from_value(rp.get("session").cloned().unwrap_or_default()) {
            Ok(o) => o,
            Err(e) => {
                report.inconclusive(format!("cannot parse replay session: {e}"));
                return;
            }
        };
        match catch(|| run_session(&sess, report, selftest)) {
            Ok(Some((bi, v))) => report.violation(format!("{prefix}{}", v.sig), format!("block #{bi}: {}", v.detail), rp.clone()),
            Ok(None) => report.note("replay: no violation reproduced"),
            Err(p) => report.inconclusive(format!("replay panicked in harness: {p}")),
        }
        return;
    }

    let shards = args.by_tier(16, 64);
    let sessions = args.by_tier(600usize, 5000usize);
    let seed0 = args.seed;
    let r = report.clone();
    run_shards(report, args, shards, move |shard, seed| {
        for it in 0..sessions {
            let mut rng = rng_for(seed, &[it as u64]);
            let n_blocks = rng.gen_range(3..12);
            let sess = gen_session(&mut rng, n_blocks);
            if r.wants_sample() && it == 2 {
                r.sample(json!({"shard": shard, "iteration": it, "blocks": sess.blocks.iter().take(3).collect::<Vec<_>>()}));
            }
            r.count("sessions");
            match catch(|| run_session(&sess, &r, selftest)) {
                Ok(None) => {}
                Ok(Some((bi, v))) => {
                    let upto = Session { blocks: sess.blocks[..=bi].to_vec() };
                    r.violation(
                        format!("{prefix}{}", v.sig),
                        format!("shard {shard} session {it} block #{bi}: {}", v.detail),
                        json!({"seed": seed0, "shard": shard, "shard_seed": seed, "iteration": it, "failed_at_block": bi, "session": upto}),
                    );
                }
                Err(p) => r.inconclusive(format!("shard {shard} session {it}: harness panic {p}")),
            }
        }
    });

    let q = !args.is_thorough();
    let m = |quick: u64| if q { quick } else { quick * 5 };
    for k in ["insert", "replace", "remove", "take", "init_storage", "insert_batch", "remove_batch"] {
        report.require(&format!("ops.{k}"), m(6000));
    }
    for t in TABLE_NAMES {
        report.require(&format!("ops_by_table.{t}"), m(6000));
    }
    for k in ["mode.direct", "mode.tx", "mode.nested_outer", "mode.nested_inner"] {
        report.require(k, m(10000));
    }
    report.require("init_storage.on_empty.ok", m(1000));
    report.require("init_storage.on_non_empty.rejected", m(2000));
    report.require("batch.with_duplicate_keys", m(1000));
    report.require("tree.emptied", m(500));
    report.require("tree_size_before.4", m(3000));
    report.require("tree_size_before.8", m(300));
    report.require("tx.committed", m(8000));
    report.require("tx.dropped", m(2500));
    report.require("tx.inner_committed", m(3000));
    report.require("tx.inner_dropped", m(1000));
    report.require("checks.foreign_root_unchanged", m(500000));
}
