//! C10 — storage transactions: read-your-writes at any nesting depth, exact
//! commit, drop changes nothing, `ConflictPolicy::Fail` merge rejected exactly
//! when the merged change sets wrote the same key.
//!
//! Driver: generated op sequences over `InMemoryStorage<Column>` with owned,
//! nested `StorageTransaction`s (depth 0..=4), raw KV ops and typed
//! `ContractsRawCode` ops (structured_storage.rs), sibling merges.
//! Oracle: stack-of-maps model written from the property text.

use fuel_core_storage::{
    StorageInspect,
    StorageMutate,
    StorageRead,
    StorageReadError,
    StorageSize,
    StorageWrite,
    column::Column,
    kv_store::{
        BatchOperations,
        KeyValueInspect,
        KeyValueMutate,
        StorageColumn,
        Value,
        WriteOperation,
    },
    structured_storage::test::InMemoryStorage,
    tables::ContractsRawCode,
    transactional::{
        Changes,
        ConflictPolicy,
        IntoTransaction,
        Modifiable,
        ReadTransaction,
        StorageTransaction,
    },
};
use fuel_core_types::fuel_types::ContractId;
use rand::Rng;
use serde::{
    Deserialize,
    Serialize,
};
use std::collections::BTreeMap;
use vcommon::{
    serde_json::{
        self,
        json,
    },
    *,
};

pub const RULE: &str = "sessions of generated ops (raw get/exists/size_of_value/read_exact/read_zerofill/put/replace/write/take/delete/batch_write, typed ContractsRawCode get/contains/size/read*/insert/replace/remove/take/*_bytes, begin/commit/drop at depth 0..4, sibling merges under Fail/Overwrite) over 3 columns x 9 keys; every op's return value and, after commit/drop/merge, a full read sweep + pending change set + base content are compared with a stack-of-maps model. A case is non-trivial when it runs at depth>=1 on a key that has a pending entry in some layer or a base value; distinct = (op kind, depth, per-layer key state, offset class, buffer class).";
pub const ASSUMPTIONS: &[&str] = &[
    "base storage is fuel-core-storage's InMemoryStorage test helper (its Modifiable impl is part of the system under observation)",
    "read_exact returns the number of bytes read, read_zerofill the value length; offset > len is OutOfBounds (kv_store.rs docs/defaults)",
    "after a rejected Fail-policy merge the parent's pending set is unspecified; it is dropped and only 'nothing below changed' is judged",
];

type Base = InMemoryStorage<Column>;
type T1 = StorageTransaction<Base>;
type T2 = StorageTransaction<T1>;
type T3 = StorageTransaction<T2>;
type T4 = StorageTransaction<T3>;

const COLS: [Column; 3] = [Column::Metadata, Column::ContractsRawCode, Column::Coins];
const TYPED_COL: u8 = 1;
const NKEYS: u8 = 9;
const TYPED_KEYS: [u8; 3] = [6, 7, 8];
const VAL_LENS: [usize; 5] = [0, 1, 2, 5, 33];

fn key_bytes(k: u8) -> Vec<u8> {
    match k {
        0 => vec![],
        1 => vec![0],
        2 => vec![0, 0],
        3 => vec![1],
        4 => vec![0xff],
        5 => vec![0xff, 0xff],
        6 => vec![7; 32],
        7 => vec![8; 32],
        _ => vec![9; 32],
    }
}

fn contract_id(k: u8) -> ContractId {
    let b = key_bytes(k);
    let mut a = [0u8; 32];
    a.copy_from_slice(&b);
    ContractId::from(a)
}

#[derive(Clone, Copy, Debug, Serialize, Deserialize, Hash)]
pub struct Val {
    class: u8,
    salt: u8,
}

fn val_bytes(v: Val) -> Vec<u8> {
    let len = VAL_LENS[v.class as usize % VAL_LENS.len()];
    (0..len)
        .map(|i| v.salt.wrapping_mul(37).wrapping_add(i as u8).wrapping_add(1))
        .collect()
}

#[derive(Clone, Copy, Debug, Serialize, Deserialize, Hash)]
#[serde(rename_all = "snake_case")]
pub enum Off {
    Abs(u8),
    /// value length + delta
    Len(i8),
    /// usize::MAX - n
    Max(u8),
}

#[derive(Clone, Copy, Debug, Serialize, Deserialize, Hash)]
#[serde(rename_all = "snake_case")]
pub enum BufLen {
    Abs(u8),
    /// value length + delta
    Len(i8),
    /// (value length - offset) + delta
    Rem(i8),
}

#[derive(Clone, Debug, Serialize, Deserialize)]
#[serde(tag = "op", rename_all = "snake_case")]
pub enum Op {
    Get { c: u8, k: u8 },
    Exists { c: u8, k: u8 },
    Size { c: u8, k: u8 },
    ReadExact { c: u8, k: u8, off: Off, len: BufLen },
    ReadZerofill { c: u8, k: u8, off: Off, len: BufLen },
    Put { c: u8, k: u8, v: Val },
    Replace { c: u8, k: u8, v: Val },
    Write { c: u8, k: u8, v: Val },
    Take { c: u8, k: u8 },
    Delete { c: u8, k: u8 },
    Batch { c: u8, items: Vec<(u8, Option<Val>)> },
    TGet { k: u8 },
    TContains { k: u8 },
    TSize { k: u8 },
    TReadExact { k: u8, off: Off, len: BufLen },
    TReadZerofill { k: u8, off: Off, len: BufLen },
    TReadAlloc { k: u8 },
    TInsert { k: u8, v: Val },
    TReplace { k: u8, v: Val },
    TRemove { k: u8 },
    TTake { k: u8 },
    TWriteBytes { k: u8, v: Val },
    TReplaceBytes { k: u8, v: Val },
    TTakeBytes { k: u8 },
    Begin,
    Commit,
    Drop,
    Sweep,
    Merge {
        fail: bool,
        own: Vec<Op>,
        children: u8,
        child_ops: Vec<(u8, Op)>,
        commit: bool,
    },
}

impl Op {
    fn name(&self) -> &'static str {
        match self {
            Op::Get { .. } => "get",
            Op::Exists { .. } => "exists",
            Op::Size { .. } => "size_of_value",
            Op::ReadExact { .. } => "read_exact",
            Op::ReadZerofill { .. } => "read_zerofill",
            Op::Put { .. } => "put",
            Op::Replace { .. } => "replace",
            Op::Write { .. } => "write",
            Op::Take { .. } => "take",
            Op::Delete { .. } => "delete",
            Op::Batch { .. } => "batch_write",
            Op::TGet { .. } => "typed_get",
            Op::TContains { .. } => "typed_contains_key",
            Op::TSize { .. } => "typed_size_of_value",
            Op::TReadExact { .. } => "typed_read_exact",
            Op::TReadZerofill { .. } => "typed_read_zerofill",
            Op::TReadAlloc { .. } => "typed_read_alloc",
            Op::TInsert { .. } => "typed_insert",
            Op::TReplace { .. } => "typed_replace",
            Op::TRemove { .. } => "typed_remove",
            Op::TTake { .. } => "typed_take",
            Op::TWriteBytes { .. } => "typed_write_bytes",
            Op::TReplaceBytes { .. } => "typed_replace_bytes",
            Op::TTakeBytes { .. } => "typed_take_bytes",
            Op::Begin => "begin",
            Op::Commit => "commit",
            Op::Drop => "drop",
            Op::Sweep => "sweep",
            Op::Merge { .. } => "merge",
        }
    }

    fn is_write(&self) -> bool {
        matches!(
            self,
            Op::Put { .. }
                | Op::Replace { .. }
                | Op::Write { .. }
                | Op::Take { .. }
                | Op::Delete { .. }
                | Op::Batch { .. }
                | Op::TInsert { .. }
                | Op::TReplace { .. }
                | Op::TRemove { .. }
                | Op::TTake { .. }
                | Op::TWriteBytes { .. }
                | Op::TReplaceBytes { .. }
                | Op::TTakeBytes { .. }
        )
    }
}

// ---------------------------------------------------------------------------
// thin, object-safe boundary around the real storage transaction
// ---------------------------------------------------------------------------

type R<T> = Result<T, String>;

fn es<T>(r: fuel_core_storage::Result<T>) -> R<T> {
    r.map_err(|e| format!("{e}"))
}

pub trait Kv {
    fn get(&self, k: &[u8], c: Column) -> R<Option<Vec<u8>>>;
    fn exists(&self, k: &[u8], c: Column) -> R<bool>;
    fn size(&self, k: &[u8], c: Column) -> R<Option<usize>>;
    fn read_exact(&self, k: &[u8], c: Column, off: usize, buf: &mut [u8]) -> R<Result<usize, StorageReadError>>;
    fn read_zerofill(&self, k: &[u8], c: Column, off: usize, buf: &mut [u8]) -> R<Result<usize, StorageReadError>>;
    fn put(&mut self, k: &[u8], c: Column, v: &[u8]) -> R<()>;
    fn replace(&mut self, k: &[u8], c: Column, v: &[u8]) -> R<Option<Vec<u8>>>;
    fn write(&mut self, k: &[u8], c: Column, v: &[u8]) -> R<usize>;
    fn take(&mut self, k: &[u8], c: Column) -> R<Option<Vec<u8>>>;
    fn delete(&mut self, k: &[u8], c: Column) -> R<()>;
    fn batch(&mut self, c: Column, items: Vec<(Vec<u8>, Option<Vec<u8>>)>) -> R<()>;

    fn t_get(&self, id: &ContractId) -> R<Option<Vec<u8>>>;
    fn t_contains(&self, id: &ContractId) -> R<bool>;
    fn t_size(&self, id: &ContractId) -> R<Option<usize>>;
    fn t_read_exact(&self, id: &ContractId, off: usize, buf: &mut [u8]) -> R<Result<usize, StorageReadError>>;
    fn t_read_zerofill(&self, id: &ContractId, off: usize, buf: &mut [u8]) -> R<Result<usize, StorageReadError>>;
    fn t_read_alloc(&self, id: &ContractId) -> R<Option<Vec<u8>>>;
    fn t_insert(&mut self, id: &ContractId, v: &[u8]) -> R<()>;
    fn t_replace(&mut self, id: &ContractId, v: &[u8]) -> R<Option<Vec<u8>>>;
    fn t_remove(&mut self, id: &ContractId) -> R<()>;
    fn t_take(&mut self, id: &ContractId) -> R<Option<Vec<u8>>>;
    fn t_write_bytes(&mut self, id: &ContractId, v: &[u8]) -> R<()>;
    fn t_replace_bytes(&mut self, id: &ContractId, v: &[u8]) -> R<Option<Vec<u8>>>;
    fn t_take_bytes(&mut self, id: &ContractId) -> R<Option<Vec<u8>>>;

    /// the transaction's own pending change set, flattened and sorted
    fn pending(&self) -> Vec<(MKey, Option<Vec<u8>>)>;
}

pub fn flatten(changes: &Changes) -> Vec<(MKey, Option<Vec<u8>>)> {
    let mut out = Vec::new();
    for (col, tree) in changes.iter() {
        for (k, op) in tree.iter() {
            let key: &[u8] = k.as_ref();
            let v = match op {
                WriteOperation::Insert(v) => Some(v.to_vec()),
                WriteOperation::Remove => None,
            };
            out.push(((*col, key.to_vec()), v));
        }
    }
    out.sort();
    out
}

impl<S> Kv for StorageTransaction<S>
where
    S: KeyValueInspect<Column = Column>,
{
    fn get(&self, k: &[u8], c: Column) -> R<Option<Vec<u8>>> {
        es(KeyValueInspect::get(self, k, c)).map(|o| o.map(|v| v.to_vec()))
    }
    fn exists(&self, k: &[u8], c: Column) -> R<bool> {
        es(KeyValueInspect::exists(self, k, c))
    }
    fn size(&self, k: &[u8], c: Column) -> R<Option<usize>> {
        es(KeyValueInspect::size_of_value(self, k, c))
    }
    fn read_exact(&self, k: &[u8], c: Column, off: usize, buf: &mut [u8]) -> R<Result<usize, StorageReadError>> {
        es(KeyValueInspect::read_exact(self, k, c, off, buf))
    }
    fn read_zerofill(&self, k: &[u8], c: Column, off: usize, buf: &mut [u8]) -> R<Result<usize, StorageReadError>> {
        es(KeyValueInspect::read_zerofill(self, k, c, off, buf))
    }
    fn put(&mut self, k: &[u8], c: Column, v: &[u8]) -> R<()> {
        es(KeyValueMutate::put(self, k, c, Value::from(v)))
    }
    fn replace(&mut self, k: &[u8], c: Column, v: &[u8]) -> R<Option<Vec<u8>>> {
        es(KeyValueMutate::replace(self, k, c, Value::from(v))).map(|o| o.map(|v| v.to_vec()))
    }
    fn write(&mut self, k: &[u8], c: Column, v: &[u8]) -> R<usize> {
        es(KeyValueMutate::write(self, k, c, v))
    }
    fn take(&mut self, k: &[u8], c: Column) -> R<Option<Vec<u8>>> {
        es(KeyValueMutate::take(self, k, c)).map(|o| o.map(|v| v.to_vec()))
    }
    fn delete(&mut self, k: &[u8], c: Column) -> R<()> {
        es(KeyValueMutate::delete(self, k, c))
    }
    fn batch(&mut self, c: Column, items: Vec<(Vec<u8>, Option<Vec<u8>>)>) -> R<()> {
        es(BatchOperations::batch_write(
            self,
            c,
            items.into_iter().map(|(k, v)| {
                (
                    k,
                    match v {
                        Some(v) => WriteOperation::Insert(Value::from(v)),
                        None => WriteOperation::Remove,
                    },
                )
            }),
        ))
    }

    fn t_get(&self, id: &ContractId) -> R<Option<Vec<u8>>> {
        es(StorageInspect::<ContractsRawCode>::get(self, id)).map(|o| o.map(|c| Vec::<u8>::from(c.into_owned())))
    }
    fn t_contains(&self, id: &ContractId) -> R<bool> {
        es(StorageInspect::<ContractsRawCode>::contains_key(self, id))
    }
    fn t_size(&self, id: &ContractId) -> R<Option<usize>> {
        es(StorageSize::<ContractsRawCode>::size_of_value(self, id))
    }
    fn t_read_exact(&self, id: &ContractId, off: usize, buf: &mut [u8]) -> R<Result<usize, StorageReadError>> {
        es(StorageRead::<ContractsRawCode>::read_exact(self, id, off, buf))
    }
    fn t_read_zerofill(&self, id: &ContractId, off: usize, buf: &mut [u8]) -> R<Result<usize, StorageReadError>> {
        es(StorageRead::<ContractsRawCode>::read_zerofill(self, id, off, buf))
    }
    fn t_read_alloc(&self, id: &ContractId) -> R<Option<Vec<u8>>> {
        es(StorageRead::<ContractsRawCode>::read_alloc(self, id))
    }
    fn t_insert(&mut self, id: &ContractId, v: &[u8]) -> R<()> {
        es(StorageMutate::<ContractsRawCode>::insert(self, id, v))
    }
    fn t_replace(&mut self, id: &ContractId, v: &[u8]) -> R<Option<Vec<u8>>> {
        es(StorageMutate::<ContractsRawCode>::replace(self, id, v)).map(|o| o.map(Vec::<u8>::from))
    }
    fn t_remove(&mut self, id: &ContractId) -> R<()> {
        es(StorageMutate::<ContractsRawCode>::remove(self, id))
    }
    fn t_take(&mut self, id: &ContractId) -> R<Option<Vec<u8>>> {
        es(StorageMutate::<ContractsRawCode>::take(self, id)).map(|o| o.map(Vec::<u8>::from))
    }
    fn t_write_bytes(&mut self, id: &ContractId, v: &[u8]) -> R<()> {
        es(StorageWrite::<ContractsRawCode>::write_bytes(self, id, v))
    }
    fn t_replace_bytes(&mut self, id: &ContractId, v: &[u8]) -> R<Option<Vec<u8>>> {
        es(StorageWrite::<ContractsRawCode>::replace_bytes(self, id, v))
    }
    fn t_take_bytes(&mut self, id: &ContractId) -> R<Option<Vec<u8>>> {
        es(StorageWrite::<ContractsRawCode>::take_bytes(self, id))
    }

    fn pending(&self) -> Vec<(MKey, Option<Vec<u8>>)> {
        flatten(self.changes())
    }
}

// ---------------------------------------------------------------------------
// reference model: a stack of maps
// ---------------------------------------------------------------------------

pub type MKey = (u32, Vec<u8>);
type Layer = BTreeMap<MKey, Option<Vec<u8>>>;

#[derive(Default, Clone)]
struct Model {
    base: BTreeMap<MKey, Vec<u8>>,
    layers: Vec<Layer>,
}

trait View {
    fn get(&self, k: &MKey) -> Option<Vec<u8>>;
    fn set(&mut self, k: MKey, v: Option<Vec<u8>>);
    /// per layer from the top: 'i' pending insert, 'r' pending remove, '-' none;
    /// last char 'P'/'A' base present/absent
    fn state(&self, k: &MKey) -> String;
}

impl Model {
    fn get_below(&self, upto: usize, k: &MKey) -> Option<Vec<u8>> {
        for l in self.layers[..upto].iter().rev() {
            if let Some(e) = l.get(k) {
                return e.clone();
            }
        }
        self.base.get(k).cloned()
    }
    fn commit(&mut self) {
        let top = self.layers.pop().expect("layer");
        if let Some(parent) = self.layers.last_mut() {
            for (k, v) in top {
                parent.insert(k, v);
            }
        } else {
            for (k, v) in top {
                match v {
                    Some(v) => {
                        self.base.insert(k, v);
                    }
                    None => {
                        self.base.remove(&k);
                    }
                }
            }
        }
    }
}

impl View for Model {
    fn get(&self, k: &MKey) -> Option<Vec<u8>> {
        self.get_below(self.layers.len(), k)
    }
    fn set(&mut self, k: MKey, v: Option<Vec<u8>>) {
        self.layers.last_mut().expect("write needs a layer").insert(k, v);
    }
    fn state(&self, k: &MKey) -> String {
        let mut s = String::new();
        for l in self.layers.iter().rev() {
            s.push(match l.get(k) {
                Some(Some(_)) => 'i',
                Some(None) => 'r',
                None => '-',
            });
        }
        s.push(if self.base.contains_key(k) { 'P' } else { 'A' });
        s
    }
}

struct ChildView<'a> {
    layer: &'a mut Layer,
    parent: &'a Model,
}

impl View for ChildView<'_> {
    fn get(&self, k: &MKey) -> Option<Vec<u8>> {
        match self.layer.get(k) {
            Some(e) => e.clone(),
            None => self.parent.get(k),
        }
    }
    fn set(&mut self, k: MKey, v: Option<Vec<u8>>) {
        self.layer.insert(k, v);
    }
    fn state(&self, k: &MKey) -> String {
        let c = match self.layer.get(k) {
            Some(Some(_)) => 'i',
            Some(None) => 'r',
            None => '-',
        };
        format!("{c}{}", self.parent.state(k))
    }
}

// ---------------------------------------------------------------------------
// execution + judgement
// ---------------------------------------------------------------------------

struct Viol {
    sig: String,
    detail: String,
}

struct Ctx<'a> {
    report: &'a Report,
    selftest: u32,
    st_counter: u64,
    depth: usize,
    in_child: bool,
}

impl Ctx<'_> {
    fn tick(&mut self, every: u64) -> bool {
        self.st_counter += 1;
        self.st_counter % every == 0
    }
}

fn hexo(v: &Option<Vec<u8>>) -> String {
    match v {
        Some(v) => format!("Some({})", hex::encode(v)),
        None => "None".into(),
    }
}

fn resolve_off(off: Off, vlen: usize) -> usize {
    match off {
        Off::Abs(n) => n as usize,
        Off::Len(d) => (vlen as i64 + d as i64).max(0) as usize,
        Off::Max(n) => usize::MAX - n as usize,
    }
}

fn resolve_len(len: BufLen, vlen: usize, off: usize) -> usize {
    let n = match len {
        BufLen::Abs(n) => n as i64,
        BufLen::Len(d) => vlen as i64 + d as i64,
        BufLen::Rem(d) => vlen.saturating_sub(off) as i64 + d as i64,
    };
    n.clamp(0, 80) as usize
}

/// model of read_exact per kv_store.rs docs
fn model_read_exact(v: &Option<Vec<u8>>, off: usize, n: usize) -> (Result<usize, StorageReadError>, Option<Vec<u8>>) {
    match v {
        None => (Err(StorageReadError::KeyNotFound), None),
        Some(v) => match off.checked_add(n) {
            Some(end) if end <= v.len() => (Ok(n), Some(v[off..end].to_vec())),
            _ => (Err(StorageReadError::OutOfBounds), None),
        },
    }
}

/// model of read_zerofill per kv_store.rs docs
fn model_read_zerofill(v: &Option<Vec<u8>>, off: usize, n: usize) -> (Result<usize, StorageReadError>, Option<Vec<u8>>) {
    match v {
        None => (Err(StorageReadError::KeyNotFound), None),
        Some(v) => {
            if off > v.len() {
                return (Err(StorageReadError::OutOfBounds), None);
            }
            let mut out = vec![0u8; n];
            let avail = (v.len() - off).min(n);
            out[..avail].copy_from_slice(&v[off..off + avail]);
            (Ok(v.len()), Some(out))
        }
    }
}

fn class_off(off: Off) -> String {
    match off {
        Off::Abs(n) => format!("a{}", n.min(3)),
        Off::Len(d) => format!("l{d}"),
        Off::Max(n) => format!("m{}", n.min(2)),
    }
}

fn class_len(l: BufLen) -> String {
    match l {
        BufLen::Abs(n) => format!("a{}", n.min(3)),
        BufLen::Len(d) => format!("l{d}"),
        BufLen::Rem(d) => format!("r{d}"),
    }
}

/// stable summary of a per-layer key state: what the top layer holds for the key
/// and whether a value is visible below the top layer
fn short_state(state: &str) -> String {
    let chars: Vec<char> = state.chars().collect();
    let (layers, base) = chars.split_at(chars.len() - 1);
    let top = match layers.first() {
        Some('i') => "pending_insert",
        Some('r') => "pending_remove",
        _ => "none",
    };
    let below = match layers.iter().skip(1).find(|c| **c != '-') {
        Some('i') => "present",
        Some(_) => "absent",
        None => {
            if base[0] == 'P' {
                "present"
            } else {
                "absent"
            }
        }
    };
    format!("top={top} below={below}")
}

macro_rules! mismatch {
    ($op:expr, $what:expr, $state:expr, $($arg:tt)*) => {
        return Err(Viol {
            sig: format!("{} {} [{}]", $op.name(), $what, short_state(&$state)),
            detail: format!("key_state(top..base)={} {}", $state, format!($($arg)*)),
        })
    };
}

/// Execute one read/write op against the real transaction and the model view.
fn exec_rw(kv: &mut dyn Kv, view: &mut dyn View, op: &Op, ctx: &mut Ctx) -> Result<(), Viol> {
    let report = ctx.report;
    report.eval();
    report.count(&format!("ops.{}", op.name()));
    let mk = |c: u8, k: u8| -> (Column, MKey) {
        let col = COLS[c as usize % COLS.len()];
        (col, (col.id(), key_bytes(k)))
    };
    // key + shape bookkeeping
    let (c, k) = match op {
        Op::Get { c, k }
        | Op::Exists { c, k }
        | Op::Size { c, k }
        | Op::ReadExact { c, k, .. }
        | Op::ReadZerofill { c, k, .. }
        | Op::Put { c, k, .. }
        | Op::Replace { c, k, .. }
        | Op::Write { c, k, .. }
        | Op::Take { c, k }
        | Op::Delete { c, k } => (*c, *k),
        Op::Batch { c, items } => (*c, items.first().map(|i| i.0).unwrap_or(0)),
        Op::TGet { k }
        | Op::TContains { k }
        | Op::TSize { k }
        | Op::TReadExact { k, .. }
        | Op::TReadZerofill { k, .. }
        | Op::TReadAlloc { k }
        | Op::TInsert { k, .. }
        | Op::TReplace { k, .. }
        | Op::TRemove { k }
        | Op::TTake { k }
        | Op::TWriteBytes { k, .. }
        | Op::TReplaceBytes { k, .. }
        | Op::TTakeBytes { k } => (TYPED_COL, *k),
        _ => unreachable!("structural op in exec_rw"),
    };
    let (col, mkey) = mk(c, k);
    let state = view.state(&mkey);
    let cur = view.get(&mkey);
    let vlen = cur.as_ref().map(|v| v.len()).unwrap_or(0);
    let (oc, lc) = match op {
        Op::ReadExact { off, len, .. }
        | Op::ReadZerofill { off, len, .. }
        | Op::TReadExact { off, len, .. }
        | Op::TReadZerofill { off, len, .. } => (class_off(*off), class_len(*len)),
        _ => (String::new(), String::new()),
    };
    report.count(&format!("keystate.{state}"));
    if ctx.depth >= 1 && state.chars().any(|ch| ch != '-' && ch != 'A') {
        report.distinct(&(op.name(), ctx.depth, ctx.in_child, state.clone(), oc, lc, vlen.min(3)));
    }
    let id = if TYPED_KEYS.contains(&k) { Some(contract_id(k)) } else { None };
    let kb = mkey.1.clone();
    let st = ctx.selftest;

    macro_rules! call {
        ($e:expr) => {
            match catch(|| $e) {
                Ok(Ok(v)) => v,
                Ok(Err(e)) => mismatch!(op, "returned storage error", state, "{} on key {:?} col {:?}: unexpected error {e}", op.name(), kb, col),
                Err(p) => mismatch!(op, "panicked", state, "{} on key {:?} col {:?} panicked: {p}", op.name(), kb, col),
            }
        };
    }

    match op {
        Op::Get { .. } | Op::TGet { .. } | Op::TReadAlloc { .. } => {
            let mut got = match op {
                Op::Get { .. } => call!(kv.get(&kb, col)),
                Op::TGet { .. } => call!(kv.t_get(id.as_ref().unwrap())),
                _ => call!(kv.t_read_alloc(id.as_ref().unwrap())),
            };
            if st == 1 && ctx.tick(5) {
                // selftest: corrupt the observed value
                got = match got {
                    Some(mut v) if !v.is_empty() => {
                        v[0] ^= 0x40;
                        Some(v)
                    }
                    Some(_) => None,
                    None => Some(vec![1]),
                };
            }
            if got != cur {
                mismatch!(op, "wrong value", state, "{} key {:?} col {:?}: expected {} observed {}", op.name(), kb, col, hexo(&cur), hexo(&got));
            }
        }
        Op::Exists { .. } | Op::TContains { .. } => {
            let got = match op {
                Op::Exists { .. } => call!(kv.exists(&kb, col)),
                _ => call!(kv.t_contains(id.as_ref().unwrap())),
            };
            if got != cur.is_some() {
                mismatch!(op, "wrong answer", state, "{} key {:?} col {:?}: expected {} observed {}", op.name(), kb, col, cur.is_some(), got);
            }
        }
        Op::Size { .. } | Op::TSize { .. } => {
            let got = match op {
                Op::Size { .. } => call!(kv.size(&kb, col)),
                _ => call!(kv.t_size(id.as_ref().unwrap())),
            };
            let exp = cur.as_ref().map(|v| v.len());
            if got != exp {
                mismatch!(op, "wrong size", state, "{} key {:?} col {:?}: expected {:?} observed {:?}", op.name(), kb, col, exp, got);
            }
        }
        Op::ReadExact { off, len, .. }
        | Op::ReadZerofill { off, len, .. }
        | Op::TReadExact { off, len, .. }
        | Op::TReadZerofill { off, len, .. } => {
            let o = resolve_off(*off, vlen);
            let n = resolve_len(*len, vlen, o);
            let mut buf = vec![0xA5u8; n];
            let exact = matches!(op, Op::ReadExact { .. } | Op::TReadExact { .. });
            let got = match op {
                Op::ReadExact { .. } => call!(kv.read_exact(&kb, col, o, &mut buf)),
                Op::ReadZerofill { .. } => call!(kv.read_zerofill(&kb, col, o, &mut buf)),
                Op::TReadExact { .. } => call!(kv.t_read_exact(id.as_ref().unwrap(), o, &mut buf)),
                _ => call!(kv.t_read_zerofill(id.as_ref().unwrap(), o, &mut buf)),
            };
            let (exp, exp_buf) = if exact { model_read_exact(&cur, o, n) } else { model_read_zerofill(&cur, o, n) };
            report.count(&format!(
                "read_outcome.{}.{}",
                if exact { "exact" } else { "zerofill" },
                match &exp {
                    Ok(_) => "ok",
                    Err(StorageReadError::KeyNotFound) => "key_not_found",
                    Err(StorageReadError::OutOfBounds) => "out_of_bounds",
                }
            ));
            if got != exp {
                mismatch!(op, "wrong result", state, "{} key {:?} col {:?} value {} offset {o} buf_len {n}: expected {:?} observed {:?}", op.name(), kb, col, hexo(&cur), exp, got);
            }
            if let Some(eb) = exp_buf {
                if eb != buf {
                    mismatch!(op, "wrong bytes", state, "{} key {:?} col {:?} value {} offset {o} buf_len {n}: expected bytes {} observed {}", op.name(), kb, col, hexo(&cur), hex::encode(&eb), hex::encode(&buf));
                }
            }
        }
        Op::Put { v, .. } | Op::TInsert { v, .. } | Op::TWriteBytes { v, .. } => {
            let vb = val_bytes(*v);
            match op {
                Op::Put { .. } => call!(kv.put(&kb, col, &vb)),
                Op::TInsert { .. } => call!(kv.t_insert(id.as_ref().unwrap(), &vb)),
                _ => call!(kv.t_write_bytes(id.as_ref().unwrap(), &vb)),
            };
            view.set(mkey, Some(vb));
        }
        Op::Write { v, .. } => {
            let vb = val_bytes(*v);
            let n = call!(kv.write(&kb, col, &vb));
            if n != vb.len() {
                mismatch!(op, "wrong written length", state, "write key {:?}: expected {} observed {n}", kb, vb.len());
            }
            view.set(mkey, Some(vb));
        }
        Op::Replace { v, .. } | Op::TReplace { v, .. } | Op::TReplaceBytes { v, .. } => {
            let vb = val_bytes(*v);
            let prev = match op {
                Op::Replace { .. } => call!(kv.replace(&kb, col, &vb)),
                Op::TReplace { .. } => call!(kv.t_replace(id.as_ref().unwrap(), &vb)),
                _ => call!(kv.t_replace_bytes(id.as_ref().unwrap(), &vb)),
            };
            if prev != cur {
                mismatch!(op, "wrong previous value", state, "{} key {:?} col {:?}: expected previous {} observed {}", op.name(), kb, col, hexo(&cur), hexo(&prev));
            }
            view.set(mkey, Some(vb));
        }
        Op::Take { .. } | Op::TTake { .. } | Op::TTakeBytes { .. } => {
            let prev = match op {
                Op::Take { .. } => call!(kv.take(&kb, col)),
                Op::TTake { .. } => call!(kv.t_take(id.as_ref().unwrap())),
                _ => call!(kv.t_take_bytes(id.as_ref().unwrap())),
            };
            if prev != cur {
                mismatch!(op, "wrong previous value", state, "{} key {:?} col {:?}: expected previous {} observed {}", op.name(), kb, col, hexo(&cur), hexo(&prev));
            }
            view.set(mkey, None);
        }
        Op::Delete { .. } | Op::TRemove { .. } => {
            if st == 2 && ctx.tick(2) {
                // selftest: a wrapper that swallows the delete
            } else {
                match op {
                    Op::Delete { .. } => call!(kv.delete(&kb, col)),
                    _ => call!(kv.t_remove(id.as_ref().unwrap())),
                };
            }
            view.set(mkey, None);
        }
        Op::Batch { items, .. } => {
            let real: Vec<(Vec<u8>, Option<Vec<u8>>)> =
                items.iter().map(|(k, v)| (key_bytes(*k), v.map(val_bytes))).collect();
            call!(kv.batch(col, real.clone()));
            for (k, v) in real {
                view.set((col.id(), k), v);
            }
        }
        _ => unreachable!(),
    }
    Ok(())
}

/// full read sweep of the key alphabet through `kv` against `view`
fn sweep(kv: &dyn Kv, view: &dyn View, what: &str, ctx: &mut Ctx) -> Result<(), Viol> {
    ctx.report.eval();
    ctx.report.count("ops.sweep");
    for col in COLS {
        for k in 0..NKEYS {
            let kb = key_bytes(k);
            let mkey = (col.id(), kb.clone());
            let exp = view.get(&mkey);
            let got = catch(|| (kv.get(&kb, col), kv.exists(&kb, col), kv.size(&kb, col)));
            let (g, e, s) = match got {
                Ok((Ok(g), Ok(e), Ok(s))) => (g, e, s),
                other => {
                    return Err(Viol {
                        sig: format!("sweep after {what}: read failed"),
                        detail: format!("key {kb:?} col {col:?}: {:?}", other.map(|_| "storage error")),
                    })
                }
            };
            if g != exp || e != exp.is_some() || s != exp.as_ref().map(|v| v.len()) {
                return Err(Viol {
                    sig: format!("sweep after {what}: content differs from model [{}]", short_state(&view.state(&mkey))),
                    detail: format!(
                        "after {what} at depth {}: key {kb:?} col {col:?}: expected {} observed get={} exists={e} size={s:?}",
                        ctx.depth,
                        hexo(&exp),
                        hexo(&g)
                    ),
                });
            }
        }
    }
    Ok(())
}

fn compare_pending(kv: &dyn Kv, layer: &Layer, what: &str) -> Result<(), Viol> {
    let real = kv.pending();
    let model: Vec<(MKey, Option<Vec<u8>>)> = layer.iter().map(|(k, v)| (k.clone(), v.clone())).collect();
    if real != model {
        let rk: Vec<_> = real.iter().map(|(k, v)| format!("{}:{}={}", k.0, hex::encode(&k.1), hexo(v))).collect();
        let mk: Vec<_> = model.iter().map(|(k, v)| format!("{}:{}={}", k.0, hex::encode(&k.1), hexo(v))).collect();
        return Err(Viol {
            sig: format!("pending change set after {what} differs from model"),
            detail: format!("after {what}: expected net changes {mk:?} observed {rk:?}"),
        });
    }
    Ok(())
}

fn compare_base(base: &Base, model: &Model, what: &str) -> Result<(), Viol> {
    let real: BTreeMap<MKey, Vec<u8>> = base.storage().iter().map(|(k, v)| (k.clone(), v.to_vec())).collect();
    if real != model.base {
        return Err(Viol {
            sig: format!("base content after {what} differs from model"),
            detail: format!(
                "after {what}: expected {:?} observed {:?}",
                model.base.iter().map(|(k, v)| format!("{}:{}={}", k.0, hex::encode(&k.1), hex::encode(v))).collect::<Vec<_>>(),
                real.iter().map(|(k, v)| format!("{}:{}={}", k.0, hex::encode(&k.1), hex::encode(v))).collect::<Vec<_>>()
            ),
        });
    }
    Ok(())
}

enum Stack {
    D0(Base),
    D1(T1),
    D2(T2),
    D3(T3),
    D4(T4),
    Gone,
}

impl Stack {
    fn depth(&self) -> usize {
        match self {
            Stack::D0(_) => 0,
            Stack::D1(_) => 1,
            Stack::D2(_) => 2,
            Stack::D3(_) => 3,
            Stack::D4(_) => 4,
            Stack::Gone => usize::MAX,
        }
    }

    fn begin(&mut self) {
        *self = match std::mem::replace(self, Stack::Gone) {
            Stack::D0(b) => Stack::D1(b.into_transaction()),
            Stack::D1(t) => Stack::D2(t.into_transaction()),
            Stack::D2(t) => Stack::D3(t.into_transaction()),
            Stack::D3(t) => Stack::D4(t.into_transaction()),
            other => other,
        };
    }

    fn commit(&mut self) -> Result<(), String> {
        let r = catch(|| match std::mem::replace(self, Stack::Gone) {
            Stack::D1(t) => es(t.commit()).map(Stack::D0),
            Stack::D2(t) => es(t.commit()).map(Stack::D1),
            Stack::D3(t) => es(t.commit()).map(Stack::D2),
            Stack::D4(t) => es(t.commit()).map(Stack::D3),
            other => Ok(other),
        });
        match r {
            Ok(Ok(s)) => {
                *self = s;
                Ok(())
            }
            Ok(Err(e)) => Err(format!("commit returned error {e}")),
            Err(p) => Err(format!("commit panicked: {p}")),
        }
    }

    fn drop_top(&mut self) {
        *self = match std::mem::replace(self, Stack::Gone) {
            Stack::D1(t) => Stack::D0(t.into_inner().0),
            Stack::D2(t) => Stack::D1(t.into_inner().0),
            Stack::D3(t) => Stack::D2(t.into_inner().0),
            Stack::D4(t) => Stack::D3(t.into_inner().0),
            other => other,
        };
    }

    fn with_kv<T>(&mut self, f: impl FnOnce(&mut dyn Kv) -> T) -> T {
        match self {
            Stack::D0(b) => {
                // reads at depth 0 go through an empty read transaction
                let mut t = b.read_transaction();
                f(&mut t)
            }
            Stack::D1(t) => f(t),
            Stack::D2(t) => f(t),
            Stack::D3(t) => f(t),
            Stack::D4(t) => f(t),
            Stack::Gone => panic!("harness: stack is gone"),
        }
    }
}

struct MergeSpec<'a> {
    fail: bool,
    own: &'a [Op],
    children: u8,
    child_ops: &'a [(u8, Op)],
    commit: bool,
}

/// Sibling merge on top of `x` (which is the current top of the stack).
fn merge_on<X>(x: &mut X, model: &mut Model, spec: &MergeSpec, ctx: &mut Ctx) -> Result<(), Viol>
where
    X: KeyValueInspect<Column = Column> + Modifiable,
{
    let report = ctx.report;
    report.eval();
    report.count("ops.merge");
    let policy = if spec.fail { ConflictPolicy::Fail } else { ConflictPolicy::Overwrite };
    let pol = if spec.fail { "fail" } else { "overwrite" };
    model.layers.push(Layer::new());
    let outer_depth = ctx.depth;
    ctx.depth = outer_depth + 1;
    let mut rejected = false;
    let changes = {
        let mut p = StorageTransaction::transaction(&*x, policy, Changes::default());
        for op in spec.own {
            exec_rw(&mut p, model, op, ctx)?;
        }
        let n = spec.children.clamp(1, 3) as usize;
        let mut layers: Vec<Layer> = vec![Layer::new(); n];
        let child_changes: Vec<Changes> = {
            let mut cs: Vec<_> = (0..n)
                .map(|_| StorageTransaction::transaction(&p, ConflictPolicy::Overwrite, Changes::default()))
                .collect();
            ctx.depth = outer_depth + 2;
            ctx.in_child = true;
            for (ci, op) in spec.child_ops {
                let ci = *ci as usize % n;
                let mut view = ChildView { layer: &mut layers[ci], parent: &*model };
                exec_rw(&mut cs[ci], &mut view, op, ctx)?;
            }
            for (ci, c) in cs.iter().enumerate() {
                let view = ChildView { layer: &mut layers[ci], parent: &*model };
                sweep(c, &view, "sibling ops", ctx)?;
                compare_pending(c, view.layer, "sibling ops")?;
            }
            ctx.in_child = false;
            ctx.depth = outer_depth + 1;
            cs.into_iter().map(|c| c.into_changes()).collect()
        };
        for (i, ch) in child_changes.into_iter().enumerate() {
            let overlap: Vec<&MKey> = layers[i].keys().filter(|k| model.layers.last().unwrap().contains_key(*k)).collect();
            let conflict = !overlap.is_empty();
            let r = catch(|| p.commit_changes(ch));
            let mut accepted = match r {
                Ok(Ok(())) => true,
                Ok(Err(_)) => false,
                Err(pn) => {
                    return Err(Viol {
                        sig: format!("merge policy={pol}: commit_changes panicked"),
                        detail: pn,
                    })
                }
            };
            if ctx.selftest == 3 && !accepted {
                accepted = true; // selftest: pretend the rejected merge was accepted
            }
            report.count(&format!(
                "merge.{pol}.{}.{}",
                if conflict { "overlapping" } else { "disjoint" },
                if accepted { "accepted" } else { "rejected" }
            ));
            report.distinct(&("merge", spec.fail, conflict, accepted, i, layers[i].len().min(4), outer_depth));
            let exp_accept = !(spec.fail && conflict);
            if accepted != exp_accept {
                let what = match (spec.fail, conflict, accepted) {
                    (true, true, true) => "accepted although both wrote the same key",
                    (true, false, false) => "rejected although written key sets are disjoint",
                    _ => "rejected under overwrite policy",
                };
                return Err(Viol {
                    sig: format!("merge policy={pol}: {what}"),
                    detail: format!(
                        "merge #{i} into parent with pending keys {:?}: incoming keys {:?}; overlapping {:?}; commit_changes returned {}",
                        model.layers.last().unwrap().keys().collect::<Vec<_>>(),
                        layers[i].keys().collect::<Vec<_>>(),
                        overlap,
                        if accepted { "Ok" } else { "Err" }
                    ),
                });
            }
            if accepted {
                let top = model.layers.last_mut().unwrap();
                for (k, v) in std::mem::take(&mut layers[i]) {
                    top.insert(k, v);
                }
            } else {
                rejected = true;
                break;
            }
        }
        if !rejected {
            sweep(&p, &*model, "merge", ctx)?;
            compare_pending(&p, model.layers.last().unwrap(), "merge")?;
        }
        p.into_changes()
    };
    ctx.depth = outer_depth;
    if rejected || !spec.commit {
        model.layers.pop();
        report.count(if rejected { "merge.parent_dropped_after_reject" } else { "merge.parent_dropped" });
    } else {
        match catch(|| x.commit_changes(changes)) {
            Ok(Ok(())) => {}
            Ok(Err(e)) => {
                return Err(Viol {
                    sig: "merge: committing merged parent returned error".into(),
                    detail: format!("{e}"),
                })
            }
            Err(p) => {
                return Err(Viol {
                    sig: "merge: committing merged parent panicked".into(),
                    detail: p,
                })
            }
        }
        model.commit();
        report.count("merge.parent_committed");
    }
    Ok(())
}

fn step(op: &Op, stack: &mut Stack, model: &mut Model, ctx: &mut Ctx) -> Result<(), Viol> {
    let report = ctx.report;
    ctx.depth = stack.depth();
    match op {
        Op::Begin => {
            if stack.depth() < 4 {
                stack.begin();
                model.layers.push(Layer::new());
                report.count("ops.begin");
                report.count(&format!("depth_reached.{}", stack.depth()));
            }
        }
        Op::Commit | Op::Drop => {
            if stack.depth() == 0 {
                return Ok(());
            }
            report.eval();
            let commit = matches!(op, Op::Commit);
            let what = if commit { "commit" } else { "drop" };
            report.count(&format!("ops.{what}"));
            report.count(&format!("{what}.from_depth.{}", stack.depth()));
            let n_pending = model.layers.last().map(|l| l.len()).unwrap_or(0);
            report.distinct(&(what, stack.depth(), n_pending.min(5)));
            if commit {
                if let Err(e) = stack.commit() {
                    return Err(Viol { sig: "commit failed".into(), detail: e });
                }
                model.commit();
            } else {
                stack.drop_top();
                model.layers.pop();
            }
            ctx.depth = stack.depth();
            stack.with_kv(|kv| sweep(kv, &*model, what, ctx))?;
            match &*stack {
                Stack::D0(b) => compare_base(b, model, what)?,
                _ => stack.with_kv(|kv| compare_pending(kv, model.layers.last().unwrap(), what))?,
            }
        }
        Op::Sweep => {
            stack.with_kv(|kv| sweep(kv, &*model, "ops", ctx))?;
            if stack.depth() >= 1 {
                stack.with_kv(|kv| compare_pending(kv, model.layers.last().unwrap(), "ops"))?;
            }
        }
        Op::Merge { fail, own, children, child_ops, commit } => {
            let spec = MergeSpec { fail: *fail, own, children: *children, child_ops, commit: *commit };
            match stack {
                Stack::D0(b) => merge_on(b, model, &spec, ctx)?,
                Stack::D1(t) => merge_on(t, model, &spec, ctx)?,
                Stack::D2(t) => merge_on(t, model, &spec, ctx)?,
                Stack::D3(t) => merge_on(t, model, &spec, ctx)?,
                _ => return Ok(()),
            }
            ctx.depth = stack.depth();
            stack.with_kv(|kv| sweep(kv, &*model, "merge finish", ctx))?;
            match &*stack {
                Stack::D0(b) => compare_base(b, model, "merge finish")?,
                _ => stack.with_kv(|kv| compare_pending(kv, model.layers.last().unwrap(), "merge finish"))?,
            }
        }
        rw => {
            if rw.is_write() && stack.depth() == 0 {
                // a write at depth 0 is a single-op transaction: begin; op; commit
                stack.begin();
                model.layers.push(Layer::new());
                ctx.depth = 1;
                stack.with_kv(|kv| exec_rw(kv, model, rw, ctx))?;
                if let Err(e) = stack.commit() {
                    return Err(Viol { sig: "commit failed".into(), detail: e });
                }
                model.commit();
                report.count("ops.single_op_commit");
                if let Stack::D0(b) = &*stack {
                    compare_base(b, model, "single-op commit")?;
                }
            } else {
                stack.with_kv(|kv| exec_rw(kv, model, rw, ctx))?;
            }
        }
    }
Ok(())
}

fn run_session(ops: &[Op], report: &Report, selftest: u32) -> Option<(usize, Viol)> {
    let mut stack = Stack::D0(Base::default());
    let mut model = Model::default();
    let mut ctx = Ctx { report, selftest, st_counter: 0, depth: 0, in_child: false };
    let mut max_depth = 0usize;

    for (i, op) in ops.iter().enumerate() {
        if let Err(v) = step(op, &mut stack, &mut model, &mut ctx) {
            return Some((i, v));
        }
        if stack.depth() != usize::MAX {
            max_depth = max_depth.max(stack.depth());
        }
    }
    // unwind: commit everything and compare the base exactly
    let mut i = ops.len();
    while stack.depth() > 0 && stack.depth() != usize::MAX {
        if let Err(v) = step(&Op::Commit, &mut stack, &mut model, &mut ctx) {
            return Some((i, v));
        }
        i += 1;
    }
    report.count(&format!("session.max_depth.{max_depth}"));
    None
}

// ---------------------------------------------------------------------------
// generation (state-independent, so the op list alone is the replay)
// ---------------------------------------------------------------------------

struct Gen<'a, Rg: Rng> {
    rng: &'a mut Rg,
    hot: Vec<(u8, u8)>,
}

impl<Rg: Rng> Gen<'_, Rg> {
    fn ck(&mut self) -> (u8, u8) {
        if chance(self.rng, 70) {
            *pick(self.rng, &self.hot)
        } else {
            (self.rng.gen_range(0..COLS.len() as u8), self.rng.gen_range(0..NKEYS))
        }
    }
    fn tk(&mut self) -> u8 {
        *pick(self.rng, &TYPED_KEYS)
    }
    fn val(&mut self) -> Val {
        Val { class: self.rng.gen_range(0..VAL_LENS.len() as u8), salt: self.rng.gen_range(0..6) }
    }
    fn off(&mut self) -> Off {
        match self.rng.gen_range(0..10) {
            0..=2 => Off::Abs(self.rng.gen_range(0..3)),
            3..=7 => Off::Len(self.rng.gen_range(-2..=2)),
            _ => Off::Max(self.rng.gen_range(0..2)),
        }
    }
    fn blen(&mut self) -> BufLen {
        match self.rng.gen_range(0..10) {
            0..=1 => BufLen::Abs(self.rng.gen_range(0..3)),
            2..=4 => BufLen::Len(self.rng.gen_range(-1..=1)),
            _ => BufLen::Rem(self.rng.gen_range(-2..=2)),
        }
    }
    fn read(&mut self) -> Op {
        let (c, k) = self.ck();
        if chance(self.rng, 30) {
            let k = self.tk();
            return match self.rng.gen_range(0..6) {
                0 => Op::TGet { k },
                1 => Op::TContains { k },
                2 => Op::TSize { k },
                3 => Op::TReadExact { k, off: self.off(), len: self.blen() },
                4 => Op::TReadZerofill { k, off: self.off(), len: self.blen() },
                _ => Op::TReadAlloc { k },
            };
        }
        match self.rng.gen_range(0..9) {
            0 | 1 => Op::Get { c, k },
            2 => Op::Exists { c, k },
            3 => Op::Size { c, k },
            4..=6 => Op::ReadExact { c, k, off: self.off(), len: self.blen() },
            _ => Op::ReadZerofill { c, k, off: self.off(), len: self.blen() },
        }
    }
    fn write(&mut self) -> Op {
        let (c, k) = self.ck();
        if chance(self.rng, 30) {
            let k = self.tk();
            let v = self.val();
            return match self.rng.gen_range(0..7) {
                0 => Op::TInsert { k, v },
                1 => Op::TReplace { k, v },
                2 => Op::TRemove { k },
                3 => Op::TTake { k },
                4 => Op::TWriteBytes { k, v },
                5 => Op::TReplaceBytes { k, v },
                _ => Op::TTakeBytes { k },
            };
        }
        let v = self.val();
        match self.rng.gen_range(0..13) {
            0..=2 => Op::Put { c, k, v },
            3..=5 => Op::Replace { c, k, v },
            6 | 7 => Op::Write { c, k, v },
            8 | 9 => Op::Take { c, k },
            10 => Op::Delete { c, k },
            _ => {
                let n = self.rng.gen_range(0..5);
                let items = (0..n)
                    .map(|_| {
                        let k = if chance(self.rng, 60) { k } else { self.ck().1 };
                        (k, if chance(self.rng, 65) { Some(self.val()) } else { None })
                    })
                    .collect();
                Op::Batch { c, items }
            }
        }
    }
    fn rw(&mut self) -> Op {
        if chance(self.rng, 45) { self.read() } else { self.write() }
    }
    fn merge(&mut self) -> Op {
        let fail = chance(self.rng, 80);
        let own = if chance(self.rng, 35) { (0..self.rng.gen_range(1..3)).map(|_| self.write()).collect() } else { vec![] };
        let children = self.rng.gen_range(2..=3u8);
        // either a shared small key pool (conflicts likely) or per-child key
        // pools (disjoint likely)
        let disjointish = chance(self.rng, 50);
        let n_ops = self.rng.gen_range(1..7);
        let mut child_ops = Vec::new();
        for _ in 0..n_ops {
            let ci = self.rng.gen_range(0..children);
            let mut op = self.rw();
            if disjointish {
                // force the key into the child's own residue class
                let fix = |k: &mut u8| {
                    *k = (*k / 3) * 3 % NKEYS + ci % 3;
                    if *k >= NKEYS {
                        *k = ci % 3;
                    }
                };
                match &mut op {
                    Op::Put { k, .. }
                    | Op::Replace { k, .. }
                    | Op::Write { k, .. }
                    | Op::Take { k, .. }
                    | Op::Delete { k, .. } => fix(k),
                    Op::Batch { items, .. } => items.iter_mut().for_each(|i| fix(&mut i.0)),
                    Op::TInsert { k, .. }
                    | Op::TReplace { k, .. }
                    | Op::TRemove { k }
                    | Op::TTake { k }
                    | Op::TWriteBytes { k, .. }
                    | Op::TReplaceBytes { k, .. }
                    | Op::TTakeBytes { k } => *k = TYPED_KEYS[(ci % 3) as usize],
                    _ => {}
                }
            }
            child_ops.push((ci, op));
        }
        Op::Merge { fail, own, children, child_ops, commit: chance(self.rng, 60) }
    }
}

fn gen_session<Rg: Rng>(rng: &mut Rg, n_ops: usize) -> Vec<Op> {
    let hot = (0..3).map(|_| (rng.gen_range(0..COLS.len() as u8), rng.gen_range(0..NKEYS))).collect();
    let mut g = Gen { rng, hot };
    let mut depth = 0usize;
    let deep = chance(g.rng, 50);
    let mut ops = Vec::with_capacity(n_ops);
    for _ in 0..n_ops {
        let r = g.rng.gen_range(0..100);
        let op = if r < 18 {
            let begin_w = if deep { 60 } else { 40 };
            if depth == 0 || (depth < 4 && chance(g.rng, begin_w)) {
                depth += 1;
                Op::Begin
            } else if chance(g.rng, 65) {
                depth -= 1;
                Op::Commit
            } else {
                depth -= 1;
                Op::Drop
            }
        } else if r < 23 && depth <= 3 {
            g.merge()
        } else if r < 26 {
            Op::Sweep
        } else {
            g.rw()
        };
        ops.push(op);
    }
    ops
}

pub fn run(args: &Args, report: &Report) {
    let selftest: u32 = args.extra.get("selftest").and_then(|s| s.parse().ok()).unwrap_or(0);
    let prefix = if selftest > 0 { "selftest:" } else { "" };

    if let Some(rp) = read_replay(args) {
        let ops: Vec<Op> = match serde_json::from_value(rp.get("ops").cloned().unwrap_or_default()) {
            Ok(o) => o,
            Err(e) => {
                report.inconclusive(format!("cannot parse replay ops: {e}"));
                return;
            }
        };
        match catch(|| run_session(&ops, report, selftest)) {
            Ok(Some((i, v))) => report.violation(
                format!("{prefix}{}", v.sig),
                format!("op #{i} {:?}: {}", ops.get(i), v.detail),
                rp.clone(),
            ),
            Ok(None) => report.note("replay: no violation reproduced"),
            Err(p) => report.inconclusive(format!("replay panicked in harness: {p}")),
        }
        return;
    }

    let shards = args.by_tier(16, 64);
    let sessions = args.by_tier(1500usize, 8000usize);
    let seed0 = args.seed;
    let r = report.clone();
    run_shards(report, args, shards, move |shard, seed| {
        for it in 0..sessions {
            let mut rng = rng_for(seed, &[it as u64]);
            let n_ops = rng.gen_range(20..90);
            let ops = gen_session(&mut rng, n_ops);
            if r.wants_sample() && it == 3 {
                r.sample(json!({"shard": shard, "iteration": it, "ops": ops.iter().take(25).collect::<Vec<_>>()}));
            }
            r.count("sessions");
            match catch(|| run_session(&ops, &r, selftest)) {
                Ok(None) => {}
                Ok(Some((i, v))) => {
                    let upto: Vec<&Op> = ops.iter().take(i + 1).collect();
                    r.violation(
                        format!("{prefix}{}", v.sig),
                        format!("shard {shard} session {it} op #{i} {:?}: {}", ops.get(i), v.detail),
                        json!({"seed": seed0, "shard": shard, "shard_seed": seed, "iteration": it, "failed_at": i, "ops": upto}),
                    );
                }
                Err(p) => r.inconclusive(format!("shard {shard} session {it}: harness panic {p}")),
            }
        }
    });

    let q = !args.is_thorough();
    let m = |quick: u64| if q { quick } else { quick * 5 };
    for k in [
        "get", "exists", "size_of_value", "read_exact", "read_zerofill", "put", "replace", "write", "take", "delete",
        "batch_write", "typed_get", "typed_read_exact", "typed_read_zerofill", "typed_replace", "typed_take",
        "typed_replace_bytes", "typed_take_bytes", "typed_insert", "typed_remove",
    ] {
        report.require(&format!("ops.{k}"), m(5000));
    }
    report.require("ops.commit", m(20000));
    report.require("ops.drop", m(8000));
    report.require("ops.merge", m(10000));
    report.require("depth_reached.4", m(3000));
    report.require("commit.from_depth.3", m(3000));
    report.require("drop.from_depth.3", m(1000));
    report.require("merge.fail.overlapping.rejected", m(1000));
    report.require("merge.fail.disjoint.accepted", m(10000));
    report.require("merge.overwrite.overlapping.accepted", m(300));
    report.require("read_outcome.exact.ok", m(3000));
    report.require("read_outcome.exact.out_of_bounds", m(5000));
    report.require("read_outcome.exact.key_not_found", m(5000));
    report.require("read_outcome.zerofill.ok", m(3000));
    report.require("read_outcome.zerofill.out_of_bounds", m(2000));
    if selftest == 0 {
        // (with the selftest perturbations sessions end early)
    }
}
