//! C13 — the block Merkle accumulator (`Merklized` blueprint on `FuelBlocks`)
//! is append-only and exact.
//!
//! Driver: generated sequences of insert/replace/remove/take and batched
//! init_storage/insert_batch/remove_batch over a small height alphabet, on
//! (a) a long-lived `StorageTransaction<InMemoryStorage<Column>>` and
//! (b) `GenesisDatabase<OnChain>` (in memory), each op executed either directly
//! on the handle or inside a child / grand-child transaction that is then
//! committed or dropped.
//! Oracle: own RFC-6962 root over the block ids (the leaf encoding of
//! `BlockEncoder`) of the blocks in insertion order; everything observable
//! (stored block, root(h), Primary(h) and Latest metadata) re-read after every op.

use crate::rfc6962;
use fuel_core::database::{
    GenesisDatabase,
    database_description::on_chain::OnChain,
};
use fuel_core_storage::{
    Error as StorageError,
    MerkleRootStorage,
    StorageAsRef,
    StorageBatchMutate,
    StorageInspect,
    StorageMutate,
    column::Column,
    structured_storage::test::InMemoryStorage,
    tables::{
        FuelBlocks,
        merkle::{
            DenseMetadataKey,
            FuelBlockMerkleMetadata,
        },
    },
    transactional::{
        IntoTransaction,
        StorageTransaction,
        WriteTransaction,
    },
};
use fuel_core_types::{
    blockchain::{
        block::CompressedBlock,
        header::BlockHeader,
        primitives::DaBlockHeight,
    },
    fuel_types::BlockHeight,
    tai64::Tai64,
};
use rand::Rng;
use serde::{
    Deserialize,
    Serialize,
};
use std::collections::BTreeMap;
use vcommon::{
    serde_json::{
        self,
        json,
    },
    *,
};

pub const RULE: &str = "sessions of generated insert/replace/remove/take/init_storage/insert_batch/remove_batch ops on FuelBlocks over heights 0..9 (+2 far heights) with 3 block variants per height, on an InMemoryStorage transaction and on GenesisDatabase<OnChain>, each op run directly, in a child tx (committed/dropped) or a grand-child tx; after every op stored blocks, root(h), Primary(h)/Latest metadata of all heights are re-read and compared with an own RFC-6962 root over the ids of the blocks in insertion order. Non-trivial: the op targets an already stored height, or appends to a non-empty accumulator; distinct = (backend, mode, op kind, class, accumulator size, batch shape).";
pub const ASSUMPTIONS: &[&str] = &[
    "leaf encoding is the block id (BlockEncoder); ids are computed by fuel-core-types from headers built by the harness",
    "own RFC-6962 implementation is cross-checked against fuel-merkle's in-memory binary tree at start-up",
    "a failed batch may have applied a prefix of its fresh leading elements (non-atomic batches on a live transaction are accepted and counted); already stored heights must be untouched",
    "remove/take of an absent height may return Ok or Err; only 'nothing changed' is judged",
];

type MemBase = InMemoryStorage<Column>;
type MemMain = StorageTransaction<MemBase>;
type Db = GenesisDatabase<OnChain>;

const HEIGHTS: [u32; 12] = [0, 1, 2, 3, 4, 5, 6, 7, 8, 9, 1000, u32::MAX];
const NVARIANTS: u8 = 3;

fn make_block(h: u32, variant: u8) -> CompressedBlock {
    let mut header = BlockHeader::new_block(BlockHeight::from(h), Tai64(4611686018427387914u64.wrapping_add(h as u64)));
    header.set_da_height(DaBlockHeight(variant as u64 * 7 + 1));
    header.recalculate_metadata();
    CompressedBlock::test(header, vec![])
}

fn block_id(b: &CompressedBlock) -> [u8; 32] {
    let id: fuel_core_types::fuel_types::Bytes32 = b.id().into();
    id.into()
}

#[derive(Clone, Debug, Serialize, Deserialize)]
#[serde(tag = "op", rename_all = "snake_case")]
pub enum BOp {
    Insert { h: u32, v: u8 },
    Replace { h: u32, v: u8 },
    Remove { h: u32 },
    Take { h: u32 },
    InitStorage { items: Vec<(u32, u8)> },
    InsertBatch { items: Vec<(u32, u8)> },
    RemoveBatch { hs: Vec<u32> },
    /// mem backend: commit the main transaction into the base storage and re-open
    Flush,
}

impl BOp {
    fn name(&self) -> &'static str {
        match self {
            BOp::Insert { .. } => "insert",
            BOp::Replace { .. } => "replace",
            BOp::Remove { .. } => "remove",
            BOp::Take { .. } => "take",
            BOp::InitStorage { .. } => "init_storage",
            BOp::InsertBatch { .. } => "insert_batch",
            BOp::RemoveBatch { .. } => "remove_batch",
            BOp::Flush => "flush",
        }
    }
}

#[derive(Clone, Copy, Debug, Serialize, Deserialize, PartialEq, Eq, Hash)]
#[serde(rename_all = "snake_case")]
pub enum Mode {
    Direct,
    ChildCommit,
    ChildDrop,
    GrandchildCommit,
    GrandchildDrop,
}

#[derive(Clone, Debug, Serialize, Deserialize)]
pub struct Step {
    op: BOp,
    mode: Mode,
}

#[derive(Clone, Copy, Debug, Serialize, Deserialize, PartialEq, Eq, Hash)]
#[serde(rename_all = "snake_case")]
pub enum Backend {
    Mem,
    Db,
}

// ---------------------------------------------------------------------------
// boundary: what we can do to / see of a handle
// ---------------------------------------------------------------------------

pub trait BlockOps:
    StorageMutate<FuelBlocks, Error = StorageError>
    + StorageBatchMutate<FuelBlocks>
    + MerkleRootStorage<BlockHeight, FuelBlocks>
    + StorageInspect<FuelBlockMerkleMetadata, Error = StorageError>
{
}

impl<T> BlockOps for T where
    T: StorageMutate<FuelBlocks, Error = StorageError>
        + StorageBatchMutate<FuelBlocks>
        + MerkleRootStorage<BlockHeight, FuelBlocks>
        + StorageInspect<FuelBlockMerkleMetadata, Error = StorageError>
{
}

#[derive(Clone, Debug, PartialEq, Eq)]
enum Ret {
    Unit,
    Prev(Option<[u8; 32]>),
}

#[derive(Clone, Debug)]
enum Outcome {
    Ok(Ret),
    Err(String),
    Panic(String),
}

fn apply<S: BlockOps>(s: &mut S, op: &BOp) -> Outcome {
    let r = catch(|| -> Result<Ret, StorageError> {
        match op {
            BOp::Insert { h, v } => {
                StorageMutate::<FuelBlocks>::insert(s, &BlockHeight::from(*h), &make_block(*h, *v))?;
                Ok(Ret::Unit)
            }
            BOp::Replace { h, v } => {
                let prev = StorageMutate::<FuelBlocks>::replace(s, &BlockHeight::from(*h), &make_block(*h, *v))?;
                Ok(Ret::Prev(prev.map(|b| block_id(&b))))
            }
            BOp::Remove { h } => {
                StorageMutate::<FuelBlocks>::remove(s, &BlockHeight::from(*h))?;
                Ok(Ret::Unit)
            }
            BOp::Take { h } => {
                let prev = StorageMutate::<FuelBlocks>::take(s, &BlockHeight::from(*h))?;
                Ok(Ret::Prev(prev.map(|b| block_id(&b))))
            }
            BOp::InitStorage { items } | BOp::InsertBatch { items } => {
                let owned: Vec<(BlockHeight, CompressedBlock)> =
                    items.iter().map(|(h, v)| (BlockHeight::from(*h), make_block(*h, *v))).collect();
                let it = owned.iter().map(|(h, b)| (h, b));
                if matches!(op, BOp::InitStorage { .. }) {
                    StorageBatchMutate::<FuelBlocks>::init_storage(s, it)?;
                } else {
                    StorageBatchMutate::<FuelBlocks>::insert_batch(s, it)?;
                }
                Ok(Ret::Unit)
            }
            BOp::RemoveBatch { hs } => {
                let owned: Vec<BlockHeight> = hs.iter().map(|h| BlockHeight::from(*h)).collect();
                StorageBatchMutate::<FuelBlocks>::remove_batch(s, owned.iter())?;
                Ok(Ret::Unit)
            }
            BOp::Flush => Ok(Ret::Unit),
        }
    });
    match r {
        Ok(Ok(r)) => Outcome::Ok(r),
        Ok(Err(e)) => Outcome::Err(format!("{e}")),
        Err(p) => Outcome::Panic(p),
    }
}

type Root = [u8; 32];

#[derive(Clone, Debug, PartialEq, Eq, Default)]
struct Obs {
    /// id of the block read back at each height of the alphabet
    blocks: BTreeMap<u32, Option<[u8; 32]>>,
    /// MerkleRootStorage::root(h): Ok(root) or Err(kind)
    roots: BTreeMap<u32, Result<Root, String>>,
    /// FuelBlockMerkleMetadata[Primary(h)] = (root, version)
    metas: BTreeMap<u32, Option<(Root, u64)>>,
    latest: Option<(Root, u64)>,
}

fn observe<S: BlockOps>(s: &S) -> Result<Obs, String> {
    catch(|| -> Result<Obs, String> {
        let mut o = Obs::default();
        for h in HEIGHTS {
            let bh = BlockHeight::from(h);
            let b = StorageInspect::<FuelBlocks>::get(s, &bh).map_err(|e| format!("get({h}): {e}"))?;
            let contains = StorageInspect::<FuelBlocks>::contains_key(s, &bh).map_err(|e| format!("contains({h}): {e}"))?;
            if contains != b.is_some() {
                return Err(format!("contains_key({h})={contains} but get is_some={}", b.is_some()));
            }
            o.blocks.insert(h, b.map(|b| block_id(&b)));
            let r = <S as MerkleRootStorage<BlockHeight, FuelBlocks>>::root(s, &bh);
            o.roots.insert(
                h,
                match r {
                    Ok(r) => Ok(r),
                    Err(StorageError::NotFound(..)) => Err("not_found".into()),
                    Err(e) => Err(format!("error: {e}")),
                },
            );
            let m = s
                .storage_as_ref::<FuelBlockMerkleMetadata>()
                .get(&DenseMetadataKey::Primary(bh))
                .map_err(|e| format!("meta({h}): {e}"))?;
            o.metas.insert(h, m.map(|m| (*m.root(), m.version())));
        }
        let l = s
            .storage_as_ref::<FuelBlockMerkleMetadata>()
            .get(&DenseMetadataKey::Latest)
            .map_err(|e| format!("meta(latest): {e}"))?;
        o.latest = l.map(|m| (*m.root(), m.version()));
        Ok(o)
    })
    .unwrap_or_else(|p| Err(format!("observe panicked: {p}")))
}

// ---------------------------------------------------------------------------
// model
// ---------------------------------------------------------------------------

#[derive(Clone, Default, Debug)]
struct Model {
    /// (height, block id) in insertion order
    seq: Vec<(u32, [u8; 32])>,
}

impl Model {
    fn index_of(&self, h: u32) -> Option<usize> {
        self.seq.iter().position(|(x, _)| *x == h)
    }
    fn has(&self, h: u32) -> bool {
        self.index_of(h).is_some()
    }
    fn expected(&self) -> Obs {
        let ids: Vec<[u8; 32]> = self.seq.iter().map(|(_, id)| *id).collect();
        let mut o = Obs::default();
        for h in HEIGHTS {
            match self.index_of(h) {
                Some(i) => {
                    let root = rfc6962::root(&ids[..=i]);
                    o.blocks.insert(h, Some(ids[i]));
                    o.roots.insert(h, Ok(root));
                    o.metas.insert(h, Some((root, i as u64 + 1)));
                }
                None => {
                    o.blocks.insert(h, None);
                    o.roots.insert(h, Err("not_found".into()));
                    o.metas.insert(h, None);
                }
            }
        }
        o.latest = if ids.is_empty() { None } else { Some((rfc6962::root(&ids), ids.len() as u64)) };
        o
    }
}

/// categories of differences between two observations, restricted to what the
/// property talks about; `stored` = heights stored before the op
fn diff(exp: &Obs, got: &Obs) -> (Vec<&'static str>, String) {
    let mut cats: Vec<&'static str> = Vec::new();
    let mut detail = String::new();
    let mut add = |c: &'static str, d: String| {
        if !cats.contains(&c) {
            cats.push(c);
        }
        if detail.len() < 1200 {
            detail.push_str(&d);
            detail.push_str("; ");
        }
    };
    let hx = |r: &Root| hex::encode(&r[..6]);
    for h in HEIGHTS {
        let (eb, gb) = (&exp.blocks[&h], &got.blocks[&h]);
        if eb != gb {
            let c = match (eb, gb) {
                (Some(_), None) => "stored_block_removed",
                (None, Some(_)) => "unexpected_block_stored",
                _ => "stored_block_changed",
            };
            add(c, format!("block@{h}: expected id {:?} observed {:?}", eb.map(|b| hx(&b)), gb.map(|b| hx(&b))));
        }
        let (er, gr) = (&exp.roots[&h], &got.roots[&h]);
        if er != gr {
            let c = match (er, gr) {
                (Ok(_), Ok(_)) => "root_changed",
                (Ok(_), Err(_)) => "root_missing",
                (Err(_), Ok(_)) => "root_for_absent_height",
                _ => "root_error",
            };
            add(c, format!("root({h}): expected {:?} observed {:?}", er.as_ref().map(hx), gr.as_ref().map(hx)));
        }
        let (em, gm) = (&exp.metas[&h], &got.metas[&h]);
        if em != gm {
            add(
                "primary_metadata_changed",
                format!(
                    "metadata[Primary({h})]: expected {:?} observed {:?}",
                    em.map(|(r, v)| (hx(&r), v)),
                    gm.map(|(r, v)| (hx(&r), v))
                ),
            );
        }
    }
    if exp.latest != got.latest {
        add(
            "latest_changed",
            format!(
                "metadata[Latest]: expected {:?} observed {:?}",
                exp.latest.map(|(r, v)| (hx(&r), v)),
                got.latest.map(|(r, v)| (hx(&r), v))
            ),
        );
    }
    cats.sort();
    (cats, detail)
}

#[derive(Clone, Copy, Debug, PartialEq, Eq, Hash)]
enum Class {
    /// must succeed and append
    Fresh,
    /// targets (or, for batches, reaches) an already stored height: must fail
    OnExisting,
    /// remove/take of absent heights, empty batches: nothing to do
    Noop,
}

struct Plan {
    class: Class,
    /// items appended when the op fully succeeds
    appends: Vec<(u32, [u8; 32])>,
    /// for batches: index of the first offending element
    first_bad: Option<usize>,
}

fn plan(model: &Model, op: &BOp) -> Plan {
    match op {
        BOp::Insert { h, v } | BOp::Replace { h, v } => {
            if model.has(*h) {
                Plan { class: Class::OnExisting, appends: vec![], first_bad: None }
            } else {
                Plan { class: Class::Fresh, appends: vec![(*h, block_id(&make_block(*h, *v)))], first_bad: None }
            }
        }
        BOp::Remove { h } | BOp::Take { h } => Plan {
            class: if model.has(*h) { Class::OnExisting } else { Class::Noop },
            appends: vec![],
            first_bad: None,
        },
        BOp::InitStorage { items } | BOp::InsertBatch { items } => {
            let mut appends = Vec::new();
            let mut first_bad = None;
            for (i, (h, v)) in items.iter().enumerate() {
                if model.has(*h) || appends.iter().any(|(x, _)| x == h) {
                    first_bad = Some(i);
                    break;
                }
                appends.push((*h, block_id(&make_block(*h, *v))));
            }
            let class = if first_bad.is_some() {
                Class::OnExisting
            } else if items.is_empty() {
                Class::Noop
            } else {
                Class::Fresh
            };
            Plan { class, appends, first_bad }
        }
        BOp::RemoveBatch { hs } => Plan {
            class: if hs.iter().any(|h| model.has(*h)) { Class::OnExisting } else { Class::Noop },
            appends: vec![],
            first_bad: None,
        },
        BOp::Flush => Plan { class: Class::Noop, appends: vec![], first_bad: None },
    }
}

struct Viol {
    sig: String,
    detail: String,
}

struct Judged {
    /// model after the op as seen through the handle the op ran on
    model_after: Model,
    /// op returned Ok and matched expectations (safe to commit the child)
    ok_as_expected: bool,
    viol: Option<Viol>,
}

struct Ctx<'a> {
    report: &'a Report,
    selftest: u32,
    st_counter: u64,
}

/// Judge one executed op: `outcome` + observation `post` (through the same handle).
fn judge(model: &Model, op: &BOp, outcome: &Outcome, post: Result<Obs, String>, ctx: &mut Ctx) -> Judged {
    let report = ctx.report;
    let p = plan(model, op);
    let name = op.name();
    let mut post = match post {
        Ok(o) => o,
        Err(e) => {
            return Judged {
                model_after: model.clone(),
                ok_as_expected: false,
                viol: Some(Viol { sig: format!("{name}: state unreadable afterwards"), detail: e }),
            }
        }
    };
    let mut outcome = outcome.clone();
    // ---- selftest perturbations (harness side) ----
    if ctx.selftest == 1 && !model.seq.is_empty() {
        ctx.st_counter += 1;
        if ctx.st_counter % 5 == 0 {
            // corrupt one observed root
            let h = model.seq[model.seq.len() / 2].0;
            if let Some(Ok(r)) = post.roots.get_mut(&h) {
                r[31] ^= 1;
            }
        }
    }
    if ctx.selftest == 2 && matches!(op, BOp::Remove { .. } | BOp::RemoveBatch { .. }) && matches!(outcome, Outcome::Err(_)) {
        // a wrapper that swallows the error of a rejected removal
        outcome = Outcome::Ok(Ret::Unit);
    }
    if ctx.selftest == 3 {
        // observed Latest version off by one
        if let Some((_, v)) = post.latest.as_mut() {
            ctx.st_counter += 1;
            if ctx.st_counter % 7 == 0 {
                *v += 1;
            }
        }
    }
    let class_s = match p.class {
        Class::Fresh => "fresh",
        Class::OnExisting => "on_existing",
        Class::Noop => "absent",
    };
    let res_s = match &outcome {
        Outcome::Ok(_) => "ok",
        Outcome::Err(_) => "err",
        Outcome::Panic(_) => "panic",
    };
    report.count(&format!("outcome.{name}.{class_s}.{res_s}"));

    if let Outcome::Panic(pn) = &outcome {
        return Judged {
            model_after: model.clone(),
            ok_as_expected: false,
            viol: Some(Viol { sig: format!("{name}_{class_s}: panicked"), detail: pn.clone() }),
        };
    }
    let is_ok = matches!(outcome, Outcome::Ok(_));
    let unchanged = model.expected();
    match p.class {
        Class::Fresh => {
            if !is_ok {
                let (cats, d) = diff(&unchanged, &post);
                return Judged {
                    model_after: model.clone(),
                    ok_as_expected: false,
                    viol: Some(Viol {
                        sig: format!("{name}_fresh: rejected"),
                        detail: format!("{op:?} on heights not stored before returned {outcome:?}; state diffs vs before: {cats:?} {d}"),
                    }),
                };
            }
            let mut after = model.clone();
            after.seq.extend(p.appends.iter().cloned());
            if let Outcome::Ok(Ret::Prev(Some(_))) = &outcome {
                return Judged {
                    model_after: after,
                    ok_as_expected: false,
                    viol: Some(Viol { sig: format!("{name}_fresh: returned a previous value"), detail: format!("{op:?} -> {outcome:?}") }),
                };
            }
            let (cats, d) = diff(&after.expected(), &post);
            if !cats.is_empty() {
                return Judged {
                    model_after: after,
                    ok_as_expected: false,
                    viol: Some(Viol {
                        sig: format!("{name}_fresh: wrong state after append [{}]", cats.join("+")),
                        detail: format!("{op:?} with {} blocks stored before (insertion order {:?}): {d}", model.seq.len(), model.seq.iter().map(|x| x.0).collect::<Vec<_>>()),
                    }),
                };
            }
            Judged { model_after: after, ok_as_expected: true, viol: None }
        }
        Class::Noop => {
            if let Outcome::Ok(Ret::Prev(Some(_))) = &outcome {
                return Judged {
                    model_after: model.clone(),
                    ok_as_expected: false,
                    viol: Some(Viol { sig: format!("{name}_absent: returned a value"), detail: format!("{op:?} -> {outcome:?}") }),
                };
            }
            let (cats, d) = diff(&unchanged, &post);
            if !cats.is_empty() {
                return Judged {
                    model_after: model.clone(),
                    ok_as_expected: false,
                    viol: Some(Viol {
                        sig: format!("{name}_absent: state changed [{}]", cats.join("+")),
                        detail: format!("{op:?} -> {outcome:?}: {d}"),
                    }),
                };
            }
            Judged { model_after: model.clone(), ok_as_expected: is_ok, viol: None }
        }
        Class::OnExisting => {
            // a failed batch may have applied a prefix of its fresh leading elements
            let mut after = model.clone();
            if let Some(j) = p.first_bad {
                let items = match op {
                    BOp::InitStorage { items } | BOp::InsertBatch { items } => items,
                    _ => unreachable!(),
                };
                let mut k = 0usize;
                while k < j && post.blocks.get(&items[k].0).map(|b| b.is_some()).unwrap_or(false) {
                    k += 1;
                }
                if !is_ok {
                    after.seq.extend(p.appends[..k].iter().cloned());
                    if k > 0 {
                        report.count("batch.failed_with_prefix_applied");
                    } else if j > 0 {
                        report.count("batch.failed_atomically");
                    }
                } else {
                    after.seq.extend(p.appends.iter().cloned());
                }
            }
            let (cats, d) = diff(&after.expected(), &post);
            let ctxs = format!(
                "{op:?} with heights {:?} stored (insertion order) returned {}",
                model.seq.iter().map(|x| x.0).collect::<Vec<_>>(),
                match &outcome {
                    Outcome::Ok(r) => format!("Ok({r:?})"),
                    Outcome::Err(e) => format!("Err({e})"),
                    Outcome::Panic(p) => format!("panic {p}"),
                }
            );
            if is_ok {
                return Judged {
                    model_after: after,
                    ok_as_expected: false,
                    viol: Some(Viol {
                        sig: format!("{name}_on_existing: accepted"),
                        detail: format!("{ctxs}; effects {cats:?}: {d}"),
                    }),
                };
            }
            if !cats.is_empty() {
                return Judged {
                    model_after: after,
                    ok_as_expected: false,
                    viol: Some(Viol {
                        sig: format!("{name}_on_existing: rejected but state changed [{}]", cats.join("+")),
                        detail: format!("{ctxs}; effects: {d}"),
                    }),
                };
            }
            Judged { model_after: after, ok_as_expected: false, viol: None }
        }
    }
}

fn check_unchanged(model: &Model, obs: Result<Obs, String>, what: &str) -> Option<Viol> {
    match obs {
        Err(e) => Some(Viol { sig: format!("{what}: state unreadable"), detail: e }),
        Ok(o) => {
            let (cats, d) = diff(&model.expected(), &o);
            if cats.is_empty() {
                None
            } else {
                Some(Viol { sig: format!("{what}: parent differs from model [{}]", cats.join("+")), detail: d })
            }
        }
    }
}

/// One step on a main handle `$main` of concrete type; expands to the mode
/// dispatch with concrete child transaction types.
macro_rules! run_step_on {
    ($main:expr, $model:expr, $step:expr, $ctx:expr, $direct:expr) => {{
        let main = $main;
        let model: &mut Model = $model;
        let step: &Step = $step;
        let ctx: &mut Ctx = $ctx;
        let mut viols: Vec<Viol> = Vec::new();
        let mut abort = false;
        match step.mode {
            Mode::Direct => {
                let (j, ab) = $direct(main, &*model, &step.op, ctx);
                let j: Judged = j;
                abort = ab;
                if j.viol.is_none() || !ab {
                    *model = j.model_after;
                }
                if let Some(v) = j.viol {
                    viols.push(v);
                }
            }
            Mode::ChildCommit | Mode::ChildDrop => {
                let commit = step.mode == Mode::ChildCommit;
                let mut child = main.write_transaction();
                let out = apply(&mut child, &step.op);
                let j = judge(model, &step.op, &out, observe(&child), ctx);
                let do_commit = commit && j.viol.is_none() && j.ok_as_expected;
                if do_commit {
                    match catch(|| child.commit()) {
                        Ok(Ok(_)) => {
                            *model = j.model_after;
                            ctx.report.count("tx.child_committed");
                        }
                        Ok(Err(e)) => viols.push(Viol { sig: "child commit failed".into(), detail: format!("{e}") }),
                        Err(p) => viols.push(Viol { sig: "child commit panicked".into(), detail: p }),
                    }
                } else {
                    drop(child);
                    ctx.report.count(if matches!(out, Outcome::Err(_)) { "tx.child_dropped_after_failed_op" } else { "tx.child_dropped" });
                }
                if let Some(v) = j.viol {
                    viols.push(v);
                }
                if let Some(v) = check_unchanged(model, observe(&*main), if do_commit { "after child commit" } else { "after child drop" }) {
                    viols.push(v);
                    abort = true;
                }
            }
            Mode::GrandchildCommit | Mode::GrandchildDrop => {
                let commit = step.mode == Mode::GrandchildCommit;
                let mut c1 = main.write_transaction();
                let (j, committed_inner) = {
                    let mut c2 = c1.write_transaction();
                    let out = apply(&mut c2, &step.op);
                    let j = judge(model, &step.op, &out, observe(&c2), ctx);
                    let do_commit = j.viol.is_none() && j.ok_as_expected;
                    let mut committed = false;
                    if do_commit {
                        match catch(|| c2.commit()) {
                            Ok(Ok(_)) => committed = true,
                            Ok(Err(e)) => viols.push(Viol { sig: "grandchild commit failed".into(), detail: format!("{e}") }),
                            Err(p) => viols.push(Viol { sig: "grandchild commit panicked".into(), detail: p }),
                        }
                    }
                    (j, committed)
                };
                let inner_model = if committed_inner { j.model_after.clone() } else { model.clone() };
                if let Some(v) = check_unchanged(&inner_model, observe(&c1), if committed_inner { "after grandchild commit" } else { "after grandchild drop" }) {
                    viols.push(v);
                }
                let outer_commit = commit && committed_inner && viols.is_empty() && j.viol.is_none();
                if outer_commit {
                    match catch(|| c1.commit()) {
                        Ok(Ok(_)) => {
                            *model = inner_model;
                            ctx.report.count("tx.grandchild_chain_committed");
                        }
                        Ok(Err(e)) => viols.push(Viol { sig: "child commit failed".into(), detail: format!("{e}") }),
                        Err(p) => viols.push(Viol { sig: "child commit panicked".into(), detail: p }),
                    }
                } else {
                    drop(c1);
                    ctx.report.count("tx.grandchild_chain_dropped");
                }
                if let Some(v) = j.viol {
                    viols.push(v);
                }
                if let Some(v) = check_unchanged(model, observe(&*main), if outer_commit { "after child commit" } else { "after child drop" }) {
                    viols.push(v);
                    abort = true;
                }
            }
        }
        (viols, abort)
    }};
}

fn direct_mem(main: &mut MemMain, model: &Model, op: &BOp, ctx: &mut Ctx) -> (Judged, bool) {
    // snapshot so that a violating direct op can be undone and the session continues
    let snapshot = main.clone();
    let out = apply(main, op);
    let j = judge(model, op, &out, observe(&*main), ctx);
    if j.viol.is_some() {
        *main = snapshot;
        let mut j = j;
        j.model_after = model.clone();
        return (j, false);
    }
    (j, false)
}

fn direct_db(main: &mut Db, model: &Model, op: &BOp, ctx: &mut Ctx) -> (Judged, bool) {
    let out = apply(main, op);
    let j = judge(model, op, &out, observe(&*main), ctx);
    // no way to undo on the database: a violating direct op ends the session
    let abort = j.viol.is_some();
    (j, abort)
}

#[derive(Clone, Debug, Serialize, Deserialize)]
pub struct Session {
    backend: Backend,
    steps: Vec<Step>,
}

fn shape(model: &Model, backend: Backend, step: &Step) -> (Backend, Mode, &'static str, Class, usize, usize, usize) {
    let p = plan(model, &step.op);
    let (len, bad) = match &step.op {
        BOp::InitStorage { items } | BOp::InsertBatch { items } => (items.len(), p.first_bad.map(|x| x + 1).unwrap_or(0)),
        BOp::RemoveBatch { hs } => (hs.len(), 0),
        _ => (0, 0),
    };
    (backend, step.mode, step.op.name(), p.class, model.seq.len().min(12), len, bad)
}

fn run_session(s: &Session, report: &Report, selftest: u32) -> Vec<(usize, Viol)> {
    let mut ctx = Ctx { report, selftest, st_counter: 0 };
    let mut model = Model::default();
    let mut out = Vec::new();
    let bname = match s.backend {
        Backend::Mem => "mem",
        Backend::Db => "db",
    };
    macro_rules! book {
        ($i:expr, $step:expr) => {{
            report.eval();
            report.count(&format!("ops.{}", $step.op.name()));
            report.count(&format!("mode.{bname}.{:?}", $step.mode));
            let sh = shape(&model, s.backend, $step);
            if sh.3 == Class::OnExisting || (sh.3 == Class::Fresh && !model.seq.is_empty()) {
                report.distinct(&sh);
            }
            if sh.3 == Class::Fresh {
                report.count(&format!("appends.at_size.{}", if model.seq.len() >= 8 { "8plus".to_string() } else { model.seq.len().to_string() }));
            }
        }};
    }
    match s.backend {
        Backend::Mem => {
            let mut main: Option<MemMain> = Some(MemBase::default().into_transaction());
            for (i, step) in s.steps.iter().enumerate() {
                if let BOp::Flush = step.op {
                    let t = main.take().expect("main");
                    match catch(|| t.commit()) {
                        Ok(Ok(base)) => {
                            report.count("ops.flush");
                            let m = base.into_transaction();
                            if let Some(v) = check_unchanged(&model, observe(&m), "after flush to base") {
                                out.push((i, v));
                                return out;
                            }
                            main = Some(m);
                        }
                        Ok(Err(e)) => {
                            out.push((i, Viol { sig: "flush commit failed".into(), detail: format!("{e}") }));
                            return out;
                        }
                        Err(p) => {
                            out.push((i, Viol { sig: "flush commit panicked".into(), detail: p }));
                            return out;
                        }
                    }
                    continue;
                }
                book!(i, step);
                let m = main.as_mut().expect("main");
                let (viols, abort) = run_step_on!(m, &mut model, step, &mut ctx, direct_mem);
                let had = !viols.is_empty();
                for v in viols {
                    out.push((i, v));
                }
                if abort {
                    report.count("sessions.aborted_after_violation");
                    return out;
                }
                if had && out.len() >= 6 {
                    return out;
                }
            }
        }
        Backend::Db => {
            let mut db: Db = Db::in_memory();
            for (i, step) in s.steps.iter().enumerate() {
                if let BOp::Flush = step.op {
                    continue;
                }
                book!(i, step);
                let m = &mut db;
                let (viols, abort) = run_step_on!(m, &mut model, step, &mut ctx, direct_db);
                let had = !viols.is_empty();
                for v in viols {
                    out.push((i, v));
                }
                if abort {
                    report.count("sessions.aborted_after_violation");
                    return out;
                }
                if had && out.len() >= 6 {
                    return out;
                }
            }
        }
    }
    report.count(&format!("session.final_size.{}", if model.seq.len() >= 8 { "8plus".to_string() } else { model.seq.len().to_string() }));
    out
}

fn gen_session<Rg: Rng>(rng: &mut Rg, backend: Backend, n: usize) -> Session {
    // sessions differ in how append-heavy they are, so that both long
    // accumulators and many overwrite attempts occur
    let append_bias = *pick(rng, &[30u32, 50, 75]);
    let n_heights = *pick(rng, &[4usize, 8, 12]);
    let mut next_fresh = 0usize; // cursor through a per-session insertion order
    let mut order: Vec<u32> = HEIGHTS[..n_heights].to_vec();
    // non-monotone insertion order
    for i in (1..order.len()).rev() {
        if chance(rng, 50) {
            let j = rng.gen_range(0..=i);
            order.swap(i, j);
        }
    }
    let mut steps = Vec::with_capacity(n);
    for _ in 0..n {
        let any_h = |rng: &mut Rg| *pick(rng, &HEIGHTS[..n_heights]);
        let likely_fresh = |rng: &mut Rg, next_fresh: &mut usize| {
            if chance(rng, append_bias) && *next_fresh < order.len() {
                let h = order[*next_fresh];
                *next_fresh += 1;
                h
            } else {
                *pick(rng, &HEIGHTS[..n_heights])
            }
        };
        let v = rng.gen_range(0..NVARIANTS);
        let op = match rng.gen_range(0..100) {
            0..=29 => BOp::Insert { h: likely_fresh(rng, &mut next_fresh), v },
            30..=47 => BOp::Replace { h: likely_fresh(rng, &mut next_fresh), v },
            48..=55 => BOp::Remove { h: any_h(rng) },
            56..=63 => BOp::Take { h: any_h(rng) },
            64..=71 => {
                let k = rng.gen_range(0..4);
                BOp::InitStorage { items: (0..k).map(|_| (likely_fresh(rng, &mut next_fresh), rng.gen_range(0..NVARIANTS))).collect() }
            }
            72..=87 => {
                let k = rng.gen_range(0..5);
                BOp::InsertBatch { items: (0..k).map(|_| (likely_fresh(rng, &mut next_fresh), rng.gen_range(0..NVARIANTS))).collect() }
            }
            88..=95 => {
                let k = rng.gen_range(0..4);
                BOp::RemoveBatch { hs: (0..k).map(|_| any_h(rng)).collect() }
            }
            _ => BOp::Flush,
        };
        let mode = match rng.gen_range(0..100) {
            0..=39 => Mode::Direct,
            40..=64 => Mode::ChildCommit,
            65..=79 => Mode::ChildDrop,
            80..=92 => Mode::GrandchildCommit,
            _ => Mode::GrandchildDrop,
        };
        steps.push(Step { op, mode });
    }
    Session { backend, steps }
}

pub fn run(args: &Args, report: &Report) {
    let selftest: u32 = args.extra.get("selftest").and_then(|s| s.parse().ok()).unwrap_or(0);
    let prefix = if selftest > 0 { "selftest:" } else { "" };

    if let Err(e) = rfc6962::cross_check(70) {
        report.inconclusive(format!("oracle self-check failed: {e}"));
        return;
    }
    report.count("oracle.rfc6962_cross_checked_against_fuel_merkle");

    if let Some(rp) = read_replay(args) {
        let sess: Session = match serde_json::from_value(rp.get("session").cloned().unwrap_or_default()) {
            Ok(o) => o,
            Err(e) => {
                report.inconclusive(format!("cannot parse replay session: {e}"));
                return;
            }
        };
        match catch(|| run_session(&sess, report, selftest)) {
            Ok(vs) => {
                if vs.is_empty() {
                    report.note("replay: no violation reproduced");
                }
                for (i, v) in vs {
                    report.violation(format!("{prefix}{}", v.sig), format!("step #{i} {:?}: {}", sess.steps.get(i), v.detail), rp.clone());
                }
            }
            Err(p) => report.inconclusive(format!("replay panicked in harness: {p}")),
        }
        return;
    }

    let shards = args.by_tier(16, 64);
    let sessions = args.by_tier(1200usize, 10000usize);
    let seed0 = args.seed;
    let r = report.clone();
    run_shards(report, args, shards, move |shard, seed| {
        for it in 0..sessions {
            let mut rng = rng_for(seed, &[it as u64]);
            let backend = if it % 3 == 2 { Backend::Db } else { Backend::Mem };
            let n = rng.gen_range(8..40);
            let sess = gen_session(&mut rng, backend, n);
            if r.wants_sample() && it == 1 {
                r.sample(json!({"shard": shard, "iteration": it, "backend": backend, "steps": sess.steps.iter().take(12).collect::<Vec<_>>()}));
            }
            r.count("sessions");
            match catch(|| run_session(&sess, &r, selftest)) {
                Ok(vs) => {
                    for (i, v) in vs {
                        let upto = Session { backend, steps: sess.steps[..=i.min(sess.steps.len() - 1)].to_vec() };
                        r.violation(
                            format!("{prefix}{}", v.sig),
                            format!("backend {backend:?} shard {shard} session {it} step #{i} {:?}: {}", sess.steps.get(i), v.detail),
                            json!({"seed": seed0, "shard": shard, "shard_seed": seed, "iteration": it, "failed_at": i, "session": upto}),
                        );
                    }
                }
                Err(p) => r.inconclusive(format!("shard {shard} session {it}: harness panic {p}")),
            }
        }
    });

    let q = !args.is_thorough();
    let m = |quick: u64| if q { quick } else { quick * 5 };
    for k in ["insert", "replace", "remove", "take", "init_storage", "insert_batch", "remove_batch"] {
        report.require(&format!("ops.{k}"), m(8000));
    }
    for k in [
        "outcome.insert.fresh.ok",
        "outcome.replace.fresh.ok",
        "outcome.insert_batch.fresh.ok",
        "outcome.init_storage.fresh.ok",
    ] {
        report.require(k, m(2500));
    }
    for k in ["mode.mem.Direct", "mode.mem.ChildCommit", "mode.mem.ChildDrop", "mode.mem.GrandchildCommit", "mode.db.Direct", "mode.db.ChildCommit", "mode.db.ChildDrop", "mode.db.GrandchildCommit"] {
        report.require(k, m(3000));
    }
    report.require("appends.at_size.8plus", m(1500));
    report.require("ops.flush", m(2000));
    report.require("tx.child_committed", m(10000));
    report.require("tx.grandchild_chain_committed", m(5000));
    report.require("batch.failed_with_prefix_applied", m(2000));
    require_existing_attempts(report, args.is_thorough());
}

/// number of attempts on already stored heights, per op kind (requirements are
/// set from main so that they are listed even in selftest runs)
fn require_existing_attempts(report: &Report, thorough: bool) {
    let m = |quick: u64| if thorough { quick * 5 } else { quick };
    for k in ["insert", "replace", "remove", "take", "init_storage", "insert_batch", "remove_batch"] {
        // the op reached the real code on an already stored height, whatever the result
        let total: u64 = ["ok", "err", "panic"].iter().map(|r| report.get(&format!("outcome.{k}.on_existing.{r}"))).sum();
        report.add(&format!("attempts_on_existing.{k}"), total);
        report.require(&format!("attempts_on_existing.{k}"), m(4000));
    }
}
