//! C30 monitor: the block producer advances the DA height to the largest
//! fitting prefix. Drives the real `fuel_core_producer::Producer` with
//! harness-implemented ports.

use vcommon::*;

mod c30;

fn main() {
    let args = Args::parse();
    install_quiet_panic_hook();
    let report = Report::new(&args.property);
    match args.property.as_str() {
        "C30" => c30::run(&args, &report),
        other => {
            report.inconclusive(format!("property {other} not implemented in this monitor"));
            report.finish(&args, "exploration", "", false, &[]);
        }
    }
}
