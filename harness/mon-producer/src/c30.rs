//! C30 — the producer advances the DA height to the largest fitting prefix.
//!
//! System under observation: the real `fuel_core_producer::Producer`
//! (`produce_and_execute_block_transactions`, which selects the new DA height
//! through `select_new_da_height`) wired to harness ports: a block database that
//! the harness commits into, a scripted relayer (finalized height, per-DA-block
//! gas cost and transaction count, optional errors), an executor port that records
//! the `Components` it is handed and builds the block from that header, a gas price
//! port and a consensus-parameter port keyed by version.
//!
//! Oracle (from the property text): with `prev` = DA height of the parent block,
//! `fin` = the relayer's finalized height, block gas limit `G` (of the consensus
//! parameter version in force) and `T` = 65534 relayed transactions
//! (`u16::MAX` per block including the mint):
//!   E = max { h in [prev, fin] : sum gas(prev+1..=h) <= G and sum txs(prev+1..=h) <= T }
//! computed with exact (u128) sums. A produced block must carry `da_height == E`;
//! if `fin < prev`, or `fin > prev` and not even `prev+1` fits, production must fail.

use fuel_core_producer::{
    Config,
    Producer,
    block_producer::gas_price::{
        ChainStateInfoProvider,
        GasPriceProvider,
    },
    ports::{
        BlockProducer,
        BlockProducerDatabase,
        Relayer,
        RelayerBlockInfo,
    },
};
use fuel_core_storage::{
    Result as StorageResult,
    not_found,
    transactional::{
        AtomicView,
        Changes,
    },
};
use fuel_core_types::{
    blockchain::{
        block::{
            Block,
            CompressedBlock,
        },
        header::{
            ConsensusParametersVersion,
            PartialBlockHeader,
            StateTransitionBytecodeVersion,
        },
        primitives::DaBlockHeight,
    },
    fuel_tx::{
        ConsensusParameters,
        Transaction,
    },
    fuel_types::{
        BlockHeight,
        Bytes32,
        ChainId,
    },
    services::{
        block_producer::Components,
        executor::{
            ExecutionResult,
            Result as ExecutorResult,
            UncommittedResult,
        },
    },
    tai64::Tai64,
};
use std::{
    borrow::Cow,
    collections::{
        BTreeMap,
        HashMap,
    },
    sync::{
        Arc,
        Mutex,
    },
};
use vcommon::{
    rand::Rng,
    serde_json::{
        Value,
        json,
    },
    *,
};

/// relayed transactions that fit into one block next to the mint
const TX_LIMIT: u128 = (u16::MAX as u128) - 1;

// ------------------------------------------------------------------ ports ---

#[derive(Default)]
struct DbInner {
    blocks: HashMap<BlockHeight, CompressedBlock>,
    cp_version: ConsensusParametersVersion,
    stf_version: StateTransitionBytecodeVersion,
}

#[derive(Clone, Default)]
struct Db(Arc<Mutex<DbInner>>);

impl AtomicView for Db {
    type LatestView = Db;
    fn latest_view(&self) -> StorageResult<Db> {
        Ok(self.clone())
    }
}

impl BlockProducerDatabase for Db {
    fn latest_height(&self) -> Option<BlockHeight> {
        self.0.lock().unwrap().blocks.keys().max().cloned()
    }
    fn get_block(&self, height: &BlockHeight) -> StorageResult<Cow<'_, CompressedBlock>> {
        self.0
            .lock()
            .unwrap()
            .blocks
            .get(height)
            .cloned()
            .map(Cow::Owned)
            .ok_or(not_found!("harness block"))
    }
    fn get_full_block(&self, _height: &BlockHeight) -> StorageResult<Block> {
        Err(not_found!("harness full block"))
    }
    fn block_header_merkle_root(&self, height: &BlockHeight) -> StorageResult<Bytes32> {
        let mut b = [0u8; 32];
        b[..4].copy_from_slice(&u32::from(*height).to_be_bytes());
        Ok(Bytes32::new(b))
    }
    fn latest_consensus_parameters_version(&self) -> StorageResult<ConsensusParametersVersion> {
        Ok(self.0.lock().unwrap().cp_version)
    }
    fn latest_state_transition_bytecode_version(&self) -> StorageResult<StateTransitionBytecodeVersion> {
        Ok(self.0.lock().unwrap().stf_version)
    }
}

#[derive(Default)]
struct RelayerState {
    finalized: u64,
    costs: HashMap<u64, (u64, u64)>,
    wait_err: bool,
    cost_err_at: Option<u64>,
    waited_for: Vec<u64>,
    cost_queries: Vec<u64>,
    errors_hit: u32,
}

#[derive(Clone, Default)]
struct RelayerPort(Arc<Mutex<RelayerState>>);

#[async_trait::async_trait]
impl Relayer for RelayerPort {
    async fn wait_for_at_least_height(&self, height: &DaBlockHeight) -> anyhow::Result<DaBlockHeight> {
        let mut s = self.0.lock().unwrap();
        s.waited_for.push(height.0);
        if s.wait_err {
            s.errors_hit += 1;
            anyhow::bail!("harness: relayer unavailable");
        }
        Ok(DaBlockHeight(s.finalized))
    }

    async fn get_cost_and_transactions_number_for_block(&self, height: &DaBlockHeight) -> anyhow::Result<RelayerBlockInfo> {
        let mut s = self.0.lock().unwrap();
        s.cost_queries.push(height.0);
        if s.cost_err_at == Some(height.0) {
            s.errors_hit += 1;
            anyhow::bail!("harness: cost lookup failed");
        }
        let (gas_cost, tx_count) = s.costs.get(&height.0).cloned().unwrap_or_default();
        Ok(RelayerBlockInfo { gas_cost, tx_count })
    }
}

#[derive(Clone, Default)]
struct ExecutorPort {
    captured: Arc<Mutex<Vec<PartialBlockHeader>>>,
    /// self-test 2: a wrong wrapper that overrides the DA height it was handed
    force_da: Arc<Mutex<Option<u64>>>,
}

impl BlockProducer<Vec<Transaction>> for ExecutorPort {
    type Deadline = ();
    async fn produce_without_commit(
        &self,
        component: Components<Vec<Transaction>>,
        _: (),
    ) -> ExecutorResult<UncommittedResult<Changes>> {
        let mut header = component.header_to_produce;
        self.captured.lock().unwrap().push(header);
        if let Some(da) = *self.force_da.lock().unwrap() {
            header.application.da_height = DaBlockHeight(da);
        }
        let block = Block::new(header, component.transactions_source, &[], Bytes32::zeroed())
            .map_err(|e| fuel_core_types::services::executor::Error::Other(format!("{e:?}")))?;
        Ok(UncommittedResult::new(
            ExecutionResult {
                block,
                skipped_transactions: vec![],
                tx_status: vec![],
                events: vec![],
            },
            Default::default(),
        ))
    }
}

struct GasPricePort;
impl GasPriceProvider for GasPricePort {
    fn production_gas_price(&self) -> anyhow::Result<u64> {
        Ok(1)
    }
    fn dry_run_gas_price(&self) -> anyhow::Result<u64> {
        Ok(1)
    }
}

#[derive(Clone, Default)]
struct ParamsPort {
    by_version: Arc<Mutex<HashMap<ConsensusParametersVersion, Arc<ConsensusParameters>>>>,
    asked: Arc<Mutex<Vec<ConsensusParametersVersion>>>,
}

impl ChainStateInfoProvider for ParamsPort {
    fn consensus_params_at_version(&self, version: &ConsensusParametersVersion) -> anyhow::Result<Arc<ConsensusParameters>> {
        self.asked.lock().unwrap().push(*version);
        self.by_version
            .lock()
            .unwrap()
            .get(version)
            .cloned()
            .ok_or_else(|| anyhow::anyhow!("harness: unknown consensus parameters version {version}"))
    }
}

// ------------------------------------------------------------- the cases ---

/// one production attempt
#[derive(Clone, Debug)]
pub struct Attempt {
    pub finalized: u64,
    /// (da height, gas cost, tx count); unlisted heights cost nothing
    pub costs: Vec<(u64, u64, u64)>,
    pub gas_limit: u64,
    /// consensus parameter version in force for this block
    pub version: u32,
    /// gas limit registered for *other* versions (must not be used)
    pub decoy_limit: u64,
    pub wait_err: bool,
    pub cost_err_at: Option<u64>,
}

impl Attempt {
    fn to_json(&self) -> Value {
        json!({
            "finalized": self.finalized.to_string(),
            "costs": self.costs.iter().map(|(h, g, t)| json!([h.to_string(), g.to_string(), t.to_string()])).collect::<Vec<_>>(),
            "gas_limit": self.gas_limit.to_string(),
            "version": self.version,
            "decoy_limit": self.decoy_limit.to_string(),
            "wait_err": self.wait_err,
            "cost_err_at": self.cost_err_at.map(|h| h.to_string()),
        })
    }
    fn from_json(v: &Value) -> Option<Attempt> {
        let s64 = |x: &Value| x.as_str().and_then(|s| s.parse::<u64>().ok());
        Some(Attempt {
            finalized: s64(v.get("finalized")?)?,
            costs: v
                .get("costs")?
                .as_array()?
                .iter()
                .filter_map(|e| {
                    let a = e.as_array()?;
                    Some((s64(a.first()?)?, s64(a.get(1)?)?, s64(a.get(2)?)?))
                })
                .collect(),
            gas_limit: s64(v.get("gas_limit")?)?,
            version: v.get("version")?.as_u64()? as u32,
            decoy_limit: s64(v.get("decoy_limit")?)?,
            wait_err: v.get("wait_err")?.as_bool()?,
            cost_err_at: v.get("cost_err_at").and_then(s64),
        })
    }
}

#[derive(Clone, Debug, PartialEq, Eq)]
enum Expect {
    /// production must fail
    MustFail(&'static str),
    /// production must succeed with this DA height
    Da(u64, &'static str),
    /// outside the judged domain
    NotJudged(&'static str),
}

/// The oracle: exact sums, largest fitting prefix.
fn expected(prev: u64, a: &Attempt, costs_seen_by_oracle: &HashMap<u64, (u64, u64)>) -> Expect {
    if a.finalized < prev {
        return Expect::MustFail("finalized_behind_parent");
    }
    if a.finalized == prev {
        return Expect::Da(prev, "nothing_new_finalized");
    }
    let mut gas: u128 = 0;
    let mut txs: u128 = 0;
    let mut best = prev;
    let mut stop = "reached_finalized";
    let mut h = prev;
    while h < a.finalized {
        h += 1;
        let (g, t) = costs_seen_by_oracle.get(&h).cloned().unwrap_or_default();
        gas += g as u128;
        txs += t as u128;
        if gas > u64::MAX as u128 && a.gas_limit == u64::MAX {
            // a u64 accumulator cannot tell "exactly the limit" from "beyond it" here
            return Expect::NotJudged("gas_sum_beyond_u64_with_max_limit");
        }
        let gas_over = gas > a.gas_limit as u128;
        let tx_over = txs > TX_LIMIT;
        if gas_over || tx_over {
            stop = match (gas_over, tx_over) {
                (true, true) => "stopped_by_gas_and_txs",
                (true, false) => "stopped_by_gas",
                _ => "stopped_by_txs",
            };
            break;
        }
        best = h;
    }
    if best == prev {
        Expect::MustFail(match stop {
            "stopped_by_gas" => "first_da_block_exceeds_gas",
            "stopped_by_txs" => "first_da_block_exceeds_txs",
            _ => "first_da_block_exceeds_both",
        })
    } else {
        Expect::Da(best, stop)
    }
}

struct World {
    producer: Producer<Db, (), ExecutorPort, GasPricePort, ParamsPort>,
    db: Db,
    relayer: RelayerPort,
    executor: ExecutorPort,
    params: ParamsPort,
    /// harness-side record of the committed chain tip
    tip_height: u32,
    tip_da: u64,
}

fn mk_block(height: u32, da: u64, version: u32) -> Block {
    let mut h = PartialBlockHeader::default();
    h.consensus.height = height.into();
    h.consensus.time = Tai64::UNIX_EPOCH;
    h.application.da_height = DaBlockHeight(da);
    h.application.consensus_parameters_version = version;
    Block::new(h, vec![], &[], Bytes32::zeroed()).expect("valid empty block")
}

impl World {
    fn new(start_height: u32, start_da: u64) -> World {
        let db = Db::default();
        db.0.lock()
            .unwrap()
            .blocks
            .insert(start_height.into(), mk_block(start_height, start_da, 0).compress(&ChainId::default()));
        let relayer = RelayerPort::default();
        let executor = ExecutorPort::default();
        let params = ParamsPort::default();
        let producer = Producer {
            config: Config::default(),
            view_provider: db.clone(),
            txpool: (),
            executor: Arc::new(executor.clone()),
            relayer: Box::new(relayer.clone()),
            lock: Default::default(),
            gas_price_provider: GasPricePort,
            chain_state_info_provider: params.clone(),
        };
        World { producer, db, relayer, executor, params, tip_height: start_height, tip_da: start_da }
    }
}

struct Ctx<'a> {
    report: &'a Report,
    st: Option<u32>,
    seed: u64,
    shard: usize,
}

fn selftest(args: &Args) -> Option<u32> {
    args.extra.get("selftest").and_then(|s| s.parse().ok())
}

fn sig(st: Option<u32>, s: &str) -> String {
    match st {
        Some(n) => format!("selftest:{n}:{s}"),
        None => s.to_string(),
    }
}

#[derive(Default)]
struct Local {
    counts: BTreeMap<String, u64>,
}
impl Local {
    fn count(&mut self, k: &str) {
        *self.counts.entry(k.to_string()).or_insert(0) += 1;
    }
    fn flush(&mut self, report: &Report) {
        for (k, v) in std::mem::take(&mut self.counts) {
            report.add(&k, v);
        }
    }
}

/// Runs one attempt against the real producer and judges it. Returns false if the
/// session must stop (violation / harness problem).
fn run_attempt(
    ctx: &Ctx,
    local: &mut Local,
    rt: &tokio::runtime::Runtime,
    w: &mut World,
    a: &Attempt,
    witness: &dyn Fn() -> Value,
) -> bool {
    // script the ports
    let cost_map: HashMap<u64, (u64, u64)> = a.costs.iter().map(|(h, g, t)| (*h, (*g, *t))).collect();
    {
        let mut r = w.relayer.0.lock().unwrap();
        r.finalized = a.finalized;
        r.costs = cost_map.clone();
        r.wait_err = a.wait_err;
        r.cost_err_at = a.cost_err_at;
        r.waited_for.clear();
        r.cost_queries.clear();
        r.errors_hit = 0;
    }
    {
        let mut p = w.params.by_version.lock().unwrap();
        p.clear();
        for v in 0..4u32 {
            let mut cp = ConsensusParameters::default();
            cp.set_block_gas_limit(if v == a.version { a.gas_limit } else { a.decoy_limit });
            p.insert(v, Arc::new(cp));
        }
        w.params.asked.lock().unwrap().clear();
    }
    w.db.0.lock().unwrap().cp_version = a.version;
    w.executor.captured.lock().unwrap().clear();
    let prev = w.tip_da;
    if ctx.st == Some(2) {
        *w.executor.force_da.lock().unwrap() = Some(a.finalized.max(prev));
    }

    // oracle input (self-test 3 shifts the cost profile the oracle sees by one height)
    let oracle_costs: HashMap<u64, (u64, u64)> = if ctx.st == Some(3) {
        cost_map.iter().map(|(h, c)| (h.saturating_add(1), *c)).collect()
    } else {
        cost_map.clone()
    };
    let want = expected(prev, a, &oracle_costs);

    let height: BlockHeight = (w.tip_height + 1).into();
    let time = Tai64::from_unix(w.tip_height as i64 + 1);
    let res = catch(|| rt.block_on(w.producer.produce_and_execute_block_transactions(height, time, vec![])));
    let res = match res {
        Ok(r) => r,
        Err(p) => {
            ctx.report.inconclusive(format!("producer panicked: {p}; witness {}", witness()));
            return false;
        }
    };
    let errors_hit = w.relayer.0.lock().unwrap().errors_hit;
    let queries = w.relayer.0.lock().unwrap().cost_queries.len();
    local.count("attempts");
    for _ in 0..queries.min(64) {
        local.count("relayer.cost_queries");
    }
    ctx.report.eval();

    let mut fail: Option<(String, String)> = None;
    let mut committed: Option<(u64, Block)> = None;
    match res {
        Ok(unc) => {
            let (exec, _changes) = unc.into();
            let mut da = exec.block.header().da_height().0;
            let handed: Option<u64> = w.executor.captured.lock().unwrap().last().map(|h| h.application.da_height.0);
            if ctx.st == Some(1) {
                // self-test 1: corrupt the observed DA height
                da = da.saturating_add(1);
            }
            local.count("outcome.produced");
            if handed != Some(exec.block.header().da_height().0) && ctx.st != Some(2) {
                fail = Some((
                    "executor_port_header_mismatch".into(),
                    format!("executor was handed da {handed:?} but the block carries {da}"),
                ));
            } else if da < prev {
                fail = Some(("da_height_below_parent".into(), format!("produced da {da} < parent da {prev}")));
            } else if da > a.finalized {
                fail = Some(("da_height_beyond_finalized".into(), format!("produced da {da} > finalized {}", a.finalized)));
            } else {
                match &want {
                    Expect::MustFail(why) => {
                        fail = Some((
                            format!("produced_although_must_fail reason={why}"),
                            format!("production succeeded with da {da} (parent {prev}, finalized {}) although {why}", a.finalized),
                        ));
                    }
                    Expect::Da(e, why) => {
                        if da != *e {
                            let dir = if da < *e { "below" } else { "above" };
                            fail = Some((
                                format!("da_height_not_largest_fitting_prefix got={dir}_expected case={why}"),
                                format!(
                                    "produced da {da}, expected {e} (parent {prev}, finalized {}, gas limit {}, case {why})",
                                    a.finalized, a.gas_limit
                                ),
                            ));
                        } else {
                            local.count(&format!("expected.{why}"));
                            if *e - prev >= 2 {
                                local.count("events.advanced_by_two_or_more");
                            }
                            // boundary evidence: budgets met exactly / exceeded by exactly one
                            let sum = |upto: u64| -> (u128, u128) {
                                let mut g = 0u128;
                                let mut t = 0u128;
                                let mut h = prev;
                                while h < upto {
                                    h += 1;
                                    let (cg, ct) = cost_map.get(&h).cloned().unwrap_or_default();
                                    g += cg as u128;
                                    t += ct as u128;
                                }
                                (g, t)
                            };
                            if *e > prev {
                                let (g, t) = sum(*e);
                                if g == a.gas_limit as u128 && g > 0 {
                                    local.count("boundary.gas_sum_equals_limit");
                                }
                                if t == TX_LIMIT {
                                    local.count("boundary.tx_sum_equals_limit");
                                }
                            }
                            if *e < a.finalized {
                                let (g, t) = sum(*e + 1);
                                if g == a.gas_limit as u128 + 1 {
                                    local.count("boundary.gas_next_exceeds_by_one");
                                }
                                if t == TX_LIMIT + 1 {
                                    local.count("boundary.tx_next_exceeds_by_one");
                                }
                            }
                        }
                    }
                    Expect::NotJudged(why) => local.count(&format!("not_judged.{why}")),
                }
            }
            committed = Some((exec.block.header().da_height().0, exec.block));
        }
        Err(e) => {
            local.count("outcome.failed");
            let msg = format!("{e:#}");
            match &want {
                Expect::MustFail(why) => local.count(&format!("expected.fail_{why}")),
                Expect::Da(exp, why) => {
                    if errors_hit > 0 {
                        local.count("expected.fail_relayer_error_injected");
                    } else {
                        fail = Some((
                            format!("failed_although_prefix_fits case={why}"),
                            format!(
                                "production failed ({msg}) although da {exp} fits (parent {prev}, finalized {}, gas limit {})",
                                a.finalized, a.gas_limit
                            ),
                        ));
                    }
                }
                Expect::NotJudged(why) => local.count(&format!("not_judged.{why}")),
            }
        }
    }
    // which consensus parameter version was consulted (evidence)
    if w.params.asked.lock().unwrap().iter().any(|v| *v != a.version) {
        local.count("observed.other_params_version_consulted");
    }

    if let Some((s, why)) = fail {
        ctx.report.violation(sig(ctx.st, &s), format!("{why}; attempt {}", a.to_json()), witness());
        return false;
    }
    // the harness commits the produced block, like the importer would
    if let Some((da, block)) = committed {
        w.tip_height += 1;
        w.tip_da = da;
        w.db.0.lock().unwrap().blocks.insert(w.tip_height.into(), block.compress(&ChainId::default()));
    }
    true
}

// ------------------------------------------------------------ generation ---

fn gen_attempt(rng: &mut rand::rngs::StdRng, prev: u64, local: &mut Local) -> Attempt {
    let gas_limit = *pick(rng, &[0u64, 1, 100, 30_000, 1_000_000, 30_000_000, u64::MAX - 1, u64::MAX]);
    let room = u64::MAX - prev;
    let ahead = match rng.gen_range(0..20) {
        0 => 0,
        1..=3 => 1,
        4..=9 => rng.gen_range(2..=5),
        _ => rng.gen_range(2..=14),
    }
    .min(room);
    let finalized = if chance(rng, 4) && prev > 0 {
        prev - rng.gen_range(1..=prev.min(3))
    } else {
        prev + ahead
    };
    let n = finalized.saturating_sub(prev);
    let mut costs: Vec<(u64, u64, u64)> = Vec::new();
    // gas profile
    let profile = rng.gen_range(0..9);
    local.count(&format!("gen.gas_profile_{profile}"));
    let cut = if n > 0 { rng.gen_range(1..=n) } else { 0 }; // height index where a budget is met
    for i in 1..=n {
        let g = match profile {
            0 => 0,
            1 => rng.gen_range(0..=gas_limit / 3),
            // sums to exactly the limit at `cut`, everything after costs 1
            2 => {
                if i < cut { gas_limit / cut } else if i == cut { gas_limit - (gas_limit / cut) * (cut - 1) } else { 1 }
            }
            // exceeds the limit by one at `cut`
            3 => {
                if i < cut {
                    gas_limit / cut
                } else if i == cut {
                    (gas_limit - (gas_limit / cut) * (cut - 1)).saturating_add(1)
                } else {
                    0
                }
            }
            4 => *pick(rng, &[0u64, 1, gas_limit, gas_limit.saturating_add(1), u64::MAX]),
            // near overflow of a u64 accumulator
            5 => *pick(rng, &[u64::MAX / 2, u64::MAX / 2 + 1, u64::MAX, 1]),
            6 => rng.gen_range(0..=gas_limit.min(1000)),
            // zero after exact limit: later zero-cost blocks still fit
            7 => {
                if i == 1 { gas_limit } else { 0 }
            }
            _ => rng.gen_range(0..=gas_limit),
        };
        costs.push((prev + i, g, 0));
    }
    // tx profile
    let tprofile = rng.gen_range(0..8);
    local.count(&format!("gen.tx_profile_{tprofile}"));
    let t_lim = TX_LIMIT as u64;
    let tcut = if n > 0 { rng.gen_range(1..=n) } else { 0 };
    for (idx, c) in costs.iter_mut().enumerate() {
        let i = idx as u64 + 1;
        c.2 = match tprofile {
            0..=2 => 0,
            3 => rng.gen_range(0..=t_lim / 3),
            4 => {
                if i < tcut { t_lim / tcut } else if i == tcut { t_lim - (t_lim / tcut) * (tcut - 1) } else { *pick(rng, &[0u64, 1]) }
            }
            5 => {
                if i < tcut { t_lim / tcut } else if i == tcut { t_lim - (t_lim / tcut) * (tcut - 1) + 1 } else { 0 }
            }
            6 => *pick(rng, &[0u64, 1, t_lim, t_lim + 1, u16::MAX as u64, u64::MAX]),
            _ => rng.gen_range(0..=t_lim),
        };
    }
    // sometimes drop entries (unlisted heights cost nothing) and add noise outside the window
    if chance(rng, 20) && !costs.is_empty() {
        let k = rng.gen_range(0..costs.len());
        costs.remove(k);
    }
    if chance(rng, 30) {
        costs.push((finalized.saturating_add(1), u64::MAX, u64::MAX));
        if prev > 0 {
            costs.push((prev, u64::MAX, u64::MAX));
        }
    }
    let version = rng.gen_range(0..4);
    let decoy_limit = *pick(rng, &[0u64, u64::MAX, gas_limit.saturating_add(1), gas_limit / 2]);
    let wait_err = chance(rng, 2);
    let cost_err_at = if chance(rng, 3) && n > 0 { Some(prev + rng.gen_range(1..=n)) } else { None };
    Attempt { finalized, costs, gas_limit, version, decoy_limit, wait_err, cost_err_at }
}

fn session_witness(ctx: &Ctx, mode: &str, start_height: u32, start_da: u64, attempts: &[Attempt]) -> Value {
    json!({"seed": ctx.seed, "shard": ctx.shard, "mode": mode, "start_height": start_height, "start_da": start_da.to_string(),
           "attempts": attempts.iter().map(|a| a.to_json()).collect::<Vec<_>>()})
}

pub fn run(args: &Args, report: &Report) {
    let st = selftest(args);
    let rule = "seeded sessions: a real Producer on a harness chain (start DA height 0, small, or next to u64::MAX) produces up to 8 \
                blocks; before each block the relayer port gets a new finalized height (behind / equal / 1..14 ahead), a gas \
                and tx-count profile over the new DA blocks (zeros, random, sums hitting the limit exactly, exceeding it by one, \
                u64 near-overflow, unlisted heights) and the gas limit of the consensus-parameter version in force (other \
                versions carry decoy limits); 2-3% injected relayer errors. distinct_nontrivial = distinct (finalized-prev, \
                expected-prev, binding constraint, outcome) shapes";
    let assumptions = [
        "a block holds at most u16::MAX transactions including the mint, so the relayed-transaction budget is u16::MAX-1",
        "cases where the exact gas sum exceeds u64::MAX while the gas limit is u64::MAX are not judged (counted)",
        "the harness commits every produced block itself (the importer is outside this property)",
    ];
    let rt = tokio::runtime::Builder::new_current_thread().enable_all().build().expect("runtime");

    if let Some(rp) = read_replay(args) {
        let start_height = rp.get("start_height").and_then(|x| x.as_u64()).unwrap_or(0) as u32;
        let start_da = rp.get("start_da").and_then(|x| x.as_str()).and_then(|s| s.parse::<u64>().ok()).unwrap_or(0);
        let attempts: Vec<Attempt> = rp
            .get("attempts")
            .and_then(|a| a.as_array())
            .map(|a| a.iter().filter_map(Attempt::from_json).collect())
            .unwrap_or_default();
        let ctx = Ctx { report, st, seed: args.seed, shard: 0 };
        let mut local = Local::default();
        let mut w = World::new(start_height, start_da);
        for i in 0..attempts.len() {
            let wit = || session_witness(&ctx, "replay", start_height, start_da, &attempts[..=i]);
            if !run_attempt(&ctx, &mut local, &rt, &mut w, &attempts[i], &wit) {
                break;
            }
        }
        local.flush(report);
        report.finish(args, "exploration", rule, false, &assumptions);
        return;
    }
    drop(rt);

    let shards = 64usize;
    let sessions_per_shard: usize = args.by_tier(4_000, 60_000);
    let report2 = report.clone();
    let seed = args.seed;
    run_shards(report, args, shards, move |shard, s| {
        let ctx = Ctx { report: &report2, st, seed, shard };
        let mut local = Local::default();
        let rt = tokio::runtime::Builder::new_current_thread().enable_all().build().expect("runtime");
        for n in 0..sessions_per_shard {
            let mut rng = rng_for(s, &[tag("c30"), n as u64]);
            let start_height = *pick(&mut rng, &[0u32, 1, 41, 1_000_000]);
            let start_da = match rng.gen_range(0..6) {
                0 => 0,
                1 => 1,
                2 => rng.gen_range(0..1000),
                3 => u64::MAX - rng.gen_range(0..20),
                4 => u32::MAX as u64 + rng.gen_range(0..3),
                _ => rng.gen_range(0..1_000_000_000),
            };
            let mut w = World::new(start_height, start_da);
            let blocks = rng.gen_range(1..=8);
            let mut attempts: Vec<Attempt> = Vec::new();
            for _ in 0..blocks {
                let prev = w.tip_da;
                let a = gen_attempt(&mut rng, prev, &mut local);
                attempts.push(a.clone());
                let want = expected(prev, &a, &a.costs.iter().map(|(h, g, t)| (*h, (*g, *t))).collect());
                let shape = (
                    a.finalized as i128 - prev as i128,
                    match &want {
                        Expect::Da(e, why) => (*e as i128 - prev as i128, *why),
                        Expect::MustFail(why) => (-1, *why),
                        Expect::NotJudged(why) => (-2, *why),
                    },
                    a.wait_err,
                    a.cost_err_at.is_some(),
                );
                let wit = || session_witness(&ctx, "random", start_height, start_da, &attempts);
                let ok = run_attempt(&ctx, &mut local, &rt, &mut w, &a, &wit);
                if !ok {
                    break;
                }
                if a.finalized > prev {
                    report2.distinct(&shape);
                }
                if n < 2 && report2.wants_sample() && a.finalized.saturating_sub(prev) > 1 {
                    report2.sample(json!({"parent_da": prev.to_string(), "attempt": a.to_json(), "expected": format!("{want:?}")}));
                }
            }
            local.count("sessions");
        }
        local.flush(&report2);
    });

    if st.is_none() {
        report.require("attempts", args.by_tier(600_000, 9_000_000));
        report.require("outcome.produced", args.by_tier(300_000, 4_000_000));
        report.require("outcome.failed", args.by_tier(50_000, 500_000));
        report.require("boundary.gas_sum_equals_limit", 3_000);
        report.require("boundary.gas_next_exceeds_by_one", 1_000);
        report.require("boundary.tx_sum_equals_limit", 1_000);
        report.require("boundary.tx_next_exceeds_by_one", 1_000);
        report.require("expected.reached_finalized", 5_000);
        report.require("expected.stopped_by_gas", 3_000);
        report.require("expected.stopped_by_txs", 1_000);
        report.require("expected.nothing_new_finalized", 1_000);
        report.require("expected.fail_first_da_block_exceeds_gas", 1_000);
        report.require("expected.fail_first_da_block_exceeds_txs", 200);
        report.require("expected.fail_finalized_behind_parent", 500);
        report.require("expected.fail_relayer_error_injected", 200);
        report.require("events.advanced_by_two_or_more", 5_000);
        report.require("relayer.cost_queries", 50_000);
    }
    report.finish(args, "exploration", rule, false, &assumptions);
}
