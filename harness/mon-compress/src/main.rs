//! C33 — DA-compressed blocks decompress to the originals.
//!
//! Per session: one compressor registry and one decompressor registry (two separate
//! real `Database<CompressionDatabase>`), one real on-chain database holding the
//! coins / messages / block->tx-id history the decompressor consults. A chain of
//! structurally generated blocks over *small* address / asset / contract / script /
//! predicate alphabets (plus fresh values) is compressed in order exactly the way the
//! compression service does it (`CompressionContext::create_from_block` + `compress`
//! + `CompressedBlocks` insert in one storage transaction), serialised with postcard,
//! deserialised, and decompressed in order with `DecompressionContext`.
//! Block timestamps step across the retention window (0, 1, R-1, R, R+1, 2R+1), the
//! evictor is pre-positioned just below the 24-bit key wrap and is repeatedly moved
//! to just below keys that are still live ("a full key cycle later"), so wrap,
//! eviction/overwrite of live keys, expiry and re-registration all happen within tens
//! of blocks.
//!
//! Oracle: decompressed header == `PartialBlockHeader` of the original, and each
//! decompressed transaction == the original with exactly the fields the compression
//! format declares as not transported (fields execution fills in: coin tx pointers,
//! contract utxo/roots/pointers, change amounts, variable outputs, receipts root)
//! reset to default; the transaction ids must be equal as well.

#[path = "../../mon-aggregator/src/txgen.rs"]
mod txgen;

use fuel_core::database::{
    Database,
    database_description::{
        compression::CompressionDatabase,
        on_chain::OnChain,
    },
};
use fuel_core_compression::{
    Config as CompressionConfig,
    VersionedBlockPayload,
    VersionedCompressedBlock,
    compress::compress,
    decompress::decompress,
};
use fuel_core_compression_service::{
    storage::{
        CompressedBlocks,
        EvictorCache,
        evictor_cache::MetadataKey,
    },
    temporal_registry::{
        CompressionContext,
        CompressionStorageWrapper,
        DecompressionContext,
    },
};
use fuel_core_storage::{
    StorageAsMut,
    tables::{
        Coins,
        FuelBlocks,
        Messages,
    },
    transactional::{
        AtomicView,
        WriteTransaction,
    },
};
use fuel_core_types::{
    blockchain::{
        block::Block,
        header::{
            ApplicationHeader,
            ConsensusHeader,
            PartialBlockHeader,
        },
        primitives::Empty,
    },
    entities::{
        coins::coin::{
            CompressedCoin,
            CompressedCoinV1,
        },
        relayer::message::{
            Message,
            MessageV1,
        },
    },
    fuel_compression::RegistryKey,
    fuel_tx::{
        Input,
        Output,
        Transaction,
        TxPointer,
        UniqueIdentifier,
        UtxoId,
        field::{
            InputContract as _,
            Inputs,
            OutputContract as _,
            Outputs,
            Policies as _,
            ReceiptsRoot,
            Witnesses,
        },
    },
    fuel_types::ChainId,
    tai64::Tai64,
};
use futures::FutureExt;
use rand::{
    Rng,
    rngs::StdRng,
};
use serde_json::json;
use std::{
    collections::HashMap,
    time::Duration,
};
use txgen::*;
use vcommon::*;

type CDb = Database<CompressionDatabase>;
type ODb = Database<OnChain>;

fn main() {
    let args = Args::parse();
    install_quiet_panic_hook();
    let report = Report::new(&args.property);
    match args.property.as_str() {
        "C33" => c33(&args, &report),
        other => {
            report.inconclusive(format!(
                "property {other} not implemented in this monitor"
            ));
            report.finish(&args, "exploration", "", false, &[]);
        }
    }
}

// --------------------------------------------------------------------------
// ledger: where coin and message inputs come from
// --------------------------------------------------------------------------

#[derive(Default)]
struct Ledger {
    coins: Vec<CoinRef>,
    msgs_data: Vec<MsgRef>,
    msgs_plain: Vec<MsgRef>,
    /// created since the last on-chain commit
    new_coins: Vec<CoinRef>,
    new_msgs: Vec<MsgRef>,
    height: u32,
    coin_inputs: u64,
    same_block_spends: u64,
    msg_inputs: u64,
}

impl Source for Ledger {
    fn coin(&mut self, rng: &mut StdRng, _a: &Alphabet) -> Option<CoinRef> {
        if self.coins.is_empty() {
            return None;
        }
        let i = rng.gen_range(0..self.coins.len());
        let c = if rng.gen_bool(0.6) {
            self.coins.swap_remove(i)
        } else {
            self.coins[i].clone()
        };
        self.coin_inputs += 1;
        if *c.tx_pointer.block_height() == self.height {
            self.same_block_spends += 1;
        }
        Some(c)
    }

    fn msg(&mut self, rng: &mut StdRng, a: &Alphabet, with_data: bool) -> Option<MsgRef> {
        self.msg_inputs += 1;
        let list = if with_data {
            &mut self.msgs_data
        } else {
            &mut self.msgs_plain
        };
        if !list.is_empty() && rng.gen_bool(0.5) {
            let i = rng.gen_range(0..list.len());
            return Some(list[i].clone());
        }
        // a new message arrives from the DA layer
        let m = FreeSource.msg(rng, a, with_data)?;
        list.push(m.clone());
        if list.len() > 12 {
            list.remove(0);
        }
        self.new_msgs.push(m.clone());
        Some(m)
    }
}

// --------------------------------------------------------------------------
// the reference: which fields the format does not transport
// --------------------------------------------------------------------------

fn norm_inputs(inputs: &mut [Input]) {
    for i in inputs {
        match i {
            Input::CoinSigned(c) => c.tx_pointer = Default::default(),
            Input::CoinPredicate(c) => c.tx_pointer = Default::default(),
            Input::Contract(c) => {
                c.utxo_id = Default::default();
                c.balance_root = Default::default();
                c.state_root = Default::default();
                c.tx_pointer = Default::default();
            }
            _ => {}
        }
    }
}

fn norm_outputs(outputs: &mut [Output]) {
    for o in outputs {
        match o {
            Output::Contract(c) => {
                c.balance_root = Default::default();
                c.state_root = Default::default();
            }
            Output::Change { amount, .. } => *amount = 0,
            Output::Variable {
                to,
                amount,
                asset_id,
            } => {
                *to = Default::default();
                *amount = 0;
                *asset_id = Default::default();
            }
            _ => {}
        }
    }
}

/// The transaction as DA compression promises to reproduce it.
fn normalize(tx: &Transaction) -> Transaction {
    let mut t = tx.clone();
    match &mut t {
        Transaction::Script(s) => {
            *s.receipts_root_mut() = Default::default();
            norm_inputs(s.inputs_mut());
            norm_outputs(s.outputs_mut());
        }
        Transaction::Create(s) => {
            norm_inputs(s.inputs_mut());
            norm_outputs(s.outputs_mut());
        }
        Transaction::Upgrade(s) => {
            norm_inputs(s.inputs_mut());
            norm_outputs(s.outputs_mut());
        }
        Transaction::Upload(s) => {
            norm_inputs(s.inputs_mut());
            norm_outputs(s.outputs_mut());
        }
        Transaction::Blob(s) => {
            norm_inputs(s.inputs_mut());
            norm_outputs(s.outputs_mut());
        }
        Transaction::Mint(m) => {
            let ic = m.input_contract_mut();
            ic.utxo_id = Default::default();
            ic.balance_root = Default::default();
            ic.state_root = Default::default();
            ic.tx_pointer = Default::default();
            let oc = m.output_contract_mut();
            oc.balance_root = Default::default();
            oc.state_root = Default::default();
        }
    }
    t
}

fn trunc(s: String) -> String {
    if s.chars().count() > 600 {
        let t: String = s.chars().take(600).collect();
        format!("{t}…")
    } else {
        s
    }
}

/// stable location of the first difference between two transactions
fn tx_diff(x: &Transaction, y: &Transaction) -> (String, String) {
    let kind = tx_kind_name(x);
    if kind != tx_kind_name(y) {
        return (
            format!("tx={kind} part=kind"),
            format!("got {}", tx_kind_name(y)),
        );
    }
    macro_rules! cmp {
        ($a:expr, $b:expr) => {{
            if $a.policies() != $b.policies() {
                return (
                    format!("tx={kind} part=policies"),
                    format!("expected {:?} got {:?}", $a.policies(), $b.policies()),
                );
            }
            if $a.inputs().len() != $b.inputs().len() {
                return (format!("tx={kind} part=inputs.len"), String::new());
            }
            for (i, j) in $a.inputs().iter().zip($b.inputs().iter()) {
                if i != j {
                    return (
                        format!("tx={kind} part=input variant={}", input_variant_name(i)),
                        trunc(format!("expected {i:?} got {j:?}")),
                    );
                }
            }
            if $a.outputs().len() != $b.outputs().len() {
                return (format!("tx={kind} part=outputs.len"), String::new());
            }
            for (i, j) in $a.outputs().iter().zip($b.outputs().iter()) {
                if i != j {
                    return (
                        format!(
                            "tx={kind} part=output variant={}",
                            output_variant_name(i)
                        ),
                        trunc(format!("expected {i:?} got {j:?}")),
                    );
                }
            }
            if $a.witnesses() != $b.witnesses() {
                return (format!("tx={kind} part=witnesses"), String::new());
            }
        }};
    }
    match (x, y) {
        (Transaction::Script(a), Transaction::Script(b)) => cmp!(a, b),
        (Transaction::Create(a), Transaction::Create(b)) => cmp!(a, b),
        (Transaction::Upgrade(a), Transaction::Upgrade(b)) => cmp!(a, b),
        (Transaction::Upload(a), Transaction::Upload(b)) => cmp!(a, b),
        (Transaction::Blob(a), Transaction::Blob(b)) => cmp!(a, b),
        _ => {}
    }
    (
        format!("tx={kind} part=body"),
        trunc(format!("expected {x:?} got {y:?}")),
    )
}

// --------------------------------------------------------------------------
// driving the real code
// --------------------------------------------------------------------------

fn compress_one(
    db: &mut CDb,
    block: &Block,
    cfg: &CompressionConfig,
    chain_id: ChainId,
    evictor_moves: &[(MetadataKey, RegistryKey)],
) -> Result<VersionedCompressedBlock, String> {
    // same sequence as `fuel_core_compression_service::service::compress_block`
    let mut storage_tx = db.write_transaction();
    for (mk, key) in evictor_moves {
        storage_tx
            .storage_as_mut::<EvictorCache>()
            .insert(mk, key)
            .map_err(|e| format!("harness: evictor write: {e}"))?;
    }
    let ctx = CompressionContext::create_from_block(&mut storage_tx, block, chain_id)
        .map_err(|e| format!("create_from_block: {e}"))?;
    let compressed = compress(cfg, ctx, block)
        .now_or_never()
        .ok_or_else(|| "compress future did not resolve".to_string())?
        .map_err(|e| format!("{e:#}"))?;
    storage_tx
        .storage_as_mut::<CompressedBlocks>()
        .insert(block.header().height(), &compressed)
        .map_err(|e| format!("harness: CompressedBlocks insert: {e}"))?;
    storage_tx
        .commit()
        .map(|_| ())
        .map_err(|e| format!("harness: commit: {e}"))?;
    Ok(compressed)
}

fn decompress_one(
    db: &mut CDb,
    onchain: &ODb,
    compressed: VersionedCompressedBlock,
    cfg: CompressionConfig,
) -> Result<fuel_core_types::blockchain::block::PartialFuelBlock, String> {
    let height = *compressed.height();
    let view = onchain
        .latest_view()
        .map_err(|e| format!("harness: latest_view: {e}"))?;
    let mut storage_tx = db.write_transaction();
    let ctx = DecompressionContext {
        compression_storage: CompressionStorageWrapper {
            storage_tx: &mut storage_tx,
        },
        onchain_db: view,
    };
    let out = decompress(cfg, ctx, compressed.clone())
        .now_or_never()
        .ok_or_else(|| "decompress future did not resolve".to_string())?
        .map_err(|e| format!("{e:#}"))?;
    // persist the registry changes; the height keeps the database's commits linked
    storage_tx
        .storage_as_mut::<CompressedBlocks>()
        .insert(&height, &compressed)
        .map_err(|e| format!("harness: CompressedBlocks insert: {e}"))?;
    storage_tx
        .commit()
        .map(|_| ())
        .map_err(|e| format!("harness: commit: {e}"))?;
    Ok(out)
}

fn commit_onchain(
    onchain: &mut ODb,
    ledger: &mut Ledger,
    block: &Block,
    chain_id: &ChainId,
) -> Result<(), String> {
    let mut tx = onchain.write_transaction();
    for c in ledger.new_coins.drain(..) {
        let coin = CompressedCoin::V1(CompressedCoinV1 {
            owner: c.owner,
            amount: c.amount,
            asset_id: c.asset_id,
            tx_pointer: c.tx_pointer,
        });
        tx.storage_as_mut::<Coins>()
            .insert(&c.utxo_id, &coin)
            .map_err(|e| format!("{e}"))?;
    }
    for m in ledger.new_msgs.drain(..) {
        let msg = Message::V1(MessageV1 {
            sender: m.sender,
            recipient: m.recipient,
            nonce: m.nonce,
            amount: m.amount,
            data: m.data.clone(),
            da_height: Default::default(),
        });
        tx.storage_as_mut::<Messages>()
            .insert(&m.nonce, &msg)
            .map_err(|e| format!("{e}"))?;
    }
    tx.storage_as_mut::<FuelBlocks>()
        .insert(block.header().height(), &block.compress(chain_id))
        .map_err(|e| format!("{e}"))?;
    tx.commit().map(|_| ()).map_err(|e| format!("{e}"))
}

// --------------------------------------------------------------------------
// evidence bookkeeping on the registrations the compressor announces
// --------------------------------------------------------------------------

/// hash of the raw bytes of a value, independent of its type: equal for an address,
/// an asset id and a contract id with the same 32 bytes, and for a script and a
/// predicate with the same code
fn hb<T: AsRef<[u8]> + ?Sized>(x: &T) -> u64 {
    hash64(&x.as_ref().to_vec())
}

/// distinct non-default registry-typed values a block's transactions carry
/// (address, asset id, contract id, script code, predicate code); evidence only.
fn referenced_values(block: &Block) -> [std::collections::HashSet<u64>; 5] {
    let mut r: [std::collections::HashSet<u64>; 5] = Default::default();
    fn ins(inputs: &[Input], r: &mut [std::collections::HashSet<u64>; 5]) {
        for i in inputs {
            match i {
                Input::Contract(c) => {
                    if c.contract_id != Default::default() {
                        r[2].insert(hb(&c.contract_id));
                    }
                }
                Input::CoinPredicate(c) => {
                    if c.predicate != fuel_core_types::fuel_tx::input::PredicateCode::default() {
                        r[4].insert(hb(&c.predicate));
                    }
                }
                Input::MessageCoinPredicate(c) => {
                    if c.predicate != fuel_core_types::fuel_tx::input::PredicateCode::default() {
                        r[4].insert(hb(&c.predicate));
                    }
                }
                Input::MessageDataPredicate(c) => {
                    if c.predicate != fuel_core_types::fuel_tx::input::PredicateCode::default() {
                        r[4].insert(hb(&c.predicate));
                    }
                }
                _ => {}
            }
        }
    }
    fn outs(outputs: &[Output], r: &mut [std::collections::HashSet<u64>; 5]) {
        for o in outputs {
            match o {
                Output::Coin { to, asset_id, .. } | Output::Change { to, asset_id, .. } => {
                    if *to != Default::default() {
                        r[0].insert(hb(to));
                    }
                    if *asset_id != Default::default() {
                        r[1].insert(hb(asset_id));
                    }
                }
                Output::ContractCreated { contract_id, .. } => {
                    if *contract_id != Default::default() {
                        r[2].insert(hb(contract_id));
                    }
                }
                _ => {}
            }
        }
    }
    for tx in block.transactions() {
        match tx {
            Transaction::Script(t) => {
                use fuel_core_types::fuel_tx::field::Script as _;
                if !t.script().is_empty() {
                    r[3].insert(hb(t.script()));
                }
                ins(t.inputs(), &mut r);
                outs(t.outputs(), &mut r);
            }
            Transaction::Create(t) => {
                ins(t.inputs(), &mut r);
                outs(t.outputs(), &mut r);
            }
            Transaction::Upgrade(t) => {
                ins(t.inputs(), &mut r);
                outs(t.outputs(), &mut r);
            }
            Transaction::Upload(t) => {
                ins(t.inputs(), &mut r);
                outs(t.outputs(), &mut r);
            }
            Transaction::Blob(t) => {
                ins(t.inputs(), &mut r);
                outs(t.outputs(), &mut r);
            }
            Transaction::Mint(m) => {
                use fuel_core_types::fuel_tx::field::{
                    MintAssetId as _,
                };
                if m.input_contract().contract_id != Default::default() {
                    r[2].insert(hb(&m.input_contract().contract_id));
                }
                if *m.mint_asset_id() != Default::default() {
                    r[1].insert(hb(m.mint_asset_id()));
                }
            }
        }
    }
    r
}

const KEYSPACES: [(&str, MetadataKey); 5] = [
    ("address", MetadataKey::Address),
    ("asset_id", MetadataKey::AssetId),
    ("contract_id", MetadataKey::ContractId),
    ("script_code", MetadataKey::ScriptCode),
    ("predicate_code", MetadataKey::PredicateCode),
];

/// number of writable keys (0 ..= 2^24 - 2)
const WRITABLE: u32 = (1 << 24) - 1;

#[derive(Default)]
struct KeyspaceView {
    /// key -> hash of value currently registered under it
    live: HashMap<u32, u64>,
    /// value hash -> key it was last registered under
    by_value: HashMap<u64, u32>,
    last_key: Option<u32>,
}

fn note_registrations(
    report: &Report,
    views: &mut [KeyspaceView; 5],
    c: &VersionedCompressedBlock,
) -> [usize; 5] {
    let r = c.registrations();
    let lists: [Vec<(u32, u64)>; 5] = [
        r.address.iter().map(|(k, v)| (k.as_u32(), hb(v))).collect(),
        r.asset_id.iter().map(|(k, v)| (k.as_u32(), hb(v))).collect(),
        r.contract_id.iter().map(|(k, v)| (k.as_u32(), hb(v))).collect(),
        r.script_code.iter().map(|(k, v)| (k.as_u32(), hb(v))).collect(),
        r.predicate_code.iter().map(|(k, v)| (k.as_u32(), hb(v))).collect(),
    ];
    let mut total = [0usize; 5];
    for (ks, list) in lists.iter().enumerate() {
        let mut sorted = list.clone();
        sorted.sort();
        let view = &mut views[ks];
        for (k, vh) in sorted {
            total[ks] += 1;
            report.count(&format!("c33.registrations.{}", KEYSPACES[ks].0));
            if let Some(old) = view.live.get(&k) {
                if *old != vh {
                    report.count("c33.overwrites_of_live_key");
                }
            }
            if let Some(prev_key) = view.by_value.get(&vh) {
                if *prev_key != k {
                    report.count("c33.reregistrations_of_known_value");
                }
            }
            if let Some(last) = view.last_key {
                if k < last && last > WRITABLE - 64 && k < 64 {
                    report.count("c33.key_wraps");
                }
            }
            view.last_key = Some(k);
            view.live.insert(k, vh);
            view.by_value.insert(vh, k);
        }
    }
    // the same bytes registered in two keyspaces (each keyspace has its own keys)
    for (ks, list) in lists.iter().enumerate() {
        let others: &[usize] = if ks <= 2 { &[0, 1, 2] } else { &[3, 4] };
        for (_, vh) in list {
            if others
                .iter()
                .any(|o| *o != ks && views[*o].by_value.contains_key(vh))
            {
                report.count(if ks <= 2 {
                    "c33.cross.id32_registered_in_several_keyspaces"
                } else {
                    "c33.cross.code_registered_as_script_and_predicate"
                });
            }
        }
    }
    total
}

// --------------------------------------------------------------------------

#[derive(Clone, Debug)]
struct SessionCfg {
    retention: u64,
    n_blocks: usize,
    alphabet: usize,
    fresh_pct: u32,
}

fn key_minus(k: u32, n: u32) -> RegistryKey {
    let v = (k + WRITABLE - (n % WRITABLE)) % WRITABLE;
    RegistryKey::try_from(v).expect("below 2^24")
}

#[allow(clippy::too_many_arguments)]
fn run_session(
    report: &Report,
    seed: u64,
    shard: usize,
    session: u64,
    selftest: u32,
) {
    let mut rng = rng_for(seed, &[tag("c33"), session]);
    let pfx = if selftest > 0 { "selftest:" } else { "" };
    let scfg = SessionCfg {
        retention: *pick(&mut rng, &[2u64, 5, 30, 600]),
        n_blocks: rng.gen_range(30..60),
        alphabet: rng.gen_range(3..7),
        fresh_pct: *pick(&mut rng, &[0u32, 5, 15]),
    };
    let cfg = CompressionConfig {
        temporal_registry_retention: Duration::from_secs(scfg.retention),
    };
    // selftest 3: the decompressor is configured with a different retention
    let dcfg = if selftest == 3 {
        CompressionConfig {
            temporal_registry_retention: Duration::from_secs(0),
        }
    } else {
        cfg
    };
    let sharing = *pick(
        &mut rng,
        &[Sharing::None, Sharing::Half, Sharing::Half, Sharing::All, Sharing::All],
    );
    report.count(&format!("c33.sessions.sharing.{sharing:?}"));
    let alpha = Alphabet::with_sharing(&mut rng, scfg.alphabet, scfg.fresh_pct, sharing);
    // values seen in earlier blocks of this session, per keyspace (raw-byte hashes)
    let mut seen: [std::collections::HashSet<u64>; 5] = Default::default();
    let chain_id = ChainId::new(rng.gen_range(0..3));
    let mut comp_db = CDb::in_memory();
    let mut decomp_db = CDb::in_memory();
    let mut onchain = ODb::in_memory();
    let mut ledger = Ledger::default();
    let mut views: [KeyspaceView; 5] = Default::default();
    let mut height: u32 = *pick(&mut rng, &[1u32, 2, 77, 0x00ff_fff0]);
    let mut time: u64 = Tai64::from_unix(1_700_000_000).0 + rng.gen_range(0..1000);
    let mut trace: Vec<String> = Vec::new();

    let replay = |block_i: usize| json!({"seed": seed, "shard_seed": seed, "shard": shard, "session": session, "block": block_i});

    for bi in 0..scfg.n_blocks {
        // ---------------- time
        let r = scfg.retention;
        let (step_name, step) = match rng.gen_range(0..100) {
            0..=29 => ("0", 0),
            30..=54 => ("1", 1),
            55..=64 => ("R-1", r - 1),
            65..=76 => ("R", r),
            77..=86 => ("R+1", r + 1),
            87..=92 => ("2R+1", 2 * r + 1),
            _ => ("rand", rng.gen_range(0..=r)),
        };
        if bi > 0 {
            time += step;
            report.count(&format!("c33.time_step.{step_name}"));
        }
        // ---------------- block
        ledger.height = height;
        let executed_form = rng.gen_bool(0.5);
        let opts = Opts {
            executed_form,
            max_inputs: 4,
            max_outputs: 4,
            max_witnesses: 2,
        };
        let n_txs = rng.gen_range(1..=4);
        let mut txs: Vec<Transaction> = Vec::new();
        for ti in 0..n_txs {
            let kind = if bi < 2 {
                0
            } else {
                *pick(&mut rng, &[0u8, 0, 0, 1, 2, 3, 4, 5])
            };
            let tx = gen_tx(&mut rng, &alpha, &mut ledger, &opts, kind);
            // outputs of this transaction become spendable (also within this block)
            let id = tx.id(&chain_id);
            let outs: Vec<Output> = match &tx {
                Transaction::Script(t) => t.outputs().clone(),
                Transaction::Create(t) => t.outputs().clone(),
                Transaction::Upgrade(t) => t.outputs().clone(),
                Transaction::Upload(t) => t.outputs().clone(),
                Transaction::Blob(t) => t.outputs().clone(),
                Transaction::Mint(_) => vec![],
            };
            for (oi, o) in outs.iter().enumerate() {
                let spendable = match o {
                    Output::Coin {
                        to,
                        amount,
                        asset_id,
                    } => Some((*to, *amount, *asset_id)),
                    Output::Change {
                        to,
                        amount,
                        asset_id,
                    } if executed_form => Some((*to, *amount, *asset_id)),
                    _ => None,
                };
                if let Some((owner, amount, asset_id)) = spendable {
                    let c = CoinRef {
                        utxo_id: UtxoId::new(id, oi as u16),
                        owner,
                        amount,
                        asset_id,
                        tx_pointer: TxPointer::new(height.into(), ti as u16),
                    };
                    ledger.coins.push(c.clone());
                    ledger.new_coins.push(c);
                }
            }
            if ledger.coins.len() > 40 {
                let drop = ledger.coins.len() - 40;
                ledger.coins.drain(0..drop);
            }
            txs.push(tx);
        }
        txs.push(gen_mint(
            &mut rng,
            &alpha,
            &opts,
            height.into(),
            n_txs as u16,
        ));
        let header = PartialBlockHeader {
            application: ApplicationHeader {
                da_height: word(&mut rng).into(),
                consensus_parameters_version: idx32(&mut rng),
                state_transition_bytecode_version: idx32(&mut rng),
                generated: Empty,
            },
            consensus: ConsensusHeader {
                prev_root: b32(&mut rng).into(),
                height: height.into(),
                time: Tai64(time),
                generated: Empty,
            },
        };
        let block = Block::new(header, txs, &[], b32(&mut rng).into())
            .expect("few transactions");

        if let Err(e) = commit_onchain(&mut onchain, &mut ledger, &block, &chain_id) {
            report.inconclusive(format!("harness: on-chain commit failed: {e}"));
            return;
        }

        // ---------------- evictor positioning
        let mut moves: Vec<(MetadataKey, RegistryKey)> = Vec::new();
        if bi == 0 {
            for (name, mk) in KEYSPACES {
                match rng.gen_range(0..4) {
                    0 => {} // never assigned: fresh evictor
                    1 | 2 => {
                        let k = key_minus(WRITABLE - 1, rng.gen_range(0..6));
                        moves.push((mk, k));
                        report.count(&format!("c33.evictor_near_wrap.{name}"));
                    }
                    _ => {
                        let k =
                            RegistryKey::try_from(rng.gen_range(0..WRITABLE)).unwrap();
                        moves.push((mk, k));
                    }
                }
            }
        } else if rng.gen_bool(0.3) {
            // "a full key cycle later": the next keys handed out are live ones
            let ks = rng.gen_range(0..5);
            let live: Vec<u32> = views[ks].live.keys().copied().collect();
            if !live.is_empty() {
                let mut sorted = live;
                sorted.sort();
                let target = *pick(&mut rng, &sorted);
                moves.push((KEYSPACES[ks].1, key_minus(target, 1 + rng.gen_range(0..3))));
                report.count("c33.evictor_moved_below_live_key");
            }
        }

        // ---------------- compress (real service sequence)
        let compressed =
            match catch(|| compress_one(&mut comp_db, &block, &cfg, chain_id, &moves)) {
                Err(p) => {
                    report.violation(
                        format!("{pfx}compress_panic"),
                        format!("block #{bi} (height {height}): {p}; trace: {}", trace.join(" ")),
                        replay(bi),
                    );
                    return;
                }
                Ok(Err(e)) if e.starts_with("harness:") => {
                    report.inconclusive(format!("session {session} block {bi}: {e}"));
                    return;
                }
                Ok(Err(e)) => {
                    let short: String = e.chars().take(50).collect();
                    report.violation(
                        format!("{pfx}compress_error {short}"),
                        format!(
                            "block #{bi} (height {height}, time {time}) of a block sequence in the supported domain could not be compressed: {e}; trace: {}",
                            trace.join(" ")
                        ),
                        replay(bi),
                    );
                    return;
                }
                Ok(Ok(c)) => c,
            };
        let regs = note_registrations(report, &mut views, &compressed);
        let n_reg: usize = regs.iter().sum();
        report.add("c33.registrations", n_reg as u64);
        let refs = referenced_values(&block);
        // byte-identical values in different keyspaces (evidence)
        let n = refs[3].intersection(&refs[4]).count() as u64;
        report.add("c33.cross.code.same_block", n);
        let n = refs[4]
            .iter()
            .filter(|v| seen[3].contains(v) && !seen[4].contains(v))
            .count() as u64;
        report.add("c33.cross.code.script_then_predicate_later_block", n);
        let n = refs[3]
            .iter()
            .filter(|v| seen[4].contains(v) && !seen[3].contains(v))
            .count() as u64;
        report.add("c33.cross.code.predicate_then_script_later_block", n);
        for (x, y, name) in [
            (0usize, 1usize, "address_asset"),
            (0, 2, "address_contract"),
            (1, 2, "asset_contract"),
        ] {
            let n = refs[x].intersection(&refs[y]).count() as u64;
            report.add(&format!("c33.cross.id32.same_block.{name}"), n);
            let n = refs[x].iter().filter(|v| seen[y].contains(v)).count()
                + refs[y].iter().filter(|v| seen[x].contains(v)).count();
            report.add(&format!("c33.cross.id32.other_block.{name}"), n as u64);
        }
        for ks in 0..5 {
            seen[ks].extend(refs[ks].iter().copied());
        }
        for ks in 0..5 {
            report.add("c33.registry_value_refs", refs[ks].len() as u64);
            // referenced values that needed no new key: served by a still valid older key
            report.add(
                "c33.reuse_hits",
                refs[ks].len().saturating_sub(regs[ks]) as u64,
            );
        }
        if n_reg == 0 {
            report.count("c33.blocks_without_new_registrations");
        }
        trace.push(format!("h{height}+{step_name}:r{n_reg}"));

        // ---------------- the DA wire
        let wire = postcard::to_allocvec(&compressed).expect("postcard");
        report.add("c33.compressed_bytes", wire.len() as u64);
        let from_wire: VersionedCompressedBlock = match postcard::from_bytes(&wire) {
            Ok(b) => b,
            Err(e) => {
                report.violation(
                    format!("{pfx}compressed_block_does_not_deserialize"),
                    format!("block #{bi}: {e}"),
                    replay(bi),
                );
                return;
            }
        };

        // selftest 2: the decompressor never sees block 5
        if selftest == 2 && bi == 5 {
            // keep the decompressor database linked by height
            let mut tx = decomp_db.write_transaction();
            let _ = tx
                .storage_as_mut::<CompressedBlocks>()
                .insert(&height.into(), &from_wire);
            let _ = tx.commit();
            height += 1;
            continue;
        }

        // ---------------- decompress
        report.eval();
        let out = match catch(|| decompress_one(&mut decomp_db, &onchain, from_wire, dcfg)) {
            Err(p) => {
                report.violation(
                    format!("{pfx}decompress_panic"),
                    format!("block #{bi} (height {height}): {p}; trace: {}", trace.join(" ")),
                    replay(bi),
                );
                return;
            }
            Ok(Err(e)) if e.starts_with("harness:") => {
                report.inconclusive(format!("session {session} block {bi}: {e}"));
                return;
            }
            Ok(Err(e)) => {
                let short: String = e.chars().take(50).collect();
                report.violation(
                    format!("{pfx}decompress_error {short}"),
                    format!(
                        "block #{bi} (height {height}, time {time}, retention {}s) compressed fine but does not decompress: {e}; trace: {}",
                        scfg.retention,
                        trace.join(" ")
                    ),
                    replay(bi),
                );
                return;
            }
            Ok(Ok(o)) => o,
        };
        let mut got_txs = out.transactions;
        if selftest == 1 && bi % 7 == 3 {
            // corrupt the observation
            if let Some(Transaction::Script(s)) = got_txs.first_mut() {
                s.witnesses_mut().push(vec![7u8].into());
            }
        }

        // ---------------- oracle
        let want_header = PartialBlockHeader::from(block.header());
        if out.header != want_header {
            report.violation(
                format!("{pfx}header_mismatch"),
                format!(
                    "block #{bi}: expected {want_header:?} got {:?}",
                    out.header
                ),
                replay(bi),
            );
            return;
        }
        if got_txs.len() != block.transactions().len() {
            report.violation(
                format!("{pfx}tx_count_mismatch"),
                format!(
                    "block #{bi}: expected {} transactions got {}",
                    block.transactions().len(),
                    got_txs.len()
                ),
                replay(bi),
            );
            return;
        }
        for (ti, (orig, got)) in block.transactions().iter().zip(got_txs.iter()).enumerate()
        {
            let want = normalize(orig);
            if &want != got {
                let (loc, detail) = tx_diff(&want, got);
                report.violation(
                    format!("{pfx}decompress_mismatch {loc}"),
                    format!(
                        "block #{bi} (height {height}) tx #{ti}: {detail}; retention {}s; trace: {}",
                        scfg.retention,
                        trace.join(" ")
                    ),
                    replay(bi),
                );
                return;
            }
            if orig.id(&chain_id) != got.id(&chain_id) {
                report.violation(
                    format!("{pfx}decompress_txid_mismatch tx={}", tx_kind_name(orig)),
                    format!("block #{bi} tx #{ti}"),
                    replay(bi),
                );
                return;
            }
            report.count(&format!("c33.tx_ok.{}", tx_kind_name(orig)));
        }
        report.count("c33.blocks_ok");
        if executed_form {
            report.count("c33.blocks_ok.executed_form");
        }
        height += 1;
    }
    report.add("c33.coin_inputs", ledger.coin_inputs);
    report.add("c33.message_inputs", ledger.msg_inputs);
    report.add("c33.same_block_spends", ledger.same_block_spends);
    report.count("c33.sessions_completed");
    // non-trivial: the session saw eviction of a live key or a re-registration
    report.distinct(&(scfg.retention, scfg.alphabet, trace.clone()));
    if report.wants_sample() {
        report.sample(json!({
            "session": session,
            "retention_s": scfg.retention,
            "alphabet": scfg.alphabet,
            "fresh_pct": scfg.fresh_pct,
            "trace(height+timestep:registrations)": trace,
        }));
    }
}

fn c33(args: &Args, report: &Report) {
    let selftest: u32 = args
        .extra
        .get("selftest")
        .and_then(|s| s.parse().ok())
        .unwrap_or(0);
    let shards = args.by_tier(16usize, 64);
    let sessions = args.by_tier(24u64, 120);
    if let Some(rp) = read_replay(args) {
        let seed = rp["shard_seed"].as_u64().unwrap_or(0);
        let session = rp["session"].as_u64().unwrap_or(0);
        let shard = rp["shard"].as_u64().unwrap_or(0) as usize;
        run_session(report, seed, shard, session, selftest);
    } else {
        let report2 = report.clone();
        run_shards(report, args, shards, move |shard, seed| {
            for s in 0..sessions {
                run_session(&report2, seed, shard, s, selftest);
            }
        });
        if selftest == 0 {
            report.require("c33.blocks_ok", args.by_tier(10_000, 200_000));
            report.require("c33.blocks_ok.executed_form", 800);
            report.require("c33.sessions_completed", args.by_tier(330, 7000));
            report.require("c33.registrations", 20_000);
            report.require("c33.reuse_hits", 5000);
            for (name, _) in KEYSPACES {
                report.require(&format!("c33.registrations.{name}"), 300);
            }
            report.require("c33.key_wraps", 40);
            report.require("c33.cross.code.same_block", 300);
            report.require("c33.cross.code.script_then_predicate_later_block", 100);
            report.require("c33.cross.code.predicate_then_script_later_block", 100);
            report.require("c33.cross.code_registered_as_script_and_predicate", 1000);
            report.require("c33.cross.id32_registered_in_several_keyspaces", 2000);
            for name in ["address_asset", "address_contract", "asset_contract"] {
                report.require(&format!("c33.cross.id32.same_block.{name}"), 300);
                report.require(&format!("c33.cross.id32.other_block.{name}"), 1000);
            }
            report.require("c33.overwrites_of_live_key", 300);
            report.require("c33.reregistrations_of_known_value", 500);
            report.require("c33.evictor_moved_below_live_key", 300);
            report.require("c33.blocks_without_new_registrations", 50);
            report.require("c33.time_step.R", 150);
            report.require("c33.time_step.R+1", 150);
            report.require("c33.time_step.R-1", 100);
            report.require("c33.coin_inputs", 2000);
            report.require("c33.message_inputs", 2000);
            report.require("c33.same_block_spends", 100);
            for k in ["Script", "Create", "Mint", "Upgrade", "Upload", "Blob"] {
                report.require(&format!("c33.tx_ok.{k}"), 150);
            }
        }
    }
    report.finish(
        args,
        "exploration",
        "a session = one chain of 30-60 structurally generated blocks (1-4 txs + mint, \
         inputs from a ledger of coins created by earlier outputs incl. same-block spends \
         and DA messages, values from alphabets of 3-6 addresses/assets/contracts/scripts/ \
         predicates incl. the default value, 0-15% fresh values), retention 2/5/30/600 s, \
         time steps {0,1,R-1,R,R+1,2R+1,rand}, evictor pre-positioned below the 24-bit wrap \
         and moved just below live keys in 30% of the blocks; compressed like the service, \
         postcard round trip, decompressed with a second real registry database. A case = \
         one block judged; distinct = distinct session traces (height, time-step class, \
         number of new registrations per block)",
        false,
        &[
            "blocks are structurally generated (not executed); coins/messages/tx-id history are provided to the decompressor through a real on-chain database filled by the harness",
            "moving the evictor pointer models the passage of a full 2^24 key cycle; registry, index and timestamp tables are only ever written by fuel-core code",
            "fields the format declares as skipped are compared after resetting them to default (tx ids are compared in addition)",
        ],
    );
}
