//! `ChainSession`: a real on-chain database + relayer database + the real
//! upgradable executor, with generated genesis state.

use crate::{
    canon::{
        CanonOp,
        canonical_changes,
    },
    programs::{
        self,
        ALL_KINDS,
        ContractKind,
    },
    source::{
        CountingWaiter,
        HarnessSource,
        SourceCall,
        SourceKind,
    },
    txgen::{
        BlockPlan,
        PlannedTx,
    },
};
use fuel_core::{
    database::{
        Database,
        database_description::{
            on_chain::OnChain,
            relayer::Relayer,
        },
    },
    state::{
        TransactableStorage,
        in_memory::memory_store::MemoryStore,
    },
};
use fuel_core_executor::executor::TransparentPreconfirmationSender;
use fuel_core_relayer::storage::EventsHistory;
use fuel_core_storage::{
    ContractsAssetKey,
    ContractsStateKey,
    StorageAsMut,
    StorageAsRef,
    column::Column,
    iter::{
        IterDirection,
        IterableStore,
        IteratorOverTable,
    },
    kv_store::{
        StorageColumn,
        WriteOperation,
    },
    tables::{
        Coins,
        ConsensusParametersVersions,
        ContractsAssets,
        ContractsLatestUtxo,
        ContractsRawCode,
        ContractsState,
        FuelBlocks,
        Messages,
        ProcessedTransactions,
        Transactions,
    },
    transactional::{
        Changes,
        Modifiable,
        ReadTransaction,
        StorageChanges,
        WriteTransaction,
    },
};
use fuel_core_types::{
    blockchain::{
        block::Block,
        header::{
            ApplicationHeader,
            ConsensusHeader,
            LATEST_STATE_TRANSITION_VERSION,
            PartialBlockHeader,
        },
        primitives::{
            DaBlockHeight,
            Empty,
        },
    },
    entities::{
        coins::coin::{
            CompressedCoin,
            CompressedCoinV1,
        },
        contract::ContractUtxoInfo,
        relayer::message::{
            Message,
            MessageV1,
        },
    },
    fuel_crypto::SecretKey,
    fuel_tx::{
        Address,
        AssetId,
        Bytes32,
        ConsensusParameters,
        Contract,
        ContractId,
        ContractParameters,
        FeeParameters,
        Input,
        PredicateParameters,
        Salt,
        ScriptParameters,
        StorageSlot,
        Transaction,
        TxId,
        TxParameters,
        TxPointer,
        UniqueIdentifier,
        UtxoId,
    },
    fuel_types::{
        BlockHeight,
        ChainId,
        Nonce,
    },
    services::{
        block_producer::Components,
        executor::{
            Error as ExecutorError,
            Event as ExecutorEvent,
            TransactionExecutionStatus,
        },
        relayer::Event,
    },
    tai64::Tai64,
};
use fuel_core_upgradable_executor::{
    config::Config as ExecConfig,
    executor::Executor,
};
use rand::{
    Rng,
    rngs::StdRng,
};
use std::{
    collections::BTreeMap,
    sync::Arc,
};

pub type RealExecutor = Executor<Database<OnChain>, Database<Relayer>>;

/// Which state transition implementation the session's executor uses.
#[derive(Clone, Copy, Debug, PartialEq, Eq)]
pub enum Strategy {
    Native,
    /// `Executor::wasm`: the WASM module embedded in the build is always used
    Wasm,
    /// an executor whose *native version differs from the blocks' version*, so
    /// that it takes the "uploaded bytecode" path (`get_module(block_version)`);
    /// needs `SessionConfig::uploaded_wasm`
    UploadedWasm,
}

/// Parameters of a session. All limits are deliberately small so they bind.
#[derive(Clone, Debug)]
pub struct SessionConfig {
    pub n_owners: usize,
    pub forbid_fake_coins: bool,
    pub block_gas_limit: u64,
    pub max_gas_per_tx: u64,
    pub block_size_limit: u64,
    pub tx_max_size: u64,
    pub max_inputs: u16,
    pub max_outputs: u16,
    pub gas_price_factor: u64,
    pub gas_per_byte: u64,
    pub genesis_da_height: u64,
    pub base_coins_per_owner: usize,
    /// extra plain base-asset coins of owner 0 (count-limit stress sessions)
    pub extra_plain_coins: usize,
    pub strategy: Strategy,
    /// upper bound on transactions planned per block
    pub max_txs_per_block: usize,
    /// store the build's WASM bytecode as the uploaded state transition
    /// function of the current version in the genesis state
    pub uploaded_wasm: bool,
}

impl SessionConfig {
    pub fn random(rng: &mut StdRng) -> Self {
        let block_gas_limit = *vcommon::pick(rng, &[1_200_000u64, 2_500_000, 5_000_000]);
        SessionConfig {
            n_owners: rng.gen_range(3..=4),
            forbid_fake_coins: true,
            block_gas_limit,
            max_gas_per_tx: block_gas_limit.min(*vcommon::pick(rng, &[900_000u64, 2_000_000])),
            block_size_limit: *vcommon::pick(rng, &[5_000u64, 9_000, 20_000]),
            tx_max_size: *vcommon::pick(rng, &[2_600u64, 4_000]),
            max_inputs: *vcommon::pick(rng, &[8u16, 12]),
            max_outputs: *vcommon::pick(rng, &[8u16, 12]),
            gas_price_factor: *vcommon::pick(rng, &[1u64, 1, 92]),
            gas_per_byte: *vcommon::pick(rng, &[4u64, 63]),
            genesis_da_height: rng.gen_range(0..4),
            base_coins_per_owner: 7,
            extra_plain_coins: 0,
            strategy: Strategy::Native,
            max_txs_per_block: 12,
            uploaded_wasm: false,
        }
    }

    /// A session with very large limits and many plain coins, for driving the
    /// transaction *count* limit.
    pub fn count_stress(n_coins: usize) -> Self {
        SessionConfig {
            n_owners: 2,
            forbid_fake_coins: true,
            block_gas_limit: u64::MAX / 4,
            max_gas_per_tx: 30_000_000,
            block_size_limit: u32::MAX as u64,
            tx_max_size: 100_000,
            max_inputs: 8,
            max_outputs: 8,
            gas_price_factor: 1,
            gas_per_byte: 4,
            genesis_da_height: 0,
            base_coins_per_owner: 2,
            extra_plain_coins: n_coins,
            strategy: Strategy::Native,
            max_txs_per_block: n_coins,
            uploaded_wasm: false,
        }
    }
}

#[derive(Clone, Debug)]
pub struct Owner {
    pub secret: SecretKey,
    pub address: Address,
}

#[derive(Clone, Debug)]
pub struct ContractInfo {
    pub id: ContractId,
    pub kind: ContractKind,
    pub salt: Salt,
    pub code: Vec<u8>,
    /// deployed in genesis (true) or by a generated `Create` (false)
    pub genesis: bool,
}

/// The harness's own record of the generated genesis state (input of the
/// reference models).
#[derive(Clone, Debug, Default)]
pub struct GenesisState {
    pub coins: Vec<(UtxoId, CompressedCoin)>,
    pub messages: Vec<Message>,
    pub contract_balances: Vec<(ContractId, AssetId, u64)>,
    pub contract_state: Vec<(ContractId, Bytes32, Vec<u8>)>,
}

/// Result of a block production.
#[derive(Debug)]
pub struct Produced {
    pub block: Block,
    pub changes: Changes,
    pub tx_status: Vec<TransactionExecutionStatus>,
    pub events: Vec<ExecutorEvent>,
    pub skipped: Vec<(TxId, ExecutorError)>,
    /// every `TransactionsSource::next` call the executor made
    pub source_calls: Vec<SourceCall>,
    /// transactions the source never handed out
    pub leftover: Vec<TxId>,
}

impl Produced {
    pub fn canon(&self) -> Vec<CanonOp> {
        canonical_changes(&self.changes)
    }
}

/// Result of a block validation.
#[derive(Debug)]
pub struct Validated {
    pub changes: Changes,
    pub tx_status: Vec<TransactionExecutionStatus>,
    pub events: Vec<ExecutorEvent>,
}

impl Validated {
    pub fn canon(&self) -> Vec<CanonOp> {
        canonical_changes(&self.changes)
    }
}

/// One committed block of the session's history.
#[derive(Clone, Debug)]
pub struct CommittedBlock {
    pub height: u32,
    pub da_height: u64,
    pub tx_ids: Vec<TxId>,
    pub block: Block,
}

pub struct ChainSession {
    pub cfg: SessionConfig,
    pub on_chain: Database<OnChain>,
    pub relayer: Database<Relayer>,
    pub executor: RealExecutor,
    /// consensus parameters in force for the *next* block
    pub params: ConsensusParameters,
    pub params_version: u32,
    /// the genesis consensus parameters
    pub initial_params: ConsensusParameters,
    /// parameters (and their version) that were in force before the last upgrade
    pub prev_params: Option<(u32, ConsensusParameters)>,
    pub chain_id: ChainId,
    pub owners: Vec<Owner>,
    /// `[0]` is the base asset
    pub assets: Vec<AssetId>,
    pub contracts: Vec<ContractInfo>,
    pub genesis: GenesisState,
    /// height / DA height of the last committed block
    pub height: u32,
    pub da_height: u64,
    /// the harness's own copy of everything written to the relayer database
    pub relayer_history: BTreeMap<u64, Vec<Event>>,
    pub relayer_tip: u64,
    pub history: Vec<CommittedBlock>,
    /// transactions included in earlier blocks (candidates for resubmission)
    pub included_txs: Vec<Transaction>,
    /// transactions skipped earlier (may become valid later)
    pub skipped_txs: Vec<Transaction>,
    pub(crate) counter: u64,
    pub(crate) last_block_id: Bytes32,
}

pub const ONCHAIN_COLUMNS: std::ops::RangeInclusive<u32> = 0..=21;

fn fork_on_chain(db: &Database<OnChain>) -> Database<OnChain> {
    let mut changes: Changes = Default::default();
    for id in ONCHAIN_COLUMNS {
        let Ok(column) = Column::try_from(id) else { continue };
        let tree = changes.entry(column.id()).or_default();
        for kv in db.iter_store(column, None, None, IterDirection::Forward) {
            let (k, v) = kv.expect("iterate column");
            tree.insert(k.into(), WriteOperation::Insert(v));
        }
    }
    let store = MemoryStore::<OnChain>::default();
    TransactableStorage::<BlockHeight>::commit_changes(&store, None, StorageChanges::Changes(changes))
        .expect("copy on-chain db");
    Database::<OnChain>::new(Arc::new(store))
}

fn fork_relayer(db: &Database<Relayer>) -> Database<Relayer> {
    use fuel_core_relayer::storage::Column as RCol;
    let mut changes: Changes = Default::default();
    for column in [RCol::Metadata, RCol::History] {
        let tree = changes.entry(column.id()).or_default();
        for kv in db.iter_store(column, None, None, IterDirection::Forward) {
            let (k, v) = kv.expect("iterate column");
            tree.insert(k.into(), WriteOperation::Insert(v));
        }
    }
    let store = MemoryStore::<Relayer>::default();
    TransactableStorage::<DaBlockHeight>::commit_changes(&store, None, StorageChanges::Changes(changes))
        .expect("copy relayer db");
    Database::<Relayer>::new(Arc::new(store))
}

/// Executor configuration for a strategy.
pub fn exec_config(strategy: Strategy, forbid_fake_coins: bool) -> ExecConfig {
    ExecConfig {
        forbid_fake_coins_default: forbid_fake_coins,
        allow_syscall: false,
        native_executor_version: match strategy {
            Strategy::UploadedWasm => Some(LATEST_STATE_TRANSITION_VERSION + 1),
            _ => None,
        },
        allow_historical_execution: false,
    }
}

fn make_executor(
    on_chain: &Database<OnChain>,
    relayer: &Database<Relayer>,
    cfg: &SessionConfig,
) -> RealExecutor {
    let config = exec_config(cfg.strategy, cfg.forbid_fake_coins);
    match cfg.strategy {
        Strategy::Native | Strategy::UploadedWasm => Executor::native(on_chain.clone(), relayer.clone(), config),
        Strategy::Wasm => Executor::wasm(on_chain.clone(), relayer.clone(), config),
    }
}

pub fn build_params(cfg: &SessionConfig, rng: &mut StdRng, privileged: Address) -> ConsensusParameters {
    let tx_params = TxParameters::DEFAULT
        .with_max_inputs(cfg.max_inputs)
        .with_max_outputs(cfg.max_outputs)
        .with_max_witnesses(16)
        .with_max_gas_per_tx(cfg.max_gas_per_tx)
        .with_max_size(cfg.tx_max_size);
    let mut base = [0u8; 32];
    rng.fill(&mut base);
    base[0] = 0xBA;
    let fee = FeeParameters::DEFAULT
        .with_gas_price_factor(cfg.gas_price_factor)
        .with_gas_per_byte(cfg.gas_per_byte);
    ConsensusParameters::new(
        tx_params,
        PredicateParameters::DEFAULT.with_max_gas_per_predicate(cfg.max_gas_per_tx.min(400_000)),
        ScriptParameters::DEFAULT,
        ContractParameters::DEFAULT,
        fee,
        ChainId::new(rng.gen_range(1..1000)),
        Default::default(),
        AssetId::new(base),
        cfg.block_gas_limit,
        cfg.block_size_limit,
        privileged,
    )
}

impl ChainSession {
    /// Generate a genesis state and open a session on it.
    pub fn new(rng: &mut StdRng, cfg: SessionConfig) -> Self {
        let owners: Vec<Owner> = (0..cfg.n_owners)
            .map(|_| {
                let secret = SecretKey::random(rng);
                let address = Input::owner(&secret.public_key());
                Owner { secret, address }
            })
            .collect();
        let params = build_params(&cfg, rng, owners[0].address);
        let chain_id = params.chain_id();
        let base = *params.base_asset_id();
        let mut assets = vec![base];
        for i in 0..2u8 {
            let mut a = [0u8; 32];
            rng.fill(&mut a);
            a[0] = 0xA1 + i;
            assets.push(AssetId::new(a));
        }

        let mut on_chain = Database::<OnChain>::in_memory();
        let relayer = Database::<Relayer>::in_memory();
        let mut genesis = GenesisState::default();
        let mut contracts = Vec::new();

        {
            let mut tx = on_chain.write_transaction();
            tx.storage_as_mut::<ConsensusParametersVersions>()
                .insert(&0, &params)
                .expect("params");

            // ---- coins
            let mut n = 0u64;
            let mut add_coin = |owner: Address, amount: u64, asset: AssetId, g: &mut GenesisState| {
                n += 1;
                let mut id = [0u8; 32];
                id[0] = 0x9E;
                id[24..].copy_from_slice(&n.to_be_bytes());
                let utxo = UtxoId::new(Bytes32::new(id), (n % 3) as u16);
                let coin: CompressedCoin = CompressedCoinV1 {
                    owner,
                    amount,
                    asset_id: asset,
                    tx_pointer: TxPointer::new(0u32.into(), 0),
                }
                .into();
                g.coins.push((utxo, coin));
            };
            let pt = Input::predicate_owner(programs::predicate_true());
            let pf = Input::predicate_owner(programs::predicate_false());
            let ph = Input::predicate_owner(programs::predicate_hungry());
            for (oi, o) in owners.iter().enumerate() {
                let n_base = cfg.base_coins_per_owner + if oi == 0 && cfg.extra_plain_coins == 0 { 8 } else { 0 };
                for k in 0..n_base {
                    let amount = match k {
                        0 => 3,
                        1 => 70_000,
                        _ => rng.gen_range(2_000_000_000u64..900_000_000_000),
                    };
                    add_coin(o.address, amount, base, &mut genesis);
                }
                add_coin(o.address, rng.gen_range(1_000..1_000_000), assets[1], &mut genesis);
                add_coin(o.address, rng.gen_range(1_000..1_000_000), assets[1], &mut genesis);
                add_coin(o.address, rng.gen_range(1_000..1_000_000), assets[2], &mut genesis);
            }
            for _ in 0..3 {
                add_coin(pt, rng.gen_range(2_000_000_000u64..90_000_000_000), base, &mut genesis);
                add_coin(ph, rng.gen_range(2_000_000_000u64..90_000_000_000), base, &mut genesis);
            }
            add_coin(pt, 5_000, assets[1], &mut genesis);
            add_coin(pf, 50_000_000_000, base, &mut genesis);
            for _ in 0..cfg.extra_plain_coins {
                add_coin(owners[0].address, 40_000_000_000, base, &mut genesis);
            }
            for (utxo, coin) in &genesis.coins {
                tx.storage_as_mut::<Coins>().insert(utxo, coin).expect("coin");
            }

            // ---- messages already on chain at genesis
            let g_da = cfg.genesis_da_height;
            let da_choices = [0u64, g_da, g_da, g_da + 1, g_da + 2, g_da + 4, g_da + 1_000];
            let n_msgs = if cfg.extra_plain_coins > 0 { 2 } else { 10 };
            for i in 0..n_msgs {
                let recipient = match i % 5 {
                    4 => pt,
                    k => owners[k % owners.len()].address,
                };
                let data = if i % 2 == 0 {
                    vec![]
                } else {
                    (0..rng.gen_range(1..24usize)).map(|_| rng.r#gen::<u8>()).collect()
                };
                let mut nonce = [0u8; 32];
                rng.fill(&mut nonce);
                nonce[0] = 0x6E;
                let msg: Message = MessageV1 {
                    sender: Address::new(rng.r#gen()),
                    recipient,
                    nonce: Nonce::new(nonce),
                    amount: if i == 3 { 0 } else { rng.gen_range(1_000_000_000u64..50_000_000_000) },
                    data,
                    da_height: DaBlockHeight(da_choices[i % da_choices.len()]),
                }
                .into();
                tx.storage_as_mut::<Messages>().insert(msg.nonce(), &msg).expect("msg");
                genesis.messages.push(msg);
            }

            // ---- contracts
            let mut kinds: Vec<ContractKind> = ALL_KINDS.to_vec();
            kinds.push(ContractKind::Store);
            kinds.push(ContractKind::Multi);
            for (i, kind) in kinds.into_iter().enumerate() {
                let code = programs::contract_code(kind);
                let mut salt = [0u8; 32];
                salt[0] = i as u8;
                salt[1] = 0x5A;
                let salt = Salt::new(salt);
                let slots: Vec<StorageSlot> = if i % 3 == 0 {
                    let mut k = [0u8; 32];
                    k[..8].copy_from_slice(&1u64.to_be_bytes());
                    let mut v = [0u8; 32];
                    v[..8].copy_from_slice(&(1000 + i as u64).to_be_bytes());
                    vec![StorageSlot::new(Bytes32::new(k), Bytes32::new(v))]
                } else {
                    vec![]
                };
                let contract = Contract::from(code.clone());
                let root = contract.root();
                let state_root = Contract::initial_state_root(slots.iter());
                let id = Contract::id(&salt, &root, &state_root);
                tx.storage_as_mut::<ContractsRawCode>()
                    .insert(&id, code.as_slice())
                    .expect("code");
                let mut u = [0u8; 32];
                u[0] = 0xC0;
                u[31] = i as u8;
                tx.storage_as_mut::<ContractsLatestUtxo>()
                    .insert(
                        &id,
                        &ContractUtxoInfo::V1((UtxoId::new(Bytes32::new(u), 0), TxPointer::new(0u32.into(), 0)).into()),
                    )
                    .expect("utxo");
                for s in &slots {
                    tx.storage_as_mut::<ContractsState>()
                        .insert(&ContractsStateKey::new(&id, s.key()), s.value().as_ref())
                        .expect("state");
                    genesis.contract_state.push((id, *s.key(), s.value().as_ref().to_vec()));
                }
                let bal_base = rng.gen_range(10_000u64..1_000_000);
                tx.storage_as_mut::<ContractsAssets>()
                    .insert(&ContractsAssetKey::new(&id, &base), &bal_base)
                    .expect("bal");
                genesis.contract_balances.push((id, base, bal_base));
                if i % 2 == 0 {
                    let b = rng.gen_range(100u64..10_000);
                    tx.storage_as_mut::<ContractsAssets>()
                        .insert(&ContractsAssetKey::new(&id, &assets[1]), &b)
                        .expect("bal");
                    genesis.contract_balances.push((id, assets[1], b));
                }
                contracts.push(ContractInfo {
                    id,
                    kind,
                    salt,
                    code,
                    genesis: true,
                });
            }

            if cfg.uploaded_wasm {
                use fuel_core_storage::tables::{
                    StateTransitionBytecodeVersions,
                    UploadedBytecodes,
                };
                use fuel_core_types::fuel_vm::UploadedBytecode;
                let mut root = [0u8; 32];
                root[0] = 0x5F;
                let root = Bytes32::new(root);
                tx.storage_as_mut::<UploadedBytecodes>()
                    .insert(
                        &root,
                        &UploadedBytecode::Completed(fuel_core_upgradable_executor::WASM_BYTECODE.to_vec()),
                    )
                    .expect("uploaded bytecode");
                tx.storage_as_mut::<StateTransitionBytecodeVersions>()
                    .insert(&LATEST_STATE_TRANSITION_VERSION, &root)
                    .expect("stf version");
            }

            // ---- genesis block (height 0) so that the database height is set
            let mut block = Block::default();
            block.header_mut().set_block_height(0u32.into());
            block.header_mut().set_da_height(DaBlockHeight(cfg.genesis_da_height));
            block.header_mut().set_time(Tai64(4_611_686_018_427_387_914 + 1_700_000_000));
            block.header_mut().recalculate_metadata();
            let compressed = block.compress(&chain_id);
            tx.storage_as_mut::<FuelBlocks>()
                .insert(&BlockHeight::from(0u32), &compressed)
                .expect("genesis block");
            tx.commit().expect("commit genesis");
        }

        let executor = make_executor(&on_chain, &relayer, &cfg);
        let da = cfg.genesis_da_height;
        ChainSession {
            cfg,
            on_chain,
            relayer,
            executor,
            initial_params: params.clone(),
            params,
            params_version: 0,
            prev_params: None,
            chain_id,
            owners,
            assets,
            contracts,
            genesis,
            height: 0,
            da_height: da,
            relayer_history: BTreeMap::new(),
            relayer_tip: da,
            history: Vec::new(),
            included_txs: Vec::new(),
            skipped_txs: Vec::new(),
            counter: 0,
            last_block_id: Bytes32::zeroed(),
        }
    }

    /// Independent copy of the session: both databases are copied key by key
    /// into fresh in-memory stores and a new executor is built on them.
    pub fn fork(&self) -> ChainSession {
        self.fork_with_strategy(self.cfg.strategy)
    }

    /// Like [`fork`], but the copy's executor uses the given strategy.
    pub fn fork_with_strategy(&self, strategy: Strategy) -> ChainSession {
        let on_chain = fork_on_chain(&self.on_chain);
        let relayer = fork_relayer(&self.relayer);
        let mut cfg = self.cfg.clone();
        cfg.strategy = strategy;
        let executor = make_executor(&on_chain, &relayer, &cfg);
        ChainSession {
            cfg,
            on_chain,
            relayer,
            executor,
            params: self.params.clone(),
            params_version: self.params_version,
            initial_params: self.initial_params.clone(),
            prev_params: self.prev_params.clone(),
            chain_id: self.chain_id,
            owners: self.owners.clone(),
            assets: self.assets.clone(),
            contracts: self.contracts.clone(),
            genesis: self.genesis.clone(),
            height: self.height,
            da_height: self.da_height,
            relayer_history: self.relayer_history.clone(),
            relayer_tip: self.relayer_tip,
            history: self.history.clone(),
            included_txs: self.included_txs.clone(),
            skipped_txs: self.skipped_txs.clone(),
            counter: self.counter,
            last_block_id: self.last_block_id,
        }
    }

    pub fn base_asset(&self) -> AssetId {
        self.assets[0]
    }

    pub fn owner_secret(&self, address: &Address) -> Option<&SecretKey> {
        self.owners.iter().find(|o| &o.address == address).map(|o| &o.secret)
    }

    pub(crate) fn next_counter(&mut self) -> u64 {
        self.counter += 1;
        self.counter
    }

    // ------------------------------------------------------------------ relayer

    /// Append events for DA height `relayer_tip + 1` to the real relayer
    /// database (heights are consecutive) and to the harness's own history.
    pub fn push_da_height(&mut self, events: Vec<Event>) -> u64 {
        let h = self.relayer_tip + 1;
        for e in &events {
            assert_eq!(e.da_height().0, h, "event for wrong DA height");
        }
        self.relayer
            .storage_as_mut::<EventsHistory>()
            .insert(&DaBlockHeight(h), events.as_slice())
            .expect("insert relayer events");
        self.relayer_history.insert(h, events);
        self.relayer_tip = h;
        h
    }

    /// The harness's own record of the events at a DA height.
    pub fn relayer_events(&self, h: u64) -> &[Event] {
        self.relayer_history.get(&h).map(|v| v.as_slice()).unwrap_or(&[])
    }

    // ------------------------------------------------------------------ execution

    pub fn header_for(&self, plan: &BlockPlan) -> PartialBlockHeader {
        PartialBlockHeader {
            application: ApplicationHeader {
                da_height: DaBlockHeight(plan.da_height),
                consensus_parameters_version: plan.params_version,
                state_transition_bytecode_version: LATEST_STATE_TRANSITION_VERSION,
                generated: Empty,
            },
            consensus: ConsensusHeader {
                prev_root: self.last_block_id,
                height: plan.height.into(),
                time: Tai64(4_611_686_018_427_387_914 + 1_700_000_000 + plan.height as u64 * 7),
                generated: Empty,
            },
        }
    }

    /// Produce a block from the plan through
    /// `Executor::produce_without_commit_with_source` with a harness
    /// `TransactionsSource` of the given behaviour. Nothing is committed.
    pub fn produce(&self, plan: &BlockPlan, source: SourceKind) -> Result<Produced, ExecutorError> {
        self.produce_txs(plan, &plan.txs, source)
    }

    /// Same as [`produce`] but with an explicit transaction list (used to
    /// execute one transaction alone, or a block without some transaction).
    pub fn produce_txs(
        &self,
        plan: &BlockPlan,
        txs: &[PlannedTx],
        source: SourceKind,
    ) -> Result<Produced, ExecutorError> {
        self.produce_on(&self.executor, plan, txs, source, false)
    }

    /// Another executor over the *same* databases with the given strategy
    /// (used to run native and WASM side by side on one parent state).
    pub fn executor_for(&self, strategy: Strategy) -> RealExecutor {
        let mut cfg = self.cfg.clone();
        cfg.strategy = strategy;
        make_executor(&self.on_chain, &self.relayer, &cfg)
    }

    /// Like [`executor_for`] with an explicit `forbid_fake_coins` config default.
    pub fn executor_with(&self, strategy: Strategy, forbid_fake_coins_default: bool) -> RealExecutor {
        let mut cfg = self.cfg.clone();
        cfg.strategy = strategy;
        cfg.forbid_fake_coins = forbid_fake_coins_default;
        make_executor(&self.on_chain, &self.relayer, &cfg)
    }

    /// `Executor::dry_run` (the API entry point with the utxo-validation
    /// override) of `txs` on top of the current state with the plan's header data.
    pub fn dry_run_on(
        &self,
        executor: &RealExecutor,
        plan: &BlockPlan,
        txs: Vec<Transaction>,
        forbid_fake_coins: Option<bool>,
    ) -> Result<fuel_core_types::services::executor::DryRunResult, ExecutorError> {
        let components = Components {
            header_to_produce: self.header_for(plan),
            transactions_source: txs,
            coinbase_recipient: plan.coinbase_recipient,
            gas_price: plan.gas_price,
        };
        executor.dry_run(components, forbid_fake_coins, None, false)
    }

    /// Produce (or dry-run, if `dry_run`) on an explicit executor.
    pub fn produce_on(
        &self,
        executor: &RealExecutor,
        plan: &BlockPlan,
        txs: &[PlannedTx],
        source: SourceKind,
        dry_run: bool,
    ) -> Result<Produced, ExecutorError> {
        if dry_run {
            let src = HarnessSource::new(source, txs, plan.height.into(), plan.params_version, &self.params, self.prev_params.as_ref());
            let probe = src.clone();
            let components = Components {
                header_to_produce: self.header_for(plan),
                transactions_source: src,
                coinbase_recipient: plan.coinbase_recipient,
                gas_price: plan.gas_price,
            };
            let (result, changes) = executor.dry_run_without_commit_with_source(components)?.into();
            return Ok(Produced {
                block: result.block,
                changes,
                tx_status: result.tx_status,
                events: result.events,
                skipped: result.skipped_transactions,
                source_calls: probe.calls(),
                leftover: probe.leftover(),
            });
        }
        self.produce_on_inner(executor, plan, txs, source)
    }

    /// Validate on an explicit executor.
    pub fn validate_on(&self, executor: &RealExecutor, block: &Block) -> Result<Validated, ExecutorError> {
        let (result, changes) = executor.validate(block)?.into();
        Ok(Validated {
            changes,
            tx_status: result.tx_status,
            events: result.events,
        })
    }

    fn produce_on_inner(
        &self,
        executor: &RealExecutor,
        plan: &BlockPlan,
        txs: &[PlannedTx],
        source: SourceKind,
    ) -> Result<Produced, ExecutorError> {
        let src = HarnessSource::new(source, txs, plan.height.into(), plan.params_version, &self.params, self.prev_params.as_ref());
        let probe = src.clone();
        let components = Components {
            header_to_produce: self.header_for(plan),
            transactions_source: src,
            coinbase_recipient: plan.coinbase_recipient,
            gas_price: plan.gas_price,
        };
        let waiter = CountingWaiter::new(source.waiter_rounds());
        let fut = executor.produce_without_commit_with_source(components, waiter, TransparentPreconfirmationSender);
        let (result, changes) = futures::executor::block_on(fut)?.into();
        Ok(Produced {
            block: result.block,
            changes,
            tx_status: result.tx_status,
            events: result.events,
            skipped: result.skipped_transactions,
            source_calls: probe.calls(),
            leftover: probe.leftover(),
        })
    }

    /// Validate a block against the current (uncommitted-to) parent state.
    pub fn validate(&self, block: &Block) -> Result<Validated, ExecutorError> {
        let (result, changes) = self.executor.validate(block)?.into();
        Ok(Validated {
            changes,
            tx_status: result.tx_status,
            events: result.events,
        })
    }

    /// Commit the executor's `changes` for `block` the way the importer does:
    /// the changes plus the block itself (`FuelBlocks`, `Transactions`).
    pub fn commit(&mut self, block: &Block, changes: &Changes) -> Result<(), String> {
        let height = *block.header().height();
        let full = {
            let mut tx = self.on_chain.read_transaction().with_changes(changes.clone());
            tx.storage_as_mut::<FuelBlocks>()
                .insert(&height, &block.compress(&self.chain_id))
                .map_err(|e| e.to_string())?;
            for t in block.transactions() {
                tx.storage_as_mut::<Transactions>()
                    .insert(&t.id(&self.chain_id), t)
                    .map_err(|e| e.to_string())?;
            }
            tx.into_changes()
        };
        self.on_chain.commit_changes(full).map_err(|e| e.to_string())?;
        self.height = u32::from(height);
        self.da_height = block.header().da_height().0;
        self.last_block_id = {
            let id = block.id();
            let b: &Bytes32 = id.as_ref();
            *b
        };
        let tx_ids: Vec<TxId> = block.transactions().iter().map(|t| t.id(&self.chain_id)).collect();
        for t in block.transactions() {
            if !matches!(t, Transaction::Mint(_)) && self.included_txs.len() < 64 {
                self.included_txs.push(t.clone());
            }
        }
        self.history.push(CommittedBlock {
            height: self.height,
            da_height: self.da_height,
            tx_ids,
            block: block.clone(),
        });
        self.refresh_params();
        Ok(())
    }

    /// Re-read the latest consensus parameters version (an `Upgrade`
    /// transaction may have added one).
    pub fn refresh_params(&mut self) {
        let latest = self
            .on_chain
            .iter_all::<ConsensusParametersVersions>(Some(IterDirection::Reverse))
            .next()
            .and_then(|r| r.ok());
        if let Some((v, p)) = latest {
            if v != self.params_version {
                self.prev_params = Some((self.params_version, self.params.clone()));
            }
            self.params_version = v;
            self.params = p;
        }
    }

    /// Remember transactions a production skipped (they may be resubmitted).
    pub fn note_skipped(&mut self, plan: &BlockPlan, produced: &Produced) {
        for (id, _) in &produced.skipped {
            if let Some(p) = plan.txs.iter().find(|p| &p.id == id) {
                if self.skipped_txs.len() < 32 {
                    self.skipped_txs.push(p.tx.clone());
                }
            }
        }
    }

    // ------------------------------------------------------------------ dumps

    /// Raw dump of one column of the on-chain database.
    pub fn dump_column(&self, column: Column) -> BTreeMap<Vec<u8>, Vec<u8>> {
        self.on_chain
            .iter_store(column, None, None, IterDirection::Forward)
            .map(|kv| {
                let (k, v) = kv.expect("iterate");
                (k, v.as_ref().to_vec())
            })
            .collect()
    }

    pub fn coins(&self) -> BTreeMap<UtxoId, CompressedCoin> {
        self.on_chain
            .iter_all::<Coins>(None)
            .map(|r| r.expect("coins"))
            .collect()
    }

    pub fn messages(&self) -> BTreeMap<Nonce, Message> {
        self.on_chain
            .iter_all::<Messages>(None)
            .map(|r| r.expect("messages"))
            .collect()
    }

    pub fn processed_txs(&self) -> Vec<TxId> {
        self.on_chain
            .iter_all_keys::<ProcessedTransactions>(None)
            .map(|r| r.expect("processed"))
            .collect()
    }

    pub fn contract_state(&self) -> BTreeMap<Vec<u8>, Vec<u8>> {
        self.dump_column(Column::ContractsState)
    }

    pub fn contract_balances(&self) -> BTreeMap<Vec<u8>, Vec<u8>> {
        self.dump_column(Column::ContractsAssets)
    }

    pub fn contract_code(&self) -> BTreeMap<Vec<u8>, Vec<u8>> {
        self.dump_column(Column::ContractsRawCode)
    }

    pub fn contract_exists(&self, id: &ContractId) -> bool {
        self.on_chain
            .storage::<ContractsLatestUtxo>()
            .contains_key(id)
            .unwrap_or(false)
    }

    /// Digest of the complete on-chain state (all columns), for "nothing
    /// changed" checks.
    pub fn state_digest(&self) -> u64 {
        let mut all: Vec<(u32, Vec<u8>, Vec<u8>)> = Vec::new();
        for id in ONCHAIN_COLUMNS {
            let Ok(column) = Column::try_from(id) else { continue };
            for (k, v) in self.dump_column(column) {
                all.push((id, k, v));
            }
        }
        vcommon::hash64(&all)
    }
}
