//! Chain generator shared by the executor-based monitors.
