//! Chain session generator shared by the executor-based monitors.
//!
//! See `README.md` in this crate for the API overview.

pub mod canon;
pub mod programs;
pub mod session;
pub mod source;
pub mod txgen;

pub use canon::{
    CanonOp,
    canonical_changes,
    diff_changes,
    first_debug_diff,
    rfc6962_root,
};
pub use session::{
    ChainSession,
    CommittedBlock,
    ContractInfo,
    GenesisState,
    Owner,
    Produced,
    SessionConfig,
    Strategy,
    Validated,
};
pub use source::{
    HarnessSource,
    SourceCall,
    SourceKind,
    metered_size,
};
pub use txgen::{
    BlockPlan,
    CheckedMode,
    GenOptions,
    PlannedTx,
    ScriptInfo,
    TxKind,
    Twist,
};

// re-exports so that users need not repeat the dependency list
pub use fuel_core;
pub use fuel_core_executor;
pub use fuel_core_storage;
pub use fuel_core_types;
pub use fuel_core_upgradable_executor;
