//! Block plan generator: per block a DA height advance (with generated relayer
//! events), a gas price, a coinbase recipient and a list of transactions built
//! from templates, including deliberately invalid ones.

use crate::{
    programs::{
        self,
        CallArg,
        ContractKind,
        Step,
        Terminal,
    },
    session::{
        ChainSession,
        ContractInfo,
    },
};
use fuel_core_types::{
    entities::{
        RelayedTransaction,
        coins::coin::CompressedCoin,
        relayer::{
            message::{
                Message,
                MessageV1,
            },
            transaction::RelayedTransactionV1,
        },
    },
    fuel_crypto::SecretKey,
    fuel_tx::{
        Address,
        AssetId,
        BlobBody,
        BlobId,
        BlobIdExt,
        Bytes32,
        Cacheable,
        ConsensusParameters,
        Contract,
        ContractId,
        Input,
        Output,
        Salt,
        Signable,
        StorageSlot,
        Transaction,
        TransactionFee,
        TxId,
        TxPointer,
        UniqueIdentifier,
        UploadSubsection,
        UtxoId,
        Witness,
        field::{
            MaxFeeLimit,
            Script as ScriptField,
        },
        policies::Policies,
    },
    fuel_types::{
        BlockHeight,
        Nonce,
        bytes::padded_len,
        canonical::Serialize,
    },
    fuel_vm::{
        checked_transaction::{
            CheckPredicateParams,
        },
        interpreter::{
            ExecutableTransaction,
            MemoryInstance,
        },
        predicate::EmptyStorage,
    },
    services::relayer::Event,
};
use rand::{
    Rng,
    rngs::StdRng,
    seq::SliceRandom,
};
use std::collections::{
    BTreeMap,
    HashSet,
};
use vcommon::{
    chance,
    pick,
};

/// How the source hands the transaction to the executor.
#[derive(Clone, Copy, Debug, PartialEq, Eq, Hash)]
pub enum CheckedMode {
    /// `MaybeCheckedTransaction::Transaction`
    Raw,
    /// `CheckedTransaction` checked with the block's parameters version
    Checked,
    /// `CheckedTransaction` labelled with another version (forces a re-check)
    CheckedOtherVersion,
    /// checked one block earlier (same parameters): the executor itself must
    /// notice an expiration that has passed meanwhile
    CheckedEarlier,
    /// fully checked the way the transaction pool does it (basic checks,
    /// signatures *and* predicates: all check bits set) under the block's
    /// parameters; the executor must still compare the inputs with storage
    FullyChecked,
    /// checked under the parameters that were in force *before* the last
    /// upgrade and labelled with that older version: must be re-checked
    CheckedOld,
}

#[derive(Clone, Debug, PartialEq, Eq, Hash)]
pub enum TxKind {
    Transfer,
    Script,
    Create,
    Blob,
    Upload,
    Upgrade,
    /// an earlier transaction handed in again
    Resubmit { was_included: bool },
    /// a `Mint` handed in by the source
    SourceMint,
}

/// Deliberate defect (or special shape) of a generated transaction. Only used
/// for evidence counters; oracles never rely on it.
#[derive(Clone, Copy, Debug, PartialEq, Eq, Hash)]
pub enum Twist {
    None,
    DuplicateInBlock,
    DoubleSpend,
    MissingCoin,
    MismatchCoin,
    MismatchMessage,
    Expired,
    Immature,
    GasHog,
    BadWitness,
    Oversized,
    LowMaxFee,
    FalsePredicate,
    BadPredicateGas,
    UnknownContract,
    ContractNotInInputs,
    CollidingCreate,
    CollidingBlob,
    NoChange,
}

#[derive(Clone, Debug)]
pub struct ScriptInfo {
    pub steps: Vec<Step>,
    pub terminal: Terminal,
    pub gas_limit: u64,
}

#[derive(Clone, Debug)]
pub struct PlannedTx {
    pub tx: Transaction,
    pub id: TxId,
    pub kind: TxKind,
    pub twist: Twist,
    pub checked: CheckedMode,
    pub script: Option<ScriptInfo>,
    /// contract a `Create` would deploy
    pub creates: Option<ContractInfo>,
    pub uses_message: bool,
    pub uses_predicate: bool,
}

impl PlannedTx {
    pub fn label(&self) -> String {
        let mut s = format!("{:?}", self.kind);
        if let Some(sc) = &self.script {
            let steps: Vec<&str> = sc.steps.iter().map(|s| s.name()).collect();
            s = format!("Script[{}]->{:?}(gas {})", steps.join(","), sc.terminal, sc.gas_limit);
        }
        if self.twist != Twist::None {
            s.push_str(&format!("+{:?}", self.twist));
        }
        if self.uses_message {
            s.push_str("+msg");
        }
        if self.uses_predicate {
            s.push_str("+pred");
        }
        if self.checked != CheckedMode::Raw {
            s.push_str(&format!("+{:?}", self.checked));
        }
        s
    }
}

#[derive(Clone, Debug)]
pub struct BlockPlan {
    pub height: u32,
    pub da_height: u64,
    pub params_version: u32,
    pub gas_price: u64,
    pub coinbase_recipient: ContractId,
    pub txs: Vec<PlannedTx>,
}

impl BlockPlan {
    /// The same block header data with another transaction list.
    pub fn with_txs(&self, txs: Vec<PlannedTx>) -> BlockPlan {
        BlockPlan {
            txs,
            ..self.clone()
        }
    }
}

/// Options of the plan generator.
#[derive(Clone, Debug)]
pub struct GenOptions {
    /// largest DA advance per block
    pub max_da_advance: u64,
    /// generate relayer events
    pub relayer_events: bool,
    /// per-mille probability that a transaction gets an adversarial twist
    pub twist_permille: u32,
    /// allow Upgrade transactions (they change the consensus parameters)
    pub upgrades: bool,
    /// number of transactions to aim for (capped by the session config)
    pub txs: std::ops::RangeInclusive<usize>,
    /// emphasise scripts with effects followed by failure
    pub revert_heavy: bool,
    /// emphasise resubmission of earlier transactions
    pub resubmit_heavy: bool,
    /// only plain transfers (count stress)
    pub plain_only: bool,
    /// put a privileged consensus-parameter `Upgrade` first in the block
    pub force_upgrade: bool,
    /// per-mille of transactions that are gas burners (countdown loops that
    /// really use their script gas limit)
    pub burners_permille: u32,
    /// forced (relayed) transactions are often gas burners with a large gas limit
    pub forced_burners: bool,
}

impl Default for GenOptions {
    fn default() -> Self {
        GenOptions {
            max_da_advance: 5,
            relayer_events: true,
            twist_permille: 220,
            upgrades: true,
            txs: 3..=12,
            revert_heavy: false,
            resubmit_heavy: false,
            plain_only: false,
            force_upgrade: false,
            burners_permille: 30,
            forced_burners: false,
        }
    }
}

#[derive(Clone, Copy, Debug, PartialEq, Eq)]
enum Spender {
    Signer,
    PredTrue,
    PredFalse,
    PredHungry,
    Unknown,
}

struct Wallet {
    coins: Vec<(UtxoId, CompressedCoin)>,
    msgs: Vec<Message>,
    used_coins: HashSet<UtxoId>,
    used_msgs: HashSet<Nonce>,
}

impl Wallet {
    fn snapshot(sess: &ChainSession) -> Self {
        Wallet {
            coins: sess.coins().into_iter().collect(),
            msgs: sess.messages().into_values().collect(),
            used_coins: HashSet::new(),
            used_msgs: HashSet::new(),
        }
    }

    fn take_coin(
        &mut self,
        sess: &ChainSession,
        rng: &mut StdRng,
        asset: &AssetId,
        min: u64,
        want: &[Spender],
    ) -> Option<(UtxoId, CompressedCoin)> {
        let cands: Vec<usize> = self
            .coins
            .iter()
            .enumerate()
            .filter(|(_, (u, c))| {
                c.asset_id() == asset
                    && *c.amount() >= min
                    && !self.used_coins.contains(u)
                    && want.contains(&spender_of(sess, c.owner()))
            })
            .map(|(i, _)| i)
            .collect();
        if cands.is_empty() {
            return None;
        }
        let i = *pick(rng, &cands);
        let (u, c) = self.coins[i].clone();
        self.used_coins.insert(u);
        Some((u, c))
    }

    fn take_msg(&mut self, sess: &ChainSession, rng: &mut StdRng, want_data: Option<bool>) -> Option<Message> {
        let cands: Vec<usize> = self
            .msgs
            .iter()
            .enumerate()
            .filter(|(_, m)| {
                !self.used_msgs.contains(m.nonce())
                    && want_data.map(|d| d == !m.data().is_empty()).unwrap_or(true)
                    && spender_of(sess, m.recipient()) != Spender::Unknown
            })
            .map(|(i, _)| i)
            .collect();
        if cands.is_empty() {
            return None;
        }
        let m = self.msgs[*pick(rng, &cands)].clone();
        self.used_msgs.insert(*m.nonce());
        Some(m)
    }
}

fn spender_of(sess: &ChainSession, addr: &Address) -> Spender {
    if sess.owner_secret(addr).is_some() {
        Spender::Signer
    } else if *addr == Input::predicate_owner(programs::predicate_true()) {
        Spender::PredTrue
    } else if *addr == Input::predicate_owner(programs::predicate_false()) {
        Spender::PredFalse
    } else if *addr == Input::predicate_owner(programs::predicate_hungry()) {
        Spender::PredHungry
    } else {
        Spender::Unknown
    }
}

/// Inputs/outputs/witnesses under construction.
struct Draft {
    inputs: Vec<Input>,
    outputs: Vec<Output>,
    witnesses: Vec<Witness>,
    signers: Vec<SecretKey>,
    witness_of: BTreeMap<Address, u16>,
    has_predicate: bool,
    has_message: bool,
    base_in: u64,
}

impl Draft {
    fn new(leading_witnesses: Vec<Witness>) -> Self {
        Draft {
            inputs: vec![],
            outputs: vec![],
            witnesses: leading_witnesses,
            signers: vec![],
            witness_of: BTreeMap::new(),
            has_predicate: false,
            has_message: false,
            base_in: 0,
        }
    }

    fn witness_for(&mut self, sess: &ChainSession, addr: &Address) -> u16 {
        if let Some(i) = self.witness_of.get(addr) {
            return *i;
        }
        let i = self.witnesses.len() as u16;
        self.witnesses.push(Witness::default());
        if let Some(s) = sess.owner_secret(addr) {
            self.signers.push(*s);
        }
        self.witness_of.insert(*addr, i);
        i
    }

    fn predicate_of(sp: Spender) -> Vec<u8> {
        match sp {
            Spender::PredTrue => programs::predicate_true(),
            Spender::PredFalse => programs::predicate_false(),
            _ => programs::predicate_hungry(),
        }
    }

    fn add_coin(&mut self, sess: &ChainSession, utxo: UtxoId, coin: &CompressedCoin) {
        let sp = spender_of(sess, coin.owner());
        if coin.asset_id() == &sess.base_asset() {
            self.base_in = self.base_in.saturating_add(*coin.amount());
        }
        match sp {
            Spender::Signer | Spender::Unknown => {
                let w = self.witness_for(sess, coin.owner());
                self.inputs.push(Input::coin_signed(
                    utxo,
                    *coin.owner(),
                    *coin.amount(),
                    *coin.asset_id(),
                    *coin.tx_pointer(),
                    w,
                ));
            }
            _ => {
                self.has_predicate = true;
                self.inputs.push(Input::coin_predicate(
                    utxo,
                    *coin.owner(),
                    *coin.amount(),
                    *coin.asset_id(),
                    *coin.tx_pointer(),
                    0,
                    Self::predicate_of(sp),
                    vec![1, 2, 3],
                ));
            }
        }
    }

    fn add_message(&mut self, sess: &ChainSession, m: &Message) {
        let sp = spender_of(sess, m.recipient());
        self.has_message = true;
        self.base_in = self.base_in.saturating_add(m.amount());
        let data = m.data().clone();
        match sp {
            Spender::Signer | Spender::Unknown => {
                let w = self.witness_for(sess, m.recipient());
                if data.is_empty() {
                    self.inputs.push(Input::message_coin_signed(
                        *m.sender(),
                        *m.recipient(),
                        m.amount(),
                        *m.nonce(),
                        w,
                    ));
                } else {
                    self.inputs.push(Input::message_data_signed(
                        *m.sender(),
                        *m.recipient(),
                        m.amount(),
                        *m.nonce(),
                        w,
                        data,
                    ));
                }
            }
            _ => {
                self.has_predicate = true;
                if data.is_empty() {
                    self.inputs.push(Input::message_coin_predicate(
                        *m.sender(),
                        *m.recipient(),
                        m.amount(),
                        *m.nonce(),
                        0,
                        Self::predicate_of(sp),
                        vec![],
                    ));
                } else {
                    self.inputs.push(Input::message_data_predicate(
                        *m.sender(),
                        *m.recipient(),
                        m.amount(),
                        *m.nonce(),
                        0,
                        data,
                        Self::predicate_of(sp),
                        vec![],
                    ));
                }
            }
        }
    }

    /// add a contract input (+ its output) once
    fn add_contract(&mut self, id: ContractId) {
        if self.inputs.iter().any(|i| i.contract_id() == Some(&id)) {
            return;
        }
        let idx = self.inputs.len() as u16;
        self.inputs.push(Input::contract(
            UtxoId::new(Bytes32::zeroed(), 0),
            Bytes32::zeroed(),
            Bytes32::zeroed(),
            TxPointer::default(),
            id,
        ));
        self.outputs
            .push(Output::contract(idx, Bytes32::zeroed(), Bytes32::zeroed()));
    }
}

#[derive(Clone, Copy, PartialEq, Eq)]
enum FeeMode {
    /// exact maximum fee plus some slack
    Slack(u64),
    /// one less than required
    TooLow,
}

struct Finish {
    gas_price: u64,
    fee: FeeMode,
    bad_witness: bool,
    skip_estimate: bool,
}

fn finish<T>(sess: &ChainSession, mut tx: T, d: &Draft, f: &Finish) -> Transaction
where
    T: ExecutableTransaction + Cacheable + Signable + MaxFeeLimit,
{
    let params = &sess.params;
    // sign once so that the witnesses have their final size (the fee depends on the size)
    for s in &d.signers {
        tx.sign_inputs(s, &sess.chain_id);
    }
    if d.has_predicate && !f.skip_estimate {
        let _ = tx.estimate_predicates(
            &CheckPredicateParams::from(params),
            MemoryInstance::new(),
            &EmptyStorage,
        );
    }
    let max_fee = TransactionFee::checked_from_tx(params.gas_costs(), params.fee_params(), &tx, f.gas_price)
        .map(|fee| fee.max_fee())
        .unwrap_or(u64::MAX / 2);
    let limit = match f.fee {
        FeeMode::Slack(s) => max_fee.saturating_add(s),
        FeeMode::TooLow => max_fee.saturating_sub(1),
    };
    tx.set_max_fee_limit(limit);
    for s in &d.signers {
        tx.sign_inputs(s, &sess.chain_id);
    }
    if f.bad_witness {
        if let Some(i) = d.witness_of.values().next() {
            if let Some(w) = tx.witnesses_mut().get_mut(*i as usize) {
                let mut bytes = w.as_vec().clone();
                if bytes.is_empty() {
                    bytes = vec![0u8; 64];
                }
                bytes[5] ^= 0x40;
                *w = bytes.into();
            }
        }
    }
    let _ = tx.precompute(&sess.chain_id);
    tx.into()
}

fn script_data_base(params: &ConsensusParameters) -> impl Fn(usize) -> usize + '_ {
    move |script_len: usize| {
        params
            .tx_params()
            .tx_offset()
            .saturating_add(fuel_core_types::fuel_tx::Script::script_offset_static())
            .saturating_add(padded_len(&vec![0u8; script_len]).unwrap_or(usize::MAX))
    }
}

impl ChainSession {
    pub fn contract_kind(&self, id: &ContractId) -> Option<ContractKind> {
        self.contracts.iter().find(|c| &c.id == id).map(|c| c.kind)
    }

    fn contracts_of(&self, kinds: &[ContractKind]) -> Vec<&ContractInfo> {
        self.contracts
            .iter()
            .filter(|c| kinds.contains(&c.kind) && c.genesis)
            .collect()
    }

    fn random_owner(&self, rng: &mut StdRng) -> Address {
        if chance(rng, 85) {
            self.owners[rng.gen_range(0..self.owners.len())].address
        } else {
            Address::new(rng.r#gen())
        }
    }

    // ------------------------------------------------------------------ relayer events

    fn gen_da_events(&mut self, rng: &mut StdRng, opt: &GenOptions, da: u64, wallet: &mut Wallet) -> Vec<Event> {
        let mut out = Vec::new();
        let n = *pick(rng, &[0usize, 0, 1, 1, 2, 3]);
        for _ in 0..n {
            let c = self.next_counter();
            let mut nonce = [0u8; 32];
            nonce[0] = 0xDA;
            nonce[8..16].copy_from_slice(&da.to_be_bytes());
            nonce[24..].copy_from_slice(&c.to_be_bytes());
            let nonce = Nonce::new(nonce);
            let roll = if opt.forced_burners && chance(rng, 50) { 5 } else { rng.gen_range(0..10) };
            match roll {
                0..=3 => {
                    let data = if chance(rng, 50) {
                        vec![]
                    } else {
                        (0..rng.gen_range(1..20usize)).map(|_| rng.r#gen::<u8>()).collect()
                    };
                    let recipient = if chance(rng, 15) {
                        Input::predicate_owner(programs::predicate_true())
                    } else {
                        self.random_owner(rng)
                    };
                    out.push(Event::Message(Message::V1(MessageV1 {
                        sender: Address::new(rng.r#gen()),
                        recipient,
                        nonce,
                        amount: if chance(rng, 10) {
                            0
                        } else {
                            rng.gen_range(3_000_000_000u64..40_000_000_000)
                        },
                        data,
                        da_height: da.into(),
                    })));
                }
                4..=6 => {
                    // forced transaction spending a currently unspent coin at gas price 0
                    let base = self.base_asset();
                    let Some((utxo, coin)) = wallet.take_coin(self, rng, &base, 1, &[Spender::Signer, Spender::PredTrue])
                    else {
                        continue
                    };
                    // the wallet reservation is only for this event; later L2 txs may still conflict on purpose
                    if chance(rng, 50) {
                        wallet.used_coins.remove(&utxo);
                    }
                    let mut d = Draft::new(vec![]);
                    d.add_coin(self, utxo, &coin);
                    d.outputs.push(Output::coin(self.random_owner(rng), rng.gen_range(0..3), base));
                    d.outputs.push(Output::change(*coin.owner(), 0, base));
                    let burner = opt.forced_burners && chance(rng, 60);
                    let (f_script, f_data, f_gas) = if burner {
                        let cap = self.params.tx_params().max_gas_per_tx().min(self.params.block_gas_limit());
                        let share = *pick(rng, &[30u64, 50, 70]);
                        let gas = (cap / 100 * share).min(cap.saturating_sub(150_000));
                        let iters = if chance(rng, 70) { 262_143 } else { (gas / 6_500) as u32 };
                        let p = programs::assemble_script(
                            &[Step::Burn { iters }],
                            Terminal::Ret,
                            script_data_base(&self.params),
                            0,
                        );
                        (p.script, p.data, gas)
                    } else {
                        (vec![], vec![], rng.gen_range(0..3) * 10_000)
                    };
                    let tx = Transaction::script(
                        f_gas,
                        f_script,
                        f_data,
                        Policies::new().with_max_fee(0),
                        d.inputs.clone(),
                        d.outputs.clone(),
                        d.witnesses.clone(),
                    );
                    let tx = finish(
                        self,
                        tx,
                        &d,
                        &Finish {
                            gas_price: 0,
                            fee: FeeMode::Slack(0),
                            bad_witness: chance(rng, 10),
                            skip_estimate: false,
                        },
                    );
                    let actual = fuel_core_types::blockchain::transaction::TransactionExt::max_gas(&tx, &self.params)
                        .unwrap_or(0);
                    // boundary claims: one below, exactly, one above, generous
                    let claimed = match rng.gen_range(0..8) {
                        0 => actual.saturating_sub(1),
                        1..=3 => actual,
                        4 => actual + 1,
                        _ => actual + rng.gen_range(2..5_000),
                    };
                    out.push(Event::Transaction(RelayedTransaction::V1(RelayedTransactionV1 {
                        nonce,
                        max_gas: claimed,
                        serialized_transaction: tx.to_bytes(),
                        da_height: da.into(),
                    })));
                    if chance(rng, 12) {
                        // the same payload again under another nonce: id collision at execution
                        let mut n2 = *nonce;
                        n2[1] = 0xFF;
                        out.push(Event::Transaction(RelayedTransaction::V1(RelayedTransactionV1 {
                            nonce: Nonce::new(n2),
                            max_gas: actual + 10,
                            serialized_transaction: tx.to_bytes(),
                            da_height: da.into(),
                        })));
                    }
                }
                7 => {
                    let bytes: Vec<u8> = (0..rng.gen_range(0..40usize)).map(|_| rng.r#gen::<u8>()).collect();
                    out.push(Event::Transaction(RelayedTransaction::V1(RelayedTransactionV1 {
                        nonce,
                        max_gas: rng.gen_range(0..100_000),
                        serialized_transaction: bytes,
                        da_height: da.into(),
                    })));
                }
                8 => {
                    // a Mint payload must be refused
                    let mint = Transaction::mint(
                        TxPointer::new((self.height + 1).into(), 0),
                        Default::default(),
                        Default::default(),
                        0,
                        self.base_asset(),
                        0,
                    );
                    out.push(Event::Transaction(RelayedTransaction::V1(RelayedTransactionV1 {
                        nonce,
                        max_gas: 1_000,
                        serialized_transaction: Transaction::from(mint).to_bytes(),
                        da_height: da.into(),
                    })));
                }
                _ => {
                    // forced tx spending a coin that does not exist
                    let owner = self.owners[0].clone();
                    let mut d = Draft::new(vec![]);
                    let fake: CompressedCoin = fuel_core_types::entities::coins::coin::CompressedCoinV1 {
                        owner: owner.address,
                        amount: 1_000,
                        asset_id: self.base_asset(),
                        tx_pointer: Default::default(),
                    }
                    .into();
                    d.add_coin(self, UtxoId::new(Bytes32::new(rng.r#gen()), 0), &fake);
                    let tx = Transaction::script(
                        0,
                        vec![],
                        vec![],
                        Policies::new().with_max_fee(0),
                        d.inputs.clone(),
                        d.outputs.clone(),
                        d.witnesses.clone(),
                    );
                    let tx = finish(
                        self,
                        tx,
                        &d,
                        &Finish {
                            gas_price: 0,
                            fee: FeeMode::Slack(0),
                            bad_witness: false,
                            skip_estimate: false,
                        },
                    );
                    let actual = fuel_core_types::blockchain::transaction::TransactionExt::max_gas(&tx, &self.params)
                        .unwrap_or(0);
                    out.push(Event::Transaction(RelayedTransaction::V1(RelayedTransactionV1 {
                        nonce,
                        max_gas: actual + 100,
                        serialized_transaction: tx.to_bytes(),
                        da_height: da.into(),
                    })));
                }
            }
        }
        out
    }

    // ------------------------------------------------------------------ block plan

    /// Generate the next block: extends the relayer history as needed, picks
    /// the DA height (never letting the claimed cost of the newly covered
    /// forced transactions exceed the block gas limit, which is the block
    /// producer's side of the contract), gas price, coinbase recipient and the
    /// transaction list.
    pub fn gen_block_plan(&mut self, rng: &mut StdRng, opt: &GenOptions) -> BlockPlan {
        self.refresh_params();
        let height = self.height + 1;
        let mut wallet = Wallet::snapshot(self);

        // ---- DA height
        let want_adv = if opt.max_da_advance == 0 {
            0
        } else if opt.forced_burners {
            *pick(rng, &[0u64, 1, 1, 2, 2, 3, 4, 5]).min(&opt.max_da_advance)
        } else {
            *pick(rng, &[0u64, 0, 1, 1, 2, 3, 4, 5]).min(&opt.max_da_advance)
        };
        let lookahead = rng.gen_range(0..=2u64);
        while self.relayer_tip < self.da_height + want_adv + lookahead {
            let da = self.relayer_tip + 1;
            let events = if opt.relayer_events {
                self.gen_da_events(rng, opt, da, &mut wallet)
            } else {
                vec![]
            };
            self.push_da_height(events);
        }
        let mut da_height = self.da_height;
        let mut cost = 0u64;
        for h in (self.da_height + 1)..=(self.da_height + want_adv) {
            let c: u64 = self.relayer_events(h).iter().map(|e| e.cost()).fold(0u64, |a, b| a.saturating_add(b));
            if cost.saturating_add(c) > self.params.block_gas_limit() {
                break;
            }
            cost = cost.saturating_add(c);
            da_height = h;
        }

        // ---- price and coinbase
        let gas_price = *pick(rng, &[0u64, 1, 1, 2, 700]);
        let coinbase_recipient = if chance(rng, 35) {
            ContractId::zeroed()
        } else {
            let c = self.contracts_of(&[ContractKind::Store, ContractKind::Minter, ContractKind::Multi]);
            pick(rng, &c).id
        };

        let mut plan = BlockPlan {
            height,
            da_height,
            params_version: self.params_version,
            gas_price,
            coinbase_recipient,
            txs: vec![],
        };

        // ---- transactions
        let lo = *opt.txs.start();
        let hi = (*opt.txs.end()).min(self.cfg.max_txs_per_block).max(lo);
        let n = rng.gen_range(lo..=hi);
        if opt.force_upgrade && !opt.plain_only {
            if let Some(p) = self.gen_upgrade(rng, &plan, &mut wallet, true) {
                plan.txs.push(p);
            }
        }
        let mut k = 0;
        while plan.txs.len() < n && k < n * 3 {
            k += 1;
            let planned = self.gen_tx(rng, opt, &plan, &mut wallet);
            for p in planned {
                plan.txs.push(p);
            }
        }
        if opt.burners_permille >= 500 && chance(rng, 60) {
            // gas burners first: they meet whatever gas budget the executor computed before the first L2 tx
            plan.txs.sort_by_key(|p| {
                !p.script
                    .as_ref()
                    .map(|s| s.steps.iter().any(|st| matches!(st, Step::Burn { .. })))
                    .unwrap_or(false)
            });
        } else if chance(rng, 30) && !opt.plain_only && !opt.force_upgrade {
            plan.txs.shuffle(rng);
        }
        plan
    }

    fn gen_tx(
        &mut self,
        rng: &mut StdRng,
        opt: &GenOptions,
        plan: &BlockPlan,
        w: &mut Wallet,
    ) -> Vec<PlannedTx> {
        if opt.plain_only {
            return self.gen_transfer(rng, plan, w, Twist::None, true).into_iter().collect();
        }
        let twist = if rng.gen_range(0..1000) < opt.twist_permille {
            *pick(
                rng,
                &[
                    Twist::DuplicateInBlock,
                    Twist::DoubleSpend,
                    Twist::MissingCoin,
                    Twist::MismatchCoin,
                    Twist::MismatchCoin,
                    Twist::MismatchMessage,
                    Twist::MismatchMessage,
                    Twist::Expired,
                    Twist::Immature,
                    Twist::GasHog,
                    Twist::BadWitness,
                    Twist::Oversized,
                    Twist::LowMaxFee,
                    Twist::FalsePredicate,
                    Twist::BadPredicateGas,
                    Twist::UnknownContract,
                    Twist::ContractNotInInputs,
                    Twist::NoChange,
                ],
            )
        } else {
            Twist::None
        };
        if rng.gen_range(0..1000) < opt.burners_permille {
            return self.gen_burner(rng, plan, w).into_iter().collect();
        }
        let resub = if opt.resubmit_heavy { 22 } else { 7 };
        let roll = rng.gen_range(0..100);
        let mut out: Vec<PlannedTx> = Vec::new();
        if roll < resub && !(self.included_txs.is_empty() && self.skipped_txs.is_empty()) {
            let from_included = !self.included_txs.is_empty() && (self.skipped_txs.is_empty() || chance(rng, 65));
            let tx = if from_included {
                // favour recent blocks but reach back as well
                let n = self.included_txs.len();
                let i = if chance(rng, 50) { n - 1 - rng.gen_range(0..n.min(4)) } else { rng.gen_range(0..n) };
                self.included_txs[i].clone()
            } else {
                pick(rng, &self.skipped_txs).clone()
            };
            let id = tx.id(&self.chain_id);
            out.push(PlannedTx {
                tx,
                id,
                kind: TxKind::Resubmit {
                    was_included: from_included,
                },
                twist: Twist::None,
                checked: CheckedMode::Raw,
                script: None,
                creates: None,
                uses_message: false,
                uses_predicate: false,
            });
        } else if roll < resub + 10 && !opt.revert_heavy {
            out.extend(self.gen_create(rng, plan, w, twist));
        } else if roll < resub + 15 && !opt.revert_heavy {
            out.extend(self.gen_blob(rng, plan, w));
        } else if roll < resub + 18 && !opt.revert_heavy {
            out.extend(self.gen_upload(rng, plan, w));
        } else if roll < resub + 20 && opt.upgrades && !opt.revert_heavy {
            out.extend(self.gen_upgrade(rng, plan, w, false));
        } else if roll < resub + 42 && !opt.revert_heavy {
            out.extend(self.gen_transfer(rng, plan, w, twist, false));
        } else {
            out.extend(self.gen_script(rng, opt, plan, w, twist));
        }
        // twists that need a second transaction
        if let Some(first) = out.first().cloned() {
            match first.twist {
                Twist::DuplicateInBlock => {
                    out.push(first);
                }
                Twist::DoubleSpend => {
                    // another transaction spending the same first coin input
                    if let Some(second) = self.gen_double_spend(rng, plan, &first) {
                        out.push(second);
                    }
                }
                _ => {}
            }
        }
        // hand some valid-looking transactions over as already checked
        for p in out.iter_mut() {
            if p.checked == CheckedMode::Raw && !matches!(p.kind, TxKind::SourceMint) {
                let r = rng.gen_range(0..100);
                let input_twist = matches!(
                    p.twist,
                    Twist::MissingCoin | Twist::MismatchCoin | Twist::MismatchMessage | Twist::DoubleSpend | Twist::DuplicateInBlock
                );
                if (input_twist && r < 65) || (p.uses_message && r < 45) || r < 12 {
                    // what the pool hands over: signatures and predicates already verified
                    p.checked = CheckedMode::FullyChecked;
                } else if p.twist == Twist::Expired && r < 60 {
                    // valid when it was checked a block ago, expired now
                    p.checked = CheckedMode::CheckedEarlier;
                } else if self.prev_params.is_some() && r < 30 {
                    p.checked = CheckedMode::CheckedOld;
                } else if r < 48 {
                    p.checked = CheckedMode::Checked;
                } else if r < 54 {
                    p.checked = CheckedMode::CheckedOtherVersion;
                } else if r < 58 {
                    p.checked = CheckedMode::CheckedEarlier;
                }
            }
        }
        out
    }

    fn policies(&self, rng: &mut StdRng, plan: &BlockPlan, twist: Twist) -> Policies {
        let mut p = Policies::new().with_max_fee(0);
        match twist {
            Twist::Expired => {
                p = p.with_expiration(BlockHeight::from(plan.height.saturating_sub(1)));
            }
            Twist::Immature => {
                p = p.with_maturity(BlockHeight::from(plan.height + rng.gen_range(1..4)));
            }
            _ => {
                if chance(rng, 15) {
                    p = p.with_expiration(BlockHeight::from(plan.height + rng.gen_range(0..3)));
                }
                if chance(rng, 10) {
                    p = p.with_maturity(BlockHeight::from(plan.height.saturating_sub(rng.gen_range(0..2))));
                }
            }
        }
        if chance(rng, 20) {
            p = p.with_tip(rng.gen_range(0..50));
        }
        if chance(rng, 10) {
            p = p.with_witness_limit(rng.gen_range(300..600));
        }
        p
    }

    /// pick the fee-paying input(s); returns false if nothing suitable is left
    fn fund(
        &self,
        rng: &mut StdRng,
        plan: &BlockPlan,
        w: &mut Wallet,
        d: &mut Draft,
        twist: Twist,
        allow_message: bool,
    ) -> bool {
        let base = self.base_asset();
        let min = self.params.tx_params().max_gas_per_tx().saturating_add(100_000).saturating_mul(plan.gas_price.max(1));
        let mut funded = false;
        match twist {
            Twist::FalsePredicate => {
                if let Some((u, c)) = w.take_coin(self, rng, &base, 1, &[Spender::PredFalse]) {
                    // the false predicate's coin stays unspent, allow reuse
                    w.used_coins.remove(&u);
                    d.add_coin(self, u, &c);
                    funded = true;
                }
            }
            Twist::BadPredicateGas => {
                if let Some((u, c)) = w.take_coin(self, rng, &base, min, &[Spender::PredHungry]) {
                    w.used_coins.remove(&u);
                    d.add_coin(self, u, &c);
                    funded = true;
                }
            }
            _ => {}
        }
        if !funded && twist == Twist::MismatchMessage {
            if let Some(m) = w.take_msg(self, rng, None) {
                // the message stays unspent: the input claims other values than storage holds
                w.used_msgs.remove(m.nonce());
                let mut m2 = m.clone();
                match rng.gen_range(0..5) {
                    0 => m2.set_amount(m.amount() + 1),
                    1 => m2.set_amount(m.amount().saturating_mul(10).max(7)),
                    2 => m2.set_sender(Address::new(rng.r#gen())),
                    3 => {
                        let mut d2 = m.data().clone();
                        if d2.is_empty() {
                            d2.push(1);
                        } else {
                            d2[0] ^= 1;
                        }
                        m2.set_data(d2)
                    }
                    _ => {
                        let other = self
                            .owners
                            .iter()
                            .map(|o| o.address)
                            .find(|a| a != m.recipient())
                            .unwrap_or(*m.recipient());
                        m2.set_recipient(other)
                    }
                }
                d.add_message(self, &m2);
                funded = m2.amount() >= min && m2.data().is_empty();
            }
        }
        if !funded && allow_message && chance(rng, 22) {
            if let Some(m) = w.take_msg(self, rng, None) {
                d.add_message(self, &m);
                // retryable (data) messages cannot pay fees on their own
                funded = m.amount() >= min && m.data().is_empty() && chance(rng, 90);
            }
        }
        if !funded {
            let kinds: &[Spender] = if chance(rng, 25) {
                &[Spender::PredTrue, Spender::PredHungry, Spender::Signer]
            } else {
                &[Spender::Signer]
            };
            let pref = if chance(rng, 25) { kinds } else { &kinds[..1] };
            let got = w
                .take_coin(self, rng, &base, min, pref)
                .or_else(|| w.take_coin(self, rng, &base, min, kinds))
                .or_else(|| w.take_coin(self, rng, &base, 1, &[Spender::Signer, Spender::PredTrue]));
            match got {
                Some((u, c)) => {
                    match twist {
                        Twist::MissingCoin => {
                            w.used_coins.remove(&u);
                            d.add_coin(self, UtxoId::new(Bytes32::new(rng.r#gen()), rng.gen_range(0..3)), &c);
                        }
                        Twist::MismatchCoin => {
                            w.used_coins.remove(&u);
                            let mut c2 = c.clone();
                            match rng.gen_range(0..6) {
                                0 => c2.set_amount(c.amount() + 1),
                                1 => c2.set_amount(c.amount().saturating_mul(10)),
                                2 => c2.set_amount(c.amount() - 1),
                                3 => {
                                    // claimed (and signed) by another known owner
                                    let other = self
                                        .owners
                                        .iter()
                                        .map(|o| o.address)
                                        .find(|a| a != c.owner())
                                        .unwrap_or(*c.owner());
                                    c2.set_owner(other)
                                }
                                4 => c2.set_asset_id(self.assets[1]),
                                _ => c2.set_tx_pointer(TxPointer::new(9u32.into(), 9)),
                            }
                            d.add_coin(self, u, &c2);
                        }
                        _ => d.add_coin(self, u, &c),
                    }
                    funded = true;
                }
                None => {}
            }
        }
        funded
    }

    fn wrap(
        &self,
        tx: Transaction,
        kind: TxKind,
        twist: Twist,
        d: &Draft,
        script: Option<ScriptInfo>,
        creates: Option<ContractInfo>,
    ) -> PlannedTx {
        let id = tx.id(&self.chain_id);
        PlannedTx {
            tx,
            id,
            kind,
            twist,
            checked: CheckedMode::Raw,
            script,
            creates,
            uses_message: d.has_message,
            uses_predicate: d.has_predicate,
        }
    }

    fn finish_opts(&self, rng: &mut StdRng, plan: &BlockPlan, twist: Twist) -> Finish {
        Finish {
            gas_price: plan.gas_price,
            fee: if twist == Twist::LowMaxFee {
                FeeMode::TooLow
            } else {
                FeeMode::Slack(*pick(rng, &[0u64, 0, 1, 977, 50_000]))
            },
            bad_witness: twist == Twist::BadWitness,
            skip_estimate: twist == Twist::BadPredicateGas,
        }
    }

    fn add_changes(&self, rng: &mut StdRng, d: &mut Draft, twist: Twist) {
        let mut assets: Vec<AssetId> = Vec::new();
        for i in &d.inputs {
            let a = match i {
                Input::CoinSigned(c) => Some(c.asset_id),
                Input::CoinPredicate(c) => Some(c.asset_id),
                Input::MessageCoinSigned(_)
                | Input::MessageCoinPredicate(_)
                | Input::MessageDataSigned(_)
                | Input::MessageDataPredicate(_) => Some(self.base_asset()),
                _ => None,
            };
            if let Some(a) = a {
                if !assets.contains(&a) {
                    assets.push(a);
                }
            }
        }
        for a in assets {
            if twist == Twist::NoChange && a == self.base_asset() {
                continue;
            }
            if a != self.base_asset() && chance(rng, 15) {
                continue;
            }
            let to = self.owners[rng.gen_range(0..self.owners.len())].address;
            d.outputs.push(Output::change(to, 0, a));
        }
    }

    fn gen_transfer(
        &mut self,
        rng: &mut StdRng,
        plan: &BlockPlan,
        w: &mut Wallet,
        twist: Twist,
        plain: bool,
    ) -> Option<PlannedTx> {
        let mut d = Draft::new(vec![]);
        if !self.fund(rng, plan, w, &mut d, twist, !plain) {
            return None;
        }
        let base = self.base_asset();
        if !plain && chance(rng, 35) {
            let a = self.assets[rng.gen_range(1..self.assets.len())];
            if let Some((u, c)) = w.take_coin(self, rng, &a, 1, &[Spender::Signer, Spender::PredTrue]) {
                d.add_coin(self, u, &c);
                let amt = if chance(rng, 20) { 0 } else { rng.gen_range(0..=(*c.amount()).min(900)) };
                d.outputs.push(Output::coin(self.random_owner(rng), amt, a));
            }
        }
        if !plain && chance(rng, 18) {
            if let Some(m) = w.take_msg(self, rng, None) {
                d.add_message(self, &m);
            }
        }
        let n_out = if plain { 1 } else { rng.gen_range(0..3) };
        for _ in 0..n_out {
            let amt = if chance(rng, 20) { 0 } else { rng.gen_range(1..5_000) };
            d.outputs.push(Output::coin(self.random_owner(rng), amt, base));
        }
        if !plain && chance(rng, 15) {
            d.outputs.push(Output::variable(Address::zeroed(), 0, AssetId::zeroed()));
        }
        self.add_changes(rng, &mut d, twist);
        let filler = if twist == Twist::Oversized {
            self.cfg.tx_max_size as usize + 64
        } else {
            0
        };
        let (script, data, gas_limit): (Vec<u8>, Vec<u8>, u64) = if plain || chance(rng, 50) {
            (vec![], vec![0xEE; filler], 0)
        } else {
            let p = programs::assemble_script(&[], Terminal::Ret, script_data_base(&self.params), filler);
            (p.script, p.data, *pick(rng, &[0u64, 5_000, 50_000]))
        };
        let gas_limit = if twist == Twist::GasHog {
            self.params.tx_params().max_gas_per_tx().saturating_sub(60_000)
        } else {
            gas_limit
        };
        let tx = Transaction::script(
            gas_limit,
            script,
            data,
            self.policies(rng, plan, twist),
            d.inputs.clone(),
            d.outputs.clone(),
            d.witnesses.clone(),
        );
        let f = self.finish_opts(rng, plan, twist);
        let tx = finish(self, tx, &d, &f);
        Some(self.wrap(tx, TxKind::Transfer, twist, &d, None, None))
    }

    fn gen_steps(&self, rng: &mut StdRng, opt: &GenOptions, twist: Twist, n_var: u16) -> (Vec<Step>, Terminal) {
        let base = self.base_asset();
        let n = if opt.revert_heavy { rng.gen_range(1..=4) } else { rng.gen_range(0..=4) };
        let mut steps = Vec::new();
        for _ in 0..n {
            let r = rng.gen_range(0..100);
            let slot = rng.gen_range(0..4u64);
            let val = rng.gen_range(0..5u64);
            let step = if r < 30 {
                let c = self.contracts_of(&[ContractKind::Store]);
                Step::Call {
                    contract: pick(rng, &c).id,
                    kind: ContractKind::Store,
                    a: slot,
                    b: CallArg::Value(val),
                    fwd: if chance(rng, 25) { rng.gen_range(1..50) } else { 0 },
                    asset: base,
                }
            } else if r < 38 {
                let c = self.contracts_of(&[ContractKind::Multi]);
                Step::Call {
                    contract: pick(rng, &c).id,
                    kind: ContractKind::Multi,
                    a: slot,
                    b: CallArg::Value(val + 1),
                    fwd: 0,
                    asset: base,
                }
            } else if r < 45 {
                let c = self.contracts_of(&[ContractKind::Minter]);
                Step::Call {
                    contract: pick(rng, &c).id,
                    kind: ContractKind::Minter,
                    a: 0,
                    b: CallArg::Value(rng.gen_range(0..100)),
                    fwd: 0,
                    asset: base,
                }
            } else if r < 51 {
                let c = self.contracts_of(&[ContractKind::Burner]);
                Step::Call {
                    contract: pick(rng, &c).id,
                    kind: ContractKind::Burner,
                    a: 0,
                    b: CallArg::Value(rng.gen_range(0..3)),
                    fwd: 0,
                    asset: base,
                }
            } else if r < 58 && n_var > 0 {
                let c = self.contracts_of(&[ContractKind::Payout]);
                let amount = rng.gen_range(0..40u64);
                Step::Call {
                    contract: pick(rng, &c).id,
                    kind: ContractKind::Payout,
                    a: 0,
                    b: CallArg::PayoutData {
                        asset: base,
                        to: self.random_owner(rng),
                        out_idx: 0, // patched by the caller to a variable output index
                        amount,
                    },
                    fwd: amount as u32 + rng.gen_range(0..3),
                    asset: base,
                }
            } else if r < 65 {
                let c = self.contracts_of(&[ContractKind::Messenger]);
                let amount = rng.gen_range(0..30u64);
                Step::Call {
                    contract: pick(rng, &c).id,
                    kind: ContractKind::Messenger,
                    a: amount,
                    b: CallArg::Recipient(Address::new(rng.r#gen())),
                    fwd: amount as u32,
                    asset: base,
                }
            } else if r < 71 {
                let c = self.contracts_of(&[ContractKind::Forwarder]);
                let t = self.contracts_of(&[ContractKind::Store, ContractKind::StoreRevert]);
                Step::Call {
                    contract: pick(rng, &c).id,
                    kind: ContractKind::Forwarder,
                    a: slot,
                    b: CallArg::Nested {
                        contract: pick(rng, &t).id,
                        a: slot,
                        b: val,
                    },
                    fwd: 0,
                    asset: base,
                }
            } else if r < 76 {
                let c = self.contracts_of(&[ContractKind::Transferer]);
                let t = self.contracts_of(&[ContractKind::Store, ContractKind::Minter]);
                Step::Call {
                    contract: pick(rng, &c).id,
                    kind: ContractKind::Transferer,
                    a: rng.gen_range(0..20),
                    b: CallArg::TransferData {
                        contract: pick(rng, &t).id,
                        asset: base,
                    },
                    fwd: 0,
                    asset: base,
                }
            } else if r < 81 {
                let c = self.contracts_of(&[ContractKind::StoreRevert]);
                Step::Call {
                    contract: pick(rng, &c).id,
                    kind: ContractKind::StoreRevert,
                    a: slot,
                    b: CallArg::Value(val),
                    fwd: 0,
                    asset: base,
                }
            } else if r < 85 {
                let c = self.contracts_of(&[ContractKind::StorePanic]);
                Step::Call {
                    contract: pick(rng, &c).id,
                    kind: ContractKind::StorePanic,
                    a: slot,
                    b: CallArg::Value(val),
                    fwd: 0,
                    asset: base,
                }
            } else if r < 90 {
                let c = self.contracts_of(&[ContractKind::Store, ContractKind::Minter, ContractKind::Multi]);
                Step::Tr {
                    contract: pick(rng, &c).id,
                    amount: rng.gen_range(0..60),
                    asset: base,
                }
            } else if r < 94 && n_var > 0 {
                Step::Tro {
                    to: self.random_owner(rng),
                    out_idx: 0,
                    amount: rng.gen_range(0..60),
                    asset: base,
                }
            } else if r < 98 {
                Step::Smo {
                    recipient: Address::new(rng.r#gen()),
                    amount: rng.gen_range(0..60),
                    data_len: rng.gen_range(0..32),
                }
            } else {
                Step::Log
            };
            steps.push(step);
        }
        let terminal = if twist == Twist::ContractNotInInputs {
            Terminal::Ret
        } else {
            let fail = if opt.revert_heavy { 65 } else { 30 };
            if chance(rng, fail) {
                *pick(rng, &[Terminal::Rvrt, Terminal::Rvrt, Terminal::PanicContext, Terminal::PanicMemory])
            } else {
                Terminal::Ret
            }
        };
        (steps, terminal)
    }

    fn gen_script(
        &mut self,
        rng: &mut StdRng,
        opt: &GenOptions,
        plan: &BlockPlan,
        w: &mut Wallet,
        twist: Twist,
    ) -> Option<PlannedTx> {
        let mut d = Draft::new(vec![]);
        if !self.fund(rng, plan, w, &mut d, twist, true) {
            return None;
        }
        // data messages make the "retryable message stays on revert" case
        if chance(rng, if opt.revert_heavy { 35 } else { 12 }) {
            if let Some(m) = w.take_msg(self, rng, Some(true)) {
                d.add_message(self, &m);
            }
        }
        if chance(rng, 12) {
            if let Some(m) = w.take_msg(self, rng, Some(false)) {
                d.add_message(self, &m);
            }
        }
        let n_var: u16 = rng.gen_range(0..=2);
        let (mut steps, terminal) = self.gen_steps(rng, opt, twist, n_var);

        // contracts
        let mut needed: Vec<ContractId> = Vec::new();
        for s in &steps {
            for c in s.contracts() {
                if !needed.contains(&c) {
                    needed.push(c);
                }
            }
        }
        if twist == Twist::ContractNotInInputs && !needed.is_empty() {
            let i = rng.gen_range(0..needed.len());
            needed.remove(i);
        }
        for c in &needed {
            d.add_contract(*c);
        }
        if twist == Twist::UnknownContract {
            d.add_contract(ContractId::new(rng.r#gen()));
        }
        // coin outputs, then variable outputs (remember their indices), then change
        if chance(rng, 40) {
            let amt = if chance(rng, 25) { 0 } else { rng.gen_range(1..3_000) };
            d.outputs.push(Output::coin(self.random_owner(rng), amt, self.base_asset()));
        }
        let mut var_idx: Vec<u16> = Vec::new();
        for _ in 0..n_var {
            var_idx.push(d.outputs.len() as u16);
            d.outputs.push(Output::variable(Address::zeroed(), 0, AssetId::zeroed()));
        }
        self.add_changes(rng, &mut d, twist);
        for s in steps.iter_mut() {
            match s {
                Step::Tro { out_idx, .. } => {
                    *out_idx = *pick(rng, &var_idx);
                }
                Step::Call {
                    b: CallArg::PayoutData { out_idx, .. },
                    ..
                } => {
                    *out_idx = *pick(rng, &var_idx) as u64;
                }
                _ => {}
            }
        }
        let filler = if twist == Twist::Oversized {
            self.cfg.tx_max_size as usize + 64
        } else {
            0
        };
        let prog = programs::assemble_script(&steps, terminal, script_data_base(&self.params), filler);
        let gas_limit = if twist == Twist::GasHog {
            self.params.tx_params().max_gas_per_tx().saturating_sub(60_000)
        } else {
            *pick(rng, &[12_000u64, 120_000, 300_000, 300_000, 700_000])
        };
        let tx = Transaction::script(
            gas_limit,
            prog.script,
            prog.data,
            self.policies(rng, plan, twist),
            d.inputs.clone(),
            d.outputs.clone(),
            d.witnesses.clone(),
        );
        let f = self.finish_opts(rng, plan, twist);
        let tx = finish(self, tx, &d, &f);
        let info = ScriptInfo {
            steps,
            terminal,
            gas_limit,
        };
        Some(self.wrap(tx, TxKind::Script, twist, &d, Some(info), None))
    }

    fn gen_double_spend(&mut self, rng: &mut StdRng, plan: &BlockPlan, first: &PlannedTx) -> Option<PlannedTx> {
        use fuel_core_types::blockchain::transaction::TransactionExt;
        let inputs = first.tx.inputs();
        let coin = inputs.iter().find_map(|i| match i {
            Input::CoinSigned(c) => Some(c.clone()),
            _ => None,
        })?;
        let mut d = Draft::new(vec![]);
        let cc: CompressedCoin = fuel_core_types::entities::coins::coin::CompressedCoinV1 {
            owner: coin.owner,
            amount: coin.amount,
            asset_id: coin.asset_id,
            tx_pointer: coin.tx_pointer,
        }
        .into();
        d.add_coin(self, coin.utxo_id, &cc);
        d.outputs.push(Output::coin(self.random_owner(rng), 7, coin.asset_id));
        d.outputs.push(Output::change(coin.owner, 0, coin.asset_id));
        let tx = Transaction::script(
            0,
            vec![],
            vec![],
            Policies::new().with_max_fee(0),
            d.inputs.clone(),
            d.outputs.clone(),
            d.witnesses.clone(),
        );
        let f = self.finish_opts(rng, plan, Twist::None);
        let tx = finish(self, tx, &d, &f);
        Some(self.wrap(tx, TxKind::Transfer, Twist::DoubleSpend, &d, None, None))
    }

    fn gen_create(&mut self, rng: &mut StdRng, plan: &BlockPlan, w: &mut Wallet, twist: Twist) -> Option<PlannedTx> {
        let colliding = chance(rng, 30);
        let (kind, salt, slots): (ContractKind, Salt, Vec<StorageSlot>) = if colliding {
            // exactly an existing deployment: same code, salt and slots as a Create made by this session,
            // or (for genesis contracts, whose id is derived the same way) the genesis one
            let c = pick(rng, &self.contracts).clone();
            let slots = self
                .genesis
                .contract_state
                .iter()
                .filter(|(id, _, _)| *id == c.id && c.genesis)
                .map(|(_, k, v)| {
                    let mut b = [0u8; 32];
                    b.copy_from_slice(&v[..32]);
                    StorageSlot::new(*k, Bytes32::new(b))
                })
                .collect();
            (c.kind, c.salt, slots)
        } else {
            let c = self.next_counter();
            let mut s = [0u8; 32];
            s[0] = 0xCE;
            s[24..].copy_from_slice(&c.to_be_bytes());
            let slots = (0..rng.gen_range(0..3u64))
                .map(|i| {
                    let mut k = [0u8; 32];
                    k[..8].copy_from_slice(&i.to_be_bytes());
                    StorageSlot::new(Bytes32::new(k), Bytes32::new(rng.r#gen()))
                })
                .collect();
            (*pick(rng, &programs::ALL_KINDS), Salt::new(s), slots)
        };
        let code = programs::contract_code(kind);
        let mut d = Draft::new(vec![code.clone().into()]);
        if !self.fund(rng, plan, w, &mut d, twist, false) {
            return None;
        }
        let contract = Contract::from(code.clone());
        let root = contract.root();
        let state_root = Contract::initial_state_root(slots.iter());
        let id = Contract::id(&salt, &root, &state_root);
        self.add_changes(rng, &mut d, twist);
        d.outputs.push(Output::contract_created(id, state_root));
        let tx = Transaction::create(
            0,
            self.policies(rng, plan, twist),
            salt,
            slots,
            d.inputs.clone(),
            d.outputs.clone(),
            d.witnesses.clone(),
        );
        let f = self.finish_opts(rng, plan, twist);
        let tx = finish(self, tx, &d, &f);
        let info = ContractInfo {
            id,
            kind,
            salt,
            code,
            genesis: false,
        };
        let twist = if colliding { Twist::CollidingCreate } else { twist };
        Some(self.wrap(tx, TxKind::Create, twist, &d, None, Some(info)))
    }

    fn gen_blob(&mut self, rng: &mut StdRng, plan: &BlockPlan, w: &mut Wallet) -> Option<PlannedTx> {
        // small alphabet of blobs so that ids collide across blocks
        let which = rng.gen_range(0..6u8);
        let bytes: Vec<u8> = (0..(20 + which as usize * 9)).map(|i| which ^ (i as u8)).collect();
        let mut d = Draft::new(vec![bytes.clone().into()]);
        if !self.fund(rng, plan, w, &mut d, Twist::None, false) {
            return None;
        }
        self.add_changes(rng, &mut d, Twist::None);
        let tx = Transaction::blob(
            BlobBody {
                id: BlobId::compute(&bytes),
                witness_index: 0,
            },
            self.policies(rng, plan, Twist::None),
            d.inputs.clone(),
            d.outputs.clone(),
            d.witnesses.clone(),
        );
        let f = self.finish_opts(rng, plan, Twist::None);
        let tx = finish(self, tx, &d, &f);
        Some(self.wrap(tx, TxKind::Blob, Twist::None, &d, None, None))
    }

    fn gen_upload(&mut self, rng: &mut StdRng, plan: &BlockPlan, w: &mut Wallet) -> Option<PlannedTx> {
        // one of two bytecodes, split in 2-3 parts; parts are drawn at random so
        // that out-of-order and repeated parts occur
        let which = rng.gen_range(0..2u8);
        let bytecode: Vec<u8> = (0..300usize).map(|i| (i as u8).wrapping_mul(3) ^ which).collect();
        let parts = UploadSubsection::split_bytecode(&bytecode, if which == 0 { 128 } else { 160 }).ok()?;
        let next_expected = {
            use fuel_core_storage::{
                StorageAsRef,
                tables::UploadedBytecodes,
            };
            use fuel_core_types::fuel_vm::UploadedBytecode;
            match self.on_chain.storage::<UploadedBytecodes>().get(&parts[0].root) {
                Ok(Some(b)) => match b.as_ref() {
                    UploadedBytecode::Uncompleted {
                        uploaded_subsections_number,
                        ..
                    } => (*uploaded_subsections_number as usize).min(parts.len() - 1),
                    UploadedBytecode::Completed(_) => rng.gen_range(0..parts.len()),
                },
                _ => 0,
            }
        };
        let idx = if chance(rng, 70) { next_expected } else { rng.gen_range(0..parts.len()) };
        let part = parts[idx].clone();
        let mut d = Draft::new(vec![]);
        if !self.fund(rng, plan, w, &mut d, Twist::None, false) {
            return None;
        }
        self.add_changes(rng, &mut d, Twist::None);
        let tx = Transaction::upload_from_subsection(
            part,
            self.policies(rng, plan, Twist::None),
            d.inputs.clone(),
            d.outputs.clone(),
            d.witnesses.clone(),
        );
        let f = self.finish_opts(rng, plan, Twist::None);
        let tx = finish(self, tx, &d, &f);
        Some(self.wrap(tx, TxKind::Upload, Twist::None, &d, None, None))
    }

    /// Consensus parameters for the next upgrade: toggles one rule between its
    /// genesis value and a much tighter one (so that transactions valid under
    /// the previous version can violate the next and vice versa).
    fn next_params(&self, rng: &mut StdRng) -> (ConsensusParameters, &'static str) {
        let init = &self.initial_params;
        let cur = &self.params;
        let mut p = cur.clone();
        let what = match rng.gen_range(0..8) {
            0 => {
                let tight = 120;
                let v = if cur.script_params().max_script_data_length() == init.script_params().max_script_data_length() {
                    tight
                } else {
                    init.script_params().max_script_data_length()
                };
                p.set_script_params(cur.script_params().with_max_script_data_length(v));
                "max_script_data_length"
            }
            1 => {
                let tight = 44;
                let v = if cur.script_params().max_script_length() == init.script_params().max_script_length() {
                    tight
                } else {
                    init.script_params().max_script_length()
                };
                p.set_script_params(cur.script_params().with_max_script_length(v));
                "max_script_length"
            }
            2 => {
                let i = init.tx_params().max_gas_per_tx();
                let v = if cur.tx_params().max_gas_per_tx() == i { i / 100 * 45 } else { i };
                p.set_tx_params(cur.tx_params().with_max_gas_per_tx(v));
                "max_gas_per_tx"
            }
            3 => {
                let i = init.tx_params().max_outputs();
                let v = if cur.tx_params().max_outputs() == i { 4 } else { i };
                p.set_tx_params(cur.tx_params().with_max_outputs(v));
                "max_outputs"
            }
            4 => {
                let i = init.tx_params().max_witnesses();
                // not below 2: an Upgrade itself needs a signature and the parameters witness
                let v = if cur.tx_params().max_witnesses() == i { 2 } else { i };
                p.set_tx_params(cur.tx_params().with_max_witnesses(v));
                "max_witnesses"
            }
            5 => {
                // (max_size is left alone: an Upgrade transaction is large and must stay possible)
                let i = init.tx_params().max_inputs();
                let v = if cur.tx_params().max_inputs() == i { 3 } else { i };
                p.set_tx_params(cur.tx_params().with_max_inputs(v));
                "max_inputs"
            }
            6 => {
                let i = init.predicate_params().max_predicate_length();
                let v = if cur.predicate_params().max_predicate_length() == i { 8 } else { i };
                p.set_predicate_params(cur.predicate_params().with_max_predicate_length(v));
                "max_predicate_length"
            }
            _ => {
                p.set_block_gas_limit(cur.block_gas_limit().saturating_add(rng.gen_range(1..50_000u64)));
                "block_gas_limit"
            }
        };
        (p, what)
    }

    fn gen_upgrade(
        &mut self,
        rng: &mut StdRng,
        plan: &BlockPlan,
        w: &mut Wallet,
        force_privileged: bool,
    ) -> Option<PlannedTx> {
        // privileged address is owner 0 (sometimes try with a non-privileged owner)
        let base = self.base_asset();
        let privileged = force_privileged || chance(rng, 75);
        let owner = if privileged { self.owners[0].address } else { self.owners[1].address };
        let need = self
            .params
            .tx_params()
            .max_gas_per_tx()
            .saturating_add(100_000)
            .saturating_mul(plan.gas_price.max(1));
        let cands: Vec<(UtxoId, CompressedCoin)> = w
            .coins
            .iter()
            .filter(|(u, c)| c.owner() == &owner && c.asset_id() == &base && *c.amount() >= need && !w.used_coins.contains(u))
            .cloned()
            .collect();
        let (u, c) = cands.first()?.clone();
        w.used_coins.insert(u);
        let mut d = Draft::new(vec![]);
        d.add_coin(self, u, &c);
        // the change goes back to the same owner so that later upgrades stay possible
        d.outputs.push(Output::change(owner, 0, base));
        let (new_params, _what) = self.next_params(rng);
        let tx = Transaction::upgrade_consensus_parameters(
            &new_params,
            self.policies(rng, plan, Twist::None),
            d.inputs.clone(),
            d.outputs.clone(),
            d.witnesses.clone(),
        )
        .ok()?;
        let f = self.finish_opts(rng, plan, Twist::None);
        let tx = finish(self, tx, &d, &f);
        Some(self.wrap(tx, TxKind::Upgrade, Twist::None, &d, None, None))
    }

    /// A script that really burns gas: a countdown loop, usually longer than
    /// its gas limit allows (then the whole limit is used and the tx fails).
    fn gen_burner(&mut self, rng: &mut StdRng, plan: &BlockPlan, w: &mut Wallet) -> Option<PlannedTx> {
        let mut d = Draft::new(vec![]);
        if !self.fund(rng, plan, w, &mut d, Twist::None, false) {
            return None;
        }
        self.add_changes(rng, &mut d, Twist::None);
        let cap = self.params.tx_params().max_gas_per_tx();
        let share = *pick(rng, &[20u64, 45, 70, 70, 100, 100]);
        let gas_limit = (cap / 100 * share).min(cap.saturating_sub(120_000)).max(10_000);
        let iters = if chance(rng, 70) { 262_143 } else { (gas_limit / 6_500) as u32 };
        let steps = vec![Step::Burn { iters }];
        let prog = programs::assemble_script(&steps, Terminal::Ret, script_data_base(&self.params), 0);
        let tx = Transaction::script(
            gas_limit,
            prog.script,
            prog.data,
            self.policies(rng, plan, Twist::None),
            d.inputs.clone(),
            d.outputs.clone(),
            d.witnesses.clone(),
        );
        let f = self.finish_opts(rng, plan, Twist::None);
        let tx = finish(self, tx, &d, &f);
        let info = ScriptInfo {
            steps,
            terminal: Terminal::Ret,
            gas_limit,
        };
        Some(self.wrap(tx, TxKind::Script, Twist::None, &d, Some(info), None))
    }

    /// A `Mint` transaction as a (misbehaving) source would hand it in.
    pub fn source_mint(&self, plan: &BlockPlan, index: u16) -> PlannedTx {
        let mint = Transaction::mint(
            TxPointer::new(plan.height.into(), index),
            Default::default(),
            Default::default(),
            0,
            self.base_asset(),
            plan.gas_price,
        );
        let tx: Transaction = mint.into();
        let id = tx.id(&self.chain_id);
        PlannedTx {
            tx,
            id,
            kind: TxKind::SourceMint,
            twist: Twist::None,
            checked: CheckedMode::Raw,
            script: None,
            creates: None,
            uses_message: false,
            uses_predicate: false,
        }
    }

    /// After a commit: register contracts that generated `Create`s deployed.
    pub fn note_committed(&mut self, plan: &BlockPlan) {
        for p in &plan.txs {
            if let Some(info) = &p.creates {
                if !self.contracts.iter().any(|c| c.id == info.id) && self.contract_exists(&info.id) {
                    self.contracts.push(info.clone());
                }
            }
        }
    }
}
