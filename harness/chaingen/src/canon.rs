//! Canonical (order-independent) representations and small independent
//! reference primitives used by the oracles.

use fuel_core_storage::{
    kv_store::WriteOperation,
    transactional::Changes,
};
use sha2::{
    Digest,
    Sha256,
};

/// One write of a `Changes` set: `(column id, key bytes, Some(value) | None = remove)`.
pub type CanonOp = (u32, Vec<u8>, Option<Vec<u8>>);

/// `Changes` is a `HashMap`; never compare it by iteration order. This returns
/// the writes sorted by `(column, key)`.
pub fn canonical_changes(changes: &Changes) -> Vec<CanonOp> {
    let mut out: Vec<CanonOp> = Vec::new();
    for (column, tree) in changes.iter() {
        for (key, op) in tree.iter() {
            let key: &[u8] = key.as_ref();
            let v = match op {
                WriteOperation::Insert(value) => Some(value.as_ref().to_vec()),
                WriteOperation::Remove => None,
            };
            out.push((*column, key.to_vec(), v));
        }
    }
    out.sort();
    out
}

/// Writes of one column only.
pub fn column_ops(ops: &[CanonOp], column: u32) -> Vec<&CanonOp> {
    ops.iter().filter(|o| o.0 == column).collect()
}

/// Short printable form of an op for violation details.
pub fn fmt_op(op: &CanonOp) -> String {
    let name = fuel_core_storage::column::Column::try_from(op.0)
        .map(|c| format!("{c:?}"))
        .unwrap_or_else(|_| format!("col{}", op.0));
    match &op.2 {
        Some(v) => format!(
            "{name}[{}] <- {}{}",
            hex::encode(&op.1),
            hex::encode(&v[..v.len().min(24)]),
            if v.len() > 24 { ".." } else { "" }
        ),
        None => format!("{name}[{}] removed", hex::encode(&op.1)),
    }
}

/// First difference between two canonical change lists, as text.
pub fn diff_changes(a: &[CanonOp], b: &[CanonOp]) -> Option<String> {
    if a == b {
        return None;
    }
    let n = a.len().max(b.len());
    for i in 0..n {
        match (a.get(i), b.get(i)) {
            (Some(x), Some(y)) if x == y => continue,
            (x, y) => {
                return Some(format!(
                    "first difference at op {i}: left={} right={} (left {} ops, right {} ops)",
                    x.map(fmt_op).unwrap_or_else(|| "<none>".into()),
                    y.map(fmt_op).unwrap_or_else(|| "<none>".into()),
                    a.len(),
                    b.len()
                ))
            }
        }
    }
    Some("different".into())
}

fn leaf_hash(data: &[u8]) -> [u8; 32] {
    let mut h = Sha256::new();
    h.update([0u8]);
    h.update(data);
    h.finalize().into()
}

fn node_hash(l: &[u8; 32], r: &[u8; 32]) -> [u8; 32] {
    let mut h = Sha256::new();
    h.update([1u8]);
    h.update(l);
    h.update(r);
    h.finalize().into()
}

/// Binary Merkle tree root as specified by RFC 6962 section 2.1 (also the
/// Fuel specification's "binary Merkle tree"): the empty tree hashes to
/// SHA-256 of the empty string, a leaf to `H(0x00 || data)`, an inner node
/// to `H(0x01 || left || right)` where the left subtree holds the largest
/// power of two strictly smaller than the number of leaves.
///
/// Written from the RFC text, recursive, no incremental state: it is the
/// oracle's independent reference for `event_inbox_root` and friends.
pub fn rfc6962_root<T: AsRef<[u8]>>(leaves: &[T]) -> [u8; 32] {
    fn rec<T: AsRef<[u8]>>(leaves: &[T]) -> [u8; 32] {
        match leaves.len() {
            0 => Sha256::digest([]).into(),
            1 => leaf_hash(leaves[0].as_ref()),
            n => {
                let mut k = 1usize;
                while k * 2 < n {
                    k *= 2;
                }
                let l = rec(&leaves[..k]);
                let r = rec(&leaves[k..]);
                node_hash(&l, &r)
            }
        }
    }
    rec(leaves)
}

/// Compare two values by their `Debug` rendering (used for executor result
/// types that do not implement `PartialEq`). Returns the first differing
/// element index for slices.
pub fn first_debug_diff<T: std::fmt::Debug>(a: &[T], b: &[T]) -> Option<String> {
    if a.len() != b.len() {
        return Some(format!("length {} vs {}", a.len(), b.len()));
    }
    for (i, (x, y)) in a.iter().zip(b.iter()).enumerate() {
        let (sx, sy) = (format!("{x:?}"), format!("{y:?}"));
        if sx != sy {
            return Some(format!("element {i}: {} vs {}", clip(&sx, 400), clip(&sy, 400)));
        }
    }
    None
}

pub fn clip(s: &str, n: usize) -> String {
    if s.len() <= n {
        s.to_string()
    } else {
        let mut end = n;
        while !s.is_char_boundary(end) {
            end -= 1;
        }
        format!("{}..", &s[..end])
    }
}

#[cfg(test)]
mod tests {
    use super::*;

    #[test]
    fn rfc6962_known_vectors() {
        // RFC 6962 / certificate-transparency test vectors
        assert_eq!(
            hex::encode(rfc6962_root::<Vec<u8>>(&[])),
            "e3b0c44298fc1c149afbf4c8996fb92427ae41e4649b934ca495991b7852b855"
        );
        assert_eq!(
            hex::encode(rfc6962_root(&[Vec::<u8>::new()])),
            "6e340b9cffb37a989ca544e6bb780a2c78901d3fb33738768511a30617afa01d"
        );
    }
}
