//! Harness implementations of the executor's `TransactionsSource` and
//! `NewTxWaiterPort` ports.

use crate::txgen::{
    CheckedMode,
    PlannedTx,
};
use fuel_core_executor::{
    executor::WaitNewTransactionsResult,
    ports::{
        MaybeCheckedTransaction,
        NewTxWaiterPort,
        TransactionsSource,
    },
};
use fuel_core_types::{
    blockchain::transaction::TransactionExt,
    fuel_tx::{
        Chargeable,
        ConsensusParameters,
        Transaction,
        TxId,
    },
    fuel_types::BlockHeight,
    fuel_vm::checked_transaction::IntoChecked,
};
use std::{
    collections::VecDeque,
    sync::{
        Arc,
        Mutex,
    },
};

/// Behaviour of the harness transaction source.
#[derive(Clone, Copy, Debug, PartialEq, Eq, Hash)]
pub enum SourceKind {
    /// respects gas, count and size limits (selects, in order, what fits)
    Honest,
    /// like `Honest` but hands out at most `n` transactions per call
    HonestChunked(usize),
    /// like `Honest`, but every other call returns nothing and the waiter
    /// reports "new transactions" so the executor asks again
    Stutter,
    /// like the repo's `OnceTransactionsSource`: respects the count only
    Once,
    /// ignores the gas limit (respects count and size)
    IgnoreGas,
    /// ignores the size limit (respects gas and count)
    IgnoreSize,
    /// ignores the count limit (respects gas and size)
    IgnoreCount,
    /// returns everything at once
    IgnoreAll,
}

impl SourceKind {
    pub fn name(&self) -> &'static str {
        match self {
            SourceKind::Honest => "honest",
            SourceKind::HonestChunked(_) => "chunked",
            SourceKind::Stutter => "stutter",
            SourceKind::Once => "once",
            SourceKind::IgnoreGas => "ignore_gas",
            SourceKind::IgnoreSize => "ignore_size",
            SourceKind::IgnoreCount => "ignore_count",
            SourceKind::IgnoreAll => "ignore_all",
        }
    }

    pub fn respects_size(&self) -> bool {
        matches!(
            self,
            SourceKind::Honest
                | SourceKind::HonestChunked(_)
                | SourceKind::Stutter
                | SourceKind::IgnoreGas
                | SourceKind::IgnoreCount
        )
    }

    pub fn respects_gas(&self) -> bool {
        matches!(
            self,
            SourceKind::Honest
                | SourceKind::HonestChunked(_)
                | SourceKind::Stutter
                | SourceKind::IgnoreSize
                | SourceKind::IgnoreCount
        )
    }

    pub fn respects_count(&self) -> bool {
        !matches!(self, SourceKind::IgnoreCount | SourceKind::IgnoreAll)
    }

    pub(crate) fn waiter_rounds(&self) -> usize {
        match self {
            SourceKind::Stutter => 6,
            _ => 0,
        }
    }
}

/// One observed `next` call.
#[derive(Clone, Debug)]
pub struct SourceCall {
    pub gas_limit: u64,
    pub tx_count_limit: u16,
    pub size_limit: u32,
    pub returned: usize,
}

struct Pending {
    tx: MaybeCheckedTransaction,
    id: TxId,
    max_gas: u64,
    size: u32,
}

struct State {
    kind: SourceKind,
    pending: VecDeque<Pending>,
    calls: Vec<SourceCall>,
}

/// `TransactionsSource` over a planned transaction list. Cloning shares the
/// state, so a clone kept by the caller can inspect calls and leftovers after
/// the executor consumed the original.
#[derive(Clone)]
pub struct HarnessSource {
    state: Arc<Mutex<State>>,
}

/// Metered size of a transaction as used for the block size limit.
pub fn metered_size(tx: &Transaction) -> usize {
    match tx {
        Transaction::Script(t) => t.metered_bytes_size(),
        Transaction::Create(t) => t.metered_bytes_size(),
        Transaction::Upgrade(t) => t.metered_bytes_size(),
        Transaction::Upload(t) => t.metered_bytes_size(),
        Transaction::Blob(t) => t.metered_bytes_size(),
        Transaction::Mint(_) => 0,
    }
}

impl HarnessSource {
    pub fn new(
        kind: SourceKind,
        txs: &[PlannedTx],
        height: BlockHeight,
        params_version: u32,
        params: &ConsensusParameters,
        old: Option<&(u32, ConsensusParameters)>,
    ) -> Self {
        let chain_id = params.chain_id();
        let pending = txs
            .iter()
            .map(|p| {
                let max_gas = TransactionExt::max_gas(&p.tx, params).unwrap_or(0);
                let size = u32::try_from(metered_size(&p.tx)).unwrap_or(u32::MAX);
                let raw = || MaybeCheckedTransaction::Transaction(p.tx.clone());
                // (height to check at, parameters to check under, version label)
                let how: Option<(BlockHeight, &ConsensusParameters, u32)> = match p.checked {
                    CheckedMode::Raw | CheckedMode::FullyChecked => None,
                    CheckedMode::Checked => Some((height, params, params_version)),
                    CheckedMode::CheckedOtherVersion => Some((height, params, params_version.wrapping_add(7))),
                    // what a pool does that checked the transaction one block earlier
                    CheckedMode::CheckedEarlier => Some((
                        height.pred().unwrap_or(height),
                        params,
                        params_version,
                    )),
                    // what a pool does that checked the transaction before the last upgrade
                    CheckedMode::CheckedOld => match old {
                        Some((v, old_params)) => Some((height.pred().unwrap_or(height), old_params, *v)),
                        None => Some((height, params, params_version)),
                    },
                };
                let tx = if p.checked == CheckedMode::FullyChecked {
                    // basic checks + signatures + predicates, all check bits set
                    match p.tx.clone().into_checked(height, params) {
                        Ok(c) => MaybeCheckedTransaction::CheckedTransaction(c.into(), params_version),
                        Err(_) => raw(),
                    }
                } else {
                match how {
                    None => raw(),
                    Some((h, prm, v)) => match p.tx.clone().into_checked_basic(h, prm) {
                        Ok(c) => MaybeCheckedTransaction::CheckedTransaction(c.into(), v),
                        Err(_) => raw(),
                    },
                }
                };
                let id = tx.id(&chain_id);
                Pending {
                    tx,
                    id,
                    max_gas,
                    size,
                }
            })
            .collect();
        HarnessSource {
            state: Arc::new(Mutex::new(State {
                kind,
                pending,
                calls: Vec::new(),
            })),
        }
    }

    pub fn calls(&self) -> Vec<SourceCall> {
        self.state.lock().unwrap().calls.clone()
    }

    pub fn leftover(&self) -> Vec<TxId> {
        self.state.lock().unwrap().pending.iter().map(|p| p.id).collect()
    }
}

impl TransactionsSource for HarnessSource {
    fn next(
        &self,
        gas_limit: u64,
        tx_count_limit: u16,
        block_transaction_size_limit: u32,
    ) -> Vec<MaybeCheckedTransaction> {
        let mut st = self.state.lock().unwrap();
        let kind = st.kind;
        let call_no = st.calls.len();
        let mut out = Vec::new();
        let stutter_skip = kind == SourceKind::Stutter && call_no % 2 == 1;
        if !stutter_skip {
            let chunk = match kind {
                SourceKind::HonestChunked(n) => n.max(1),
                SourceKind::Stutter => 2,
                _ => usize::MAX,
            };
            let mut gas = gas_limit;
            let mut size = block_transaction_size_limit;
            let mut count = tx_count_limit as usize;
            let mut keep = VecDeque::new();
            while let Some(p) = st.pending.pop_front() {
                let fits_gas = !kind.respects_gas() || p.max_gas <= gas;
                let fits_size = !kind.respects_size() || p.size <= size;
                let fits_count = !kind.respects_count() || count > 0;
                if out.len() < chunk && fits_gas && fits_size && fits_count {
                    gas = gas.saturating_sub(p.max_gas);
                    size = size.saturating_sub(p.size);
                    count = count.saturating_sub(1);
                    out.push(p.tx);
                } else {
                    keep.push_back(p);
                }
            }
            st.pending = keep;
        }
        st.calls.push(SourceCall {
            gas_limit,
            tx_count_limit,
            size_limit: block_transaction_size_limit,
            returned: out.len(),
        });
        out
    }
}

/// Waiter that reports "new transactions" a fixed number of times.
pub struct CountingWaiter {
    remaining: usize,
}

impl CountingWaiter {
    pub fn new(rounds: usize) -> Self {
        CountingWaiter { remaining: rounds }
    }
}

impl NewTxWaiterPort for CountingWaiter {
    async fn wait_for_new_transactions(&mut self) -> WaitNewTransactionsResult {
        if self.remaining > 0 {
            self.remaining -= 1;
            WaitNewTransactionsResult::NewTransaction
        } else {
            WaitNewTransactionsResult::Timeout
        }
    }
}
