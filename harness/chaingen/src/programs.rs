//! FuelVM programs used by the generator: a fixed menu of small contracts and
//! a script synthesiser that strings "effect steps" together and then returns,
//! reverts or panics.

use fuel_core_types::{
    fuel_asm::{
        GTFArgs,
        Instruction,
        RegId,
        op,
    },
    fuel_tx::{
        Address,
        AssetId,
        ContractId,
    },
    fuel_types::canonical::Serialize,
    fuel_vm::{
        Call,
        CallFrame,
    },
};

/// Behaviour of a deployed contract. Every contract receives two call
/// arguments `a` and `b` (second and third word of the `Call` struct).
#[derive(Clone, Copy, Debug, PartialEq, Eq, Hash, PartialOrd, Ord)]
pub enum ContractKind {
    /// `sww(key(a), b)`; return.
    Store,
    /// `sww(key(a), b)`; then `rvrt`.
    StoreRevert,
    /// `sww(key(a), b)`; then an out-of-bounds load (panic `MemoryOverflow`).
    StorePanic,
    /// `mint(b)` of the contract's own asset (sub id 0); return.
    Minter,
    /// `burn(b)`; panics with `NotEnoughBalance` if the balance is smaller.
    Burner,
    /// `sww(key(a), b)`, `mint(b)`, `swwq(key(a+100), ..)`; return.
    Multi,
    /// `tro` to a variable output: `b` points at `[asset 32][address 32][output idx 8][amount 8]`.
    Payout,
    /// `smo` of `a` base-asset coins with 8 data bytes to the recipient at `b`.
    Messenger,
    /// `sww(key(a), 7)` and then calls the contract described by the `Call` struct at `b`.
    Forwarder,
    /// `tr` of `a` coins to `[contract id 32][asset 32]` at `b`.
    Transferer,
}

pub const ALL_KINDS: [ContractKind; 10] = [
    ContractKind::Store,
    ContractKind::StoreRevert,
    ContractKind::StorePanic,
    ContractKind::Minter,
    ContractKind::Burner,
    ContractKind::Multi,
    ContractKind::Payout,
    ContractKind::Messenger,
    ContractKind::Forwarder,
    ContractKind::Transferer,
];

const A: u8 = 0x10;
const B: u8 = 0x11;
const T0: u8 = 0x12;
const T1: u8 = 0x13;
const T2: u8 = 0x14;
const T3: u8 = 0x15;
const T4: u8 = 0x16;

fn imm12(v: usize) -> u16 {
    assert!(v < 4096, "imm12 overflow {v}");
    v as u16
}

fn prologue() -> Vec<Instruction> {
    vec![
        op::addi(A, RegId::FP, imm12(CallFrame::a_offset())),
        op::lw(A, A, 0),
        op::addi(B, RegId::FP, imm12(CallFrame::b_offset())),
        op::lw(B, B, 0),
    ]
}

/// allocate a zeroed 32-byte key on the heap whose first word is `a`, `sww(key, b)`
fn store_ab() -> Vec<Instruction> {
    vec![
        op::movi(T0, 32),
        op::aloc(T0),
        op::sw(RegId::HP, A, 0),
        op::sww(RegId::HP, T1, B),
    ]
}

pub fn contract_code(kind: ContractKind) -> Vec<u8> {
    let mut c = prologue();
    match kind {
        ContractKind::Store => {
            c.extend(store_ab());
            c.push(op::ret(RegId::ONE));
        }
        ContractKind::StoreRevert => {
            c.extend(store_ab());
            c.push(op::rvrt(RegId::ONE));
        }
        ContractKind::StorePanic => {
            c.extend(store_ab());
            c.push(op::not(T2, RegId::ZERO));
            c.push(op::lw(T3, T2, 0));
            c.push(op::ret(RegId::ONE));
        }
        ContractKind::Minter => {
            c.push(op::movi(T0, 32));
            c.push(op::aloc(T0));
            c.push(op::mint(B, RegId::HP));
            c.push(op::ret(RegId::ONE));
        }
        ContractKind::Burner => {
            c.push(op::movi(T0, 32));
            c.push(op::aloc(T0));
            c.push(op::burn(B, RegId::HP));
            c.push(op::ret(RegId::ONE));
        }
        ContractKind::Multi => {
            c.extend(store_ab());
            // sub id = a fresh zeroed region
            c.push(op::aloc(T0));
            c.push(op::mint(B, RegId::HP));
            // second key: first word a+100, value = 32 bytes taken from the first key
            c.push(op::aloc(T0));
            c.push(op::addi(T2, A, 100));
            c.push(op::sw(RegId::HP, T2, 0));
            c.push(op::addi(T3, RegId::HP, 64));
            c.push(op::movi(T4, 1));
            c.push(op::swwq(RegId::HP, T1, T3, T4));
            c.push(op::ret(RegId::ONE));
        }
        ContractKind::Payout => {
            c.push(op::addi(T0, B, 32));
            c.push(op::lw(T1, B, 8));
            c.push(op::lw(T2, B, 9));
            c.push(op::tro(T0, T1, T2, B));
            c.push(op::ret(RegId::ONE));
        }
        ContractKind::Messenger => {
            c.push(op::movi(T0, 8));
            c.push(op::smo(B, B, T0, A));
            c.push(op::ret(RegId::ONE));
        }
        ContractKind::Forwarder => {
            c.push(op::movi(T0, 32));
            c.push(op::aloc(T0));
            c.push(op::sw(RegId::HP, A, 0));
            c.push(op::movi(T2, 7));
            c.push(op::sww(RegId::HP, T1, T2));
            c.push(op::call(B, RegId::ZERO, RegId::HP, RegId::CGAS));
            c.push(op::ret(RegId::ONE));
        }
        ContractKind::Transferer => {
            c.push(op::addi(T0, B, 32));
            c.push(op::tr(B, A, T0));
            c.push(op::ret(RegId::ONE));
        }
    }
    c.into_iter().collect()
}

/// Predicate that always succeeds.
pub fn predicate_true() -> Vec<u8> {
    vec![op::ret(RegId::ONE)].into_iter().collect()
}

/// Predicate that always fails.
pub fn predicate_false() -> Vec<u8> {
    vec![op::ret(RegId::ZERO)].into_iter().collect()
}

/// A predicate that burns some gas in a loop-free way before succeeding.
pub fn predicate_hungry() -> Vec<u8> {
    let mut v = vec![op::movi(T0, 64), op::aloc(T0)];
    for _ in 0..6 {
        v.push(op::s256(RegId::HP, RegId::HP, T0));
    }
    v.push(op::ret(RegId::ONE));
    v.into_iter().collect()
}

/// One effect attempted by a script, in order.
#[derive(Clone, Debug, PartialEq, Eq, Hash)]
pub enum Step {
    /// call `contract` (of `kind`) with arguments; `fwd` coins of `asset` are forwarded
    Call {
        contract: ContractId,
        kind: ContractKind,
        a: u64,
        b: CallArg,
        fwd: u32,
        asset: AssetId,
    },
    /// `tr` from the script's free balance to a contract
    Tr {
        contract: ContractId,
        amount: u32,
        asset: AssetId,
    },
    /// `tro` from the script's free balance to a variable output
    Tro {
        to: Address,
        out_idx: u16,
        amount: u32,
        asset: AssetId,
    },
    /// `smo` from the script's base asset balance
    Smo {
        recipient: Address,
        amount: u32,
        data_len: u8,
    },
    /// `log`
    Log,
    /// a countdown loop of `iters` iterations (about 3000 gas each) that really burns gas
    /// (runs out of gas if the script gas limit is smaller than its cost)
    Burn { iters: u32 },
}

/// What the word `b` of a call carries.
#[derive(Clone, Debug, PartialEq, Eq, Hash)]
pub enum CallArg {
    Value(u64),
    /// `[asset][address][idx][amount]` for `Payout`
    PayoutData {
        asset: AssetId,
        to: Address,
        out_idx: u64,
        amount: u64,
    },
    /// 32-byte recipient for `Messenger`
    Recipient(Address),
    /// nested `Call` struct for `Forwarder`
    Nested {
        contract: ContractId,
        a: u64,
        b: u64,
    },
    /// `[contract][asset]` for `Transferer`
    TransferData { contract: ContractId, asset: AssetId },
}

#[derive(Clone, Copy, Debug, PartialEq, Eq, Hash)]
pub enum Terminal {
    Ret,
    Rvrt,
    /// `mint` outside a contract: panic `ExpectedInternalContext`
    PanicContext,
    /// load from the end of the address space: panic `MemoryOverflow`
    PanicMemory,
}

impl Step {
    pub fn name(&self) -> &'static str {
        match self {
            Step::Call { kind, .. } => match kind {
                ContractKind::Store => "call_store",
                ContractKind::StoreRevert => "call_store_revert",
                ContractKind::StorePanic => "call_store_panic",
                ContractKind::Minter => "call_mint",
                ContractKind::Burner => "call_burn",
                ContractKind::Multi => "call_multi",
                ContractKind::Payout => "call_payout",
                ContractKind::Messenger => "call_smo",
                ContractKind::Forwarder => "call_forward",
                ContractKind::Transferer => "call_tr",
            },
            Step::Tr { .. } => "tr",
            Step::Tro { .. } => "tro",
            Step::Smo { .. } => "smo",
            Step::Log => "log",
            Step::Burn { .. } => "burn_loop",
        }
    }

    /// contracts this step needs among the transaction inputs
    pub fn contracts(&self) -> Vec<ContractId> {
        match self {
            Step::Call { contract, b, .. } => {
                let mut v = vec![*contract];
                match b {
                    CallArg::Nested { contract, .. } => v.push(*contract),
                    CallArg::TransferData { contract, .. } => v.push(*contract),
                    _ => {}
                }
                v
            }
            Step::Tr { contract, .. } => vec![*contract],
            _ => vec![],
        }
    }

    /// Does the step (when it executes) write contract storage before anything
    /// else can fail inside it?
    pub fn writes_storage(&self) -> bool {
        matches!(
            self,
            Step::Call {
                kind: ContractKind::Store
                    | ContractKind::StoreRevert
                    | ContractKind::StorePanic
                    | ContractKind::Multi
                    | ContractKind::Forwarder,
                ..
            }
        )
    }
}

/// Assembled script.
pub struct ScriptProgram {
    pub script: Vec<u8>,
    pub data: Vec<u8>,
}

const BASE: u8 = 0x20;
const R0: u8 = 0x21;
const R1: u8 = 0x22;
const R2: u8 = 0x23;
const R3: u8 = 0x24;

/// Build script bytecode + script data for `steps` followed by `terminal`.
///
/// `data_base(script_len)` must return the absolute VM address of the script
/// data for a script of that byte length (needed for pointers stored *inside*
/// the data, i.e. call argument `b`). `filler` extra bytes are appended to the
/// data (used for oversized transactions).
pub fn assemble_script(
    steps: &[Step],
    terminal: Terminal,
    data_base: impl Fn(usize) -> usize,
    filler: usize,
) -> ScriptProgram {
    // instruction count does not depend on data offsets, so two passes suffice
    let (probe, _) = assemble_inner(steps, terminal, 0);
    let script_len = probe.len() * Instruction::SIZE;
    let base = data_base(script_len);
    let (ins, mut data) = assemble_inner(steps, terminal, base);
    data.extend(std::iter::repeat_n(0xEEu8, filler));
    ScriptProgram {
        script: ins.into_iter().collect(),
        data,
    }
}

fn assemble_inner(steps: &[Step], terminal: Terminal, base: usize) -> (Vec<Instruction>, Vec<u8>) {
    let mut ins = vec![op::gtf_args(BASE, RegId::ZERO, GTFArgs::ScriptData)];
    let mut data: Vec<u8> = Vec::new();
    let ptr = |ins: &mut Vec<Instruction>, reg: u8, off: usize| {
        if off < 4096 {
            ins.push(op::addi(reg, BASE, off as u16));
        } else {
            ins.push(op::movi(reg, off as u32));
            ins.push(op::add(reg, reg, BASE));
        }
    };
    for s in steps {
        match s {
            Step::Call {
                contract,
                a,
                b,
                fwd,
                asset,
                ..
            } => {
                // auxiliary data first so that `b` can point at it
                let b_word: u64 = match b {
                    CallArg::Value(v) => *v,
                    CallArg::PayoutData {
                        asset,
                        to,
                        out_idx,
                        amount,
                    } => {
                        let off = data.len();
                        data.extend_from_slice(asset.as_ref());
                        data.extend_from_slice(to.as_ref());
                        data.extend_from_slice(&out_idx.to_be_bytes());
                        data.extend_from_slice(&amount.to_be_bytes());
                        (base + off) as u64
                    }
                    CallArg::Recipient(r) => {
                        let off = data.len();
                        data.extend_from_slice(r.as_ref());
                        (base + off) as u64
                    }
                    CallArg::Nested { contract, a, b } => {
                        let off = data.len();
                        data.extend_from_slice(&Call::new(*contract, *a, *b).to_bytes());
                        (base + off) as u64
                    }
                    CallArg::TransferData { contract, asset } => {
                        let off = data.len();
                        data.extend_from_slice(contract.as_ref());
                        data.extend_from_slice(asset.as_ref());
                        (base + off) as u64
                    }
                };
                let asset_off = data.len();
                data.extend_from_slice(asset.as_ref());
                let call_off = data.len();
                data.extend_from_slice(&Call::new(*contract, *a, b_word).to_bytes());
                ptr(&mut ins, R0, call_off);
                ins.push(op::movi(R1, *fwd));
                ptr(&mut ins, R2, asset_off);
                ins.push(op::call(R0, R1, R2, RegId::CGAS));
            }
            Step::Tr {
                contract,
                amount,
                asset,
            } => {
                let c_off = data.len();
                data.extend_from_slice(contract.as_ref());
                let a_off = data.len();
                data.extend_from_slice(asset.as_ref());
                ptr(&mut ins, R0, c_off);
                ins.push(op::movi(R1, *amount));
                ptr(&mut ins, R2, a_off);
                ins.push(op::tr(R0, R1, R2));
            }
            Step::Tro {
                to,
                out_idx,
                amount,
                asset,
            } => {
                let t_off = data.len();
                data.extend_from_slice(to.as_ref());
                let a_off = data.len();
                data.extend_from_slice(asset.as_ref());
                ptr(&mut ins, R0, t_off);
                ins.push(op::movi(R1, *out_idx as u32));
                ins.push(op::movi(R2, *amount));
                ptr(&mut ins, R3, a_off);
                ins.push(op::tro(R0, R1, R2, R3));
            }
            Step::Smo {
                recipient,
                amount,
                data_len,
            } => {
                let r_off = data.len();
                data.extend_from_slice(recipient.as_ref());
                ptr(&mut ins, R0, r_off);
                ins.push(op::movi(R1, *data_len as u32));
                ins.push(op::movi(R2, *amount));
                ins.push(op::smo(R0, R0, R1, R2));
            }
            Step::Log => {
                ins.push(op::log(RegId::ONE, RegId::ZERO, RegId::ONE, RegId::ZERO));
            }
            Step::Burn { iters } => {
                // each iteration: a (failing, hence cheap to execute) signature recovery = 3000 gas
                ins.push(op::movi(R1, 160));
                ins.push(op::aloc(R1));
                ins.push(op::addi(R1, RegId::HP, 64));
                ins.push(op::addi(R2, RegId::HP, 128));
                ins.push(op::movi(R0, (*iters).min(262_143)));
                ins.push(op::ecr1(RegId::HP, R1, R2));
                ins.push(op::subi(R0, R0, 1));
                ins.push(op::jnzb(R0, RegId::ZERO, 1));
            }
        }
    }
    match terminal {
        Terminal::Ret => ins.push(op::ret(RegId::ONE)),
        Terminal::Rvrt => ins.push(op::rvrt(RegId::ONE)),
        Terminal::PanicContext => {
            ins.push(op::mint(RegId::ONE, RegId::ZERO));
            ins.push(op::ret(RegId::ONE));
        }
        Terminal::PanicMemory => {
            ins.push(op::not(R0, RegId::ZERO));
            ins.push(op::lw(R1, R0, 0));
            ins.push(op::ret(RegId::ONE));
        }
    }
    // keep data word aligned for readability of dumps
    while data.len() % 8 != 0 {
        data.push(0);
    }
    (ins, data)
}
