//! C27 — sync batching partitions every requested range exactly.
//!
//! System under observation: the real `Cache::get_chunks` (through the guarded
//! hook `fuel_core_sync::import::verif_hooks::get_chunks`, which builds a real
//! `Cache`, inserts the given items and returns the chunks it produces).
//!
//! Oracle (from the property text only): the chunks must be consecutive,
//! non-overlapping, non-empty ranges that start at the first requested height,
//! end right after the last requested height, are each no longer than the batch
//! size; a cached batch (headers / blocks) must carry exactly the cached items
//! of its heights (all of its heights cached, all of the same kind as the batch,
//! in order); a "nothing cached" chunk must not contain a cached height.

use crate::util::{
    Local,
    selftest,
    sig,
};
use fuel_core_sync::import::verif_hooks::{
    Chunk,
    Item,
    get_chunks,
};
use fuel_core_types::{
    blockchain::{
        SealedBlock,
        SealedBlockHeader,
        block::Block,
        consensus::Sealed,
        header::PartialBlockHeader,
    },
    fuel_types::Bytes32,
};
use std::{
    num::NonZeroU32,
    ops::Range,
};
use vcommon::{
    rand::Rng,
    serde_json::{
        Value,
        json,
    },
    *,
};

/// what the harness put into the cache for one height
#[derive(Clone, Copy, Debug, PartialEq, Eq, Hash)]
pub enum Kind {
    Nothing,
    Header,
    Block,
}

impl Kind {
    fn from_digit(d: u8) -> Kind {
        match d {
            0 => Kind::Nothing,
            1 => Kind::Header,
            _ => Kind::Block,
        }
    }
    fn digit(self) -> u8 {
        match self {
            Kind::Nothing => 0,
            Kind::Header => 1,
            Kind::Block => 2,
        }
    }
}

fn mk_block(height: u32) -> SealedBlock {
    let mut header = PartialBlockHeader::default();
    header.consensus.height = height.into();
    let block = Block::new(header, vec![], &[], Bytes32::zeroed()).expect("empty block is valid");
    Sealed {
        entity: block,
        consensus: Default::default(),
    }
}

fn mk_header(height: u32) -> SealedBlockHeader {
    let b = mk_block(height);
    Sealed {
        entity: b.entity.header().clone(),
        consensus: Default::default(),
    }
}

/// One case: `inserts` are applied in order to an empty cache (a later insert
/// at the same height replaces the earlier one), then `range` is chunked.
#[derive(Clone, Debug)]
pub struct Case {
    pub inserts: Vec<(u32, Kind)>,
    pub start: u32,
    pub end: u32,
    pub size: u32,
}

impl Case {
    fn to_json(&self) -> Value {
        json!({
            "inserts": self.inserts.iter().map(|(h, k)| json!([h, k.digit()])).collect::<Vec<_>>(),
            "start": self.start, "end": self.end, "size": self.size,
        })
    }

    fn from_json(v: &Value) -> Option<Case> {
        let inserts = v
            .get("inserts")?
            .as_array()?
            .iter()
            .filter_map(|e| {
                let a = e.as_array()?;
                Some((a.first()?.as_u64()? as u32, Kind::from_digit(a.get(1)?.as_u64()? as u8)))
            })
            .collect();
        Some(Case {
            inserts,
            start: v.get("start")?.as_u64()? as u32,
            end: v.get("end")?.as_u64()? as u32,
            size: v.get("size")?.as_u64()? as u32,
        })
    }

    /// final cache content per height (independent of the code under test)
    fn cached(&self, h: u32) -> Kind {
        self.inserts
            .iter()
            .rev()
            .find(|(ih, _)| *ih == h)
            .map(|(_, k)| *k)
            .unwrap_or(Kind::Nothing)
    }
}

fn chunk_range(c: &Chunk) -> Range<u32> {
    match c {
        Chunk::Headers(r, _) | Chunk::Blocks(r, _) | Chunk::None(r) => r.clone(),
    }
}

fn fmt_chunks(chunks: &[Chunk]) -> String {
    chunks
        .iter()
        .map(|c| match c {
            Chunk::Headers(r, items) => format!("Headers({}..{} items={:?})", r.start, r.end, items),
            Chunk::Blocks(r, items) => format!("Blocks({}..{} items={:?})", r.start, r.end, items),
            Chunk::None(r) => format!("None({}..{})", r.start, r.end),
        })
        .collect::<Vec<_>>()
        .join(", ")
}

/// The oracle. Returns the first failed requirement as (signature, explanation).
pub fn judge(case: &Case, chunks: &[Chunk]) -> Result<(), (String, String)> {
    let first = case.start as u64;
    let last_excl = case.end as u64 + 1;
    let mut expected_start = first;
    if chunks.is_empty() {
        return Err(("no_chunks_for_nonempty_range".into(), "no chunk returned".into()));
    }
    for (i, c) in chunks.iter().enumerate() {
        let r = chunk_range(c);
        let (s, e) = (r.start as u64, r.end as u64);
        if e <= s {
            return Err(("empty_chunk".into(), format!("chunk #{i} has the empty range {s}..{e}")));
        }
        if s < expected_start {
            return Err((
                "overlap_between_chunks".into(),
                format!("chunk #{i} starts at {s} but heights below {expected_start} are already covered"),
            ));
        }
        if s > expected_start {
            let what = if i == 0 { "first_chunk_starts_late" } else { "gap_between_chunks" };
            return Err((what.into(), format!("chunk #{i} starts at {s}, expected {expected_start}")));
        }
        if e > last_excl {
            return Err((
                "chunk_exceeds_requested_range".into(),
                format!("chunk #{i} ends at {e} (exclusive) but the request ends at {last_excl} (exclusive)"),
            ));
        }
        if e - s > case.size as u64 {
            return Err((
                "chunk_larger_than_batch_size".into(),
                format!("chunk #{i} {s}..{e} has {} heights, batch size {}", e - s, case.size),
            ));
        }
        match c {
            Chunk::None(_) => {
                if let Some(h) = (r.start..r.end).find(|h| case.cached(*h) != Kind::Nothing) {
                    let what = if h == r.start {
                        "none_chunk_starts_at_cached_height"
                    } else {
                        "none_chunk_overruns_next_cached_height"
                    };
                    return Err((
                        what.into(),
                        format!(
                            "chunk #{i} None({s}..{e}) claims nothing is cached but height {h} holds a cached {:?}",
                            case.cached(h)
                        ),
                    ));
                }
            }
            Chunk::Headers(_, items) | Chunk::Blocks(_, items) => {
                let want_kind = if matches!(c, Chunk::Headers(..)) { Kind::Header } else { Kind::Block };
                let want_items: Vec<u32> = (r.start..r.end).collect();
                if *items != want_items {
                    return Err((
                        "cached_batch_items_mismatch".into(),
                        format!("chunk #{i} range {s}..{e} carries items at heights {items:?}, expected {want_items:?}"),
                    ));
                }
                if let Some(h) = (r.start..r.end).find(|h| case.cached(*h) != want_kind) {
                    return Err((
                        "cached_batch_wrong_kind".into(),
                        format!(
                            "chunk #{i} is a {want_kind:?} batch over {s}..{e} but height {h} holds {:?} in the cache",
                            case.cached(h)
                        ),
                    ));
                }
            }
        }
        expected_start = e;
    }
    if expected_start != last_excl {
        return Err((
            "range_not_fully_covered".into(),
            format!("chunks end at {expected_start} (exclusive), request ends at {last_excl} (exclusive)"),
        ));
    }
    Ok(())
}

/// harness-side perturbations of the *observed* chunk list (oracle self-test)
fn perturb(n: u32, chunks: &[Chunk]) -> Vec<Chunk> {
    let mut v = chunks.to_vec();
    match n {
        1 => {
            // drop a chunk
            if !v.is_empty() {
                v.remove(v.len() / 2);
            }
        }
        2 => {
            // swap two chunks
            if v.len() >= 2 {
                let l = v.len();
                v.swap(0, l - 1);
            }
        }
        3 => {
            // grow the first chunk by one height at its end (overlap / over-size / overrun)
            if let Some(c) = v.first_mut() {
                match c {
                    Chunk::Headers(r, _) | Chunk::Blocks(r, _) | Chunk::None(r) => r.end += 1,
                }
            }
        }
        _ => {
            // relabel the first cached batch: Headers <-> Blocks
            for c in v.iter_mut() {
                match c.clone() {
                    Chunk::Headers(r, i) => {
                        *c = Chunk::Blocks(r, i);
                        break;
                    }
                    Chunk::Blocks(r, i) => {
                        *c = Chunk::Headers(r, i);
                        break;
                    }
                    Chunk::None(_) => {}
                }
            }
        }
    }
    v
}

struct Pool {
    base: u32,
    headers: Vec<SealedBlockHeader>,
    blocks: Vec<SealedBlock>,
}

impl Pool {
    fn new(base: u32, n: u32) -> Self {
        Pool {
            base,
            headers: (0..n).map(|i| mk_header(base + i)).collect(),
            blocks: (0..n).map(|i| mk_block(base + i)).collect(),
        }
    }
    fn item(&self, h: u32, k: Kind) -> Option<Item> {
        let i = (h - self.base) as usize;
        match k {
            Kind::Nothing => None,
            Kind::Header => Some(Item::Header(self.headers[i].clone())),
            Kind::Block => Some(Item::Block(self.blocks[i].clone())),
        }
    }
}

struct Ctx<'a> {
    report: &'a Report,
    st: Option<u32>,
    seed: u64,
    shard: usize,
}

/// run the real code on one case and judge it
fn run_case(ctx: &Ctx, local: &mut Local, pool: &Pool, case: &Case, mode: &str) {
    let items: Vec<Item> = case.inserts.iter().filter_map(|(h, k)| pool.item(*h, *k)).collect();
    let size = NonZeroU32::new(case.size).expect("size >= 1");
    let (a, b) = (case.start, case.end);
    let observed = match catch(|| get_chunks(items, a..=b, size)) {
        Ok(c) => c,
        Err(p) => {
            // The property does not promise totality; an internal debug_assert of
            // the chunking code on its own batch invariant is about exactly this state.
            local.count("events.panic");
            if p.contains("batch.range") || p.contains("assertion") {
                ctx.report.violation(
                    sig(ctx.st, "debug_assert_in_get_chunks"),
                    format!("get_chunks panicked on its own invariant: {p}; case {}", case.to_json()),
                    json!({"seed": ctx.seed, "shard": ctx.shard, "mode": mode, "case": case.to_json()}),
                );
            } else {
                ctx.report.inconclusive(format!("get_chunks panicked: {p}; case {}", case.to_json()));
            }
            return;
        }
    };
    local.eval();
    for c in &observed {
        match c {
            Chunk::Headers(..) => local.count("chunks.headers"),
            Chunk::Blocks(..) => local.count("chunks.blocks"),
            Chunk::None(..) => local.count("chunks.none"),
        }
    }
    // evidence: shape of the case
    let inside: Vec<Kind> = (a..=b).map(|h| case.cached(h)).collect();
    let n_cached = inside.iter().filter(|k| **k != Kind::Nothing).count();
    let mixed = n_cached > 0 && n_cached < inside.len();
    if mixed {
        local.count("cases.mixed_cached_and_missing");
        local.distinct(hash64(&(inside.clone(), case.size)));
        // a gap in front of a cached height that is shorter than the batch size
        let mut gap = 0u32;
        for k in &inside {
            if *k == Kind::Nothing {
                gap += 1;
            } else {
                if gap > 0 && gap < case.size {
                    local.count("cases.gap_before_cached_smaller_than_batch");
                    break;
                }
                gap = 0;
            }
        }
    } else if n_cached == 0 {
        local.count("cases.nothing_cached_in_range");
    } else {
        local.count("cases.everything_cached_in_range");
    }
    if case.inserts.iter().any(|(h, k)| *k != Kind::Nothing && (*h < a || *h > b)) {
        local.count("cases.cached_items_outside_range");
    }

    let verdict = judge(case, &observed);
    match ctx.st {
        None => {
            if let Err((s, why)) = verdict {
                local.count("oracle.rejected");
                local.violation(
                    ctx.report,
                    s,
                    || {
                        format!(
                            "range {a}..={b}, batch size {}, cache {:?}: {why}; observed chunks: [{}]",
                            case.size,
                            case.inserts,
                            fmt_chunks(&observed)
                        )
                    },
                    || json!({"seed": ctx.seed, "shard": ctx.shard, "mode": mode, "case": case.to_json()}),
                );
            } else {
                local.count("oracle.accepted");
                if mixed && ctx.report.wants_sample() {
                    ctx.report.sample(json!({"case": case.to_json(), "chunks": fmt_chunks(&observed)}));
                }
            }
        }
        Some(n) => {
            // self-test: only cases the oracle accepts are perturbed
            if verdict.is_ok() {
                let bad = perturb(n, &observed);
                if bad == observed {
                    local.count("selftest.not_applicable");
                } else {
                    match judge(case, &bad) {
                        Err((s, why)) => {
                            local.count("selftest.detected");
                            local.violation(
                                ctx.report,
                                sig(ctx.st, &s),
                                || format!("perturbed observation rejected as intended: {why}"),
                                || json!({"case": case.to_json()}),
                            );
                        }
                        Ok(()) => {
                            // swapping / relabelling may coincidentally give another valid answer only
                            // if it equals the original, which was excluded above
                            local.count("selftest.missed");
                        }
                    }
                }
            }
        }
    }
}

pub fn run(args: &Args, report: &Report) {
    let st = selftest(args);
    let rule = "exhaustive: every cache assignment {none,header,block}^N over heights base..base+N, every sub-range \
                a..=b and every batch size 1..=N+1, for base=0 and (smaller N) a base next to u32::MAX; plus seeded random \
                cases over 24 heights with overwriting inserts. distinct_nontrivial counts distinct (kinds inside the \
                requested range, batch size) shapes in which the range holds both cached and missing heights";
    let assumptions = [
        "the hook verif_hooks::get_chunks only builds a Cache, inserts the items and forwards to the real Cache::get_chunks",
        "requested ranges end below u32::MAX (an exclusive Range<u32> cannot express a chunk ending after u32::MAX)",
    ];

    if let Some(rp) = read_replay(args) {
        if let Some(case) = rp.get("case").and_then(Case::from_json) {
            let lo = case.inserts.iter().map(|x| x.0).chain([case.start]).min().unwrap_or(0);
            let hi = case.inserts.iter().map(|x| x.0).chain([case.end]).max().unwrap_or(0);
            let pool = Pool::new(lo, hi - lo + 1);
            let mut local = Local::new();
            let ctx = Ctx { report, st, seed: args.seed, shard: 0 };
            run_case(&ctx, &mut local, &pool, &case, "replay");
            local.flush(report);
        } else {
            report.inconclusive("replay file has no case");
        }
        report.finish(args, "exploration", rule, false, &assumptions);
        return;
    }

    // ---- exhaustive part -------------------------------------------------
    let n: u32 = args.by_tier(8, 10);
    let n_high: u32 = args.by_tier(5, 7);
    let prefix_digits: u32 = 4; // 81 shards per universe
    let universes: Vec<(u32, u32)> = vec![(0, n), (u32::MAX - 1 - n_high, n_high)];
    report.info("exhaustive_universes", json!(universes.iter().map(|(b, n)| json!({"base": b, "heights": n})).collect::<Vec<_>>()));
    for (base, n) in universes.clone() {
        let shards = 3usize.pow(prefix_digits);
        let report2 = report.clone();
        let seed = args.seed;
        run_shards(report, args, shards, move |shard, _s| {
            let pool = Pool::new(base, n);
            let mut local = Local::new();
            let ctx = Ctx { report: &report2, st, seed, shard };
            let rest = n - prefix_digits;
            let mut kinds = vec![Kind::Nothing; n as usize];
            let mut p = shard;
            for d in 0..prefix_digits {
                kinds[d as usize] = Kind::from_digit((p % 3) as u8);
                p /= 3;
            }
            for code in 0..3usize.pow(rest) {
                let mut c = code;
                for d in 0..rest {
                    kinds[(prefix_digits + d) as usize] = Kind::from_digit((c % 3) as u8);
                    c /= 3;
                }
                let inserts: Vec<(u32, Kind)> = kinds
                    .iter()
                    .enumerate()
                    .filter(|(_, k)| **k != Kind::Nothing)
                    .map(|(i, k)| (base + i as u32, *k))
                    .collect();
                for a in 0..n {
                    for b in a..n {
                        for size in 1..=n + 1 {
                            let case = Case { inserts: inserts.clone(), start: base + a, end: base + b, size };
                            run_case(&ctx, &mut local, &pool, &case, "exhaustive");
                        }
                    }
                }
            }
            local.add("exhaustive.assignments", 3u64.pow(rest));
            local.flush(&report2);
        });
    }

    // ---- random part: wider universe, overwriting inserts, odd bases ------
    let rand_shards = 32usize;
    let per_shard: usize = args.by_tier(4_000, 60_000);
    {
        let report2 = report.clone();
        let seed = args.seed;
        run_shards(report, args, rand_shards, move |shard, s| {
            let mut rng = rng_for(s, &[tag("c27-random")]);
            let width = 24u32;
            let base = *pick(&mut rng, &[0u32, 1, 7, 1000, u32::MAX - 1 - width]);
            let pool = Pool::new(base, width);
            let mut local = Local::new();
            let ctx = Ctx { report: &report2, st, seed, shard };
            for _ in 0..per_shard {
                let density = *pick(&mut rng, &[10u32, 30, 50, 80, 100]);
                let mut inserts = Vec::new();
                for h in 0..width {
                    if chance(&mut rng, density) {
                        let k = if chance(&mut rng, 50) { Kind::Header } else { Kind::Block };
                        inserts.push((base + h, k));
                    }
                }
                // overwrites: a later insert at an already cached height
                let extra = rng.gen_range(0..4);
                for _ in 0..extra {
                    let h = base + rng.gen_range(0..width);
                    let k = if chance(&mut rng, 50) { Kind::Header } else { Kind::Block };
                    inserts.push((h, k));
                    local.count("random.overwriting_inserts");
                }
                let a = rng.gen_range(0..width);
                let b = rng.gen_range(a..width);
                let size = *pick(&mut rng, &[1u32, 2, 3, 4, 5, 7, 8, 12, 24, 25, 1000, u32::MAX]);
                let case = Case { inserts, start: base + a, end: base + b, size };
                local.count("random.cases");
                run_case(&ctx, &mut local, &pool, &case, "random");
            }
            local.flush(&report2);
        });
    }

    if st.is_none() {
        report.require("oracle.accepted", args.by_tier(500_000, 10_000_000));
        report.require("cases.mixed_cached_and_missing", args.by_tier(300_000, 5_000_000));
        report.require("cases.gap_before_cached_smaller_than_batch", args.by_tier(100_000, 1_000_000));
        report.require("cases.cached_items_outside_range", 100_000);
        report.require("chunks.headers", 100_000);
        report.require("chunks.blocks", 100_000);
        report.require("chunks.none", 100_000);
        report.require("random.overwriting_inserts", 10_000);
    } else {
        report.require("selftest.detected", 1000);
    }
    // exhaustive over the stated universes unless something stopped a shard
    report.finish(args, "exploration", rule, st.is_none(), &assumptions);
}
