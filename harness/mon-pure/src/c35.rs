//! C35 — worst-case gas price estimates are total and bound the compounded price.
//!
//! System under observation (three public entry points into the same estimate):
//!  * `fuel_gas_price_algorithm::cumulative_percentage_change`,
//!  * `AlgorithmV1::worst_case` (obtained from a real `AlgorithmUpdaterV1::algorithm()`),
//!  * `UniversalGasPriceProvider::worst_case_gas_price` (what GraphQL
//!    `estimateGasPrice(blockHorizon)` calls).
//!
//! Oracle (from the property text): for a price `p`, percentage `q` and horizons
//! h = 0,1,2,…: the call returns (a panic is the refutation, the property says
//! "computed without failing"); f(h+1) >= f(h); f(h) >= c(h) where c(0) = p and
//! c(h+1) = c(h) + floor(c(h)*q/100), saturating at u64::MAX (the maximal per-block
//! increase applied once per block with integer rounding down).

use crate::util::{
    Local,
    selftest,
    sig,
};
use fuel_core::{
    fuel_core_graphql_api::ports::GasPriceEstimate,
    service::adapters::UniversalGasPriceProvider,
};
use fuel_core_gas_price_service::v1::service::LatestGasPrice;
use fuel_gas_price_algorithm::{
    cumulative_percentage_change,
    v1::{
        AlgorithmUpdaterV1,
        ClampedPercentage,
        L2ActivityTracker,
    },
};
use std::num::NonZeroU64;
use vcommon::{
    rand::Rng,
    serde_json::json,
    *,
};

/// size of the precomputed region as far as the *signature classification* needs it
/// (the verdict never depends on it)
const TABLE_EDGE: u64 = 25;

/// documented in utils.rs: above `ROUNDING_ERROR_CUTOFF` the estimator adds
/// `ROUNDING_ERROR_COMPENSATION` "to guarantee that the actual gas price is always equal or
/// less than the estimate". Used for signature classification only.
const COMPENSATION_CUTOFF: u64 = 16948547188989277;
const COMPENSATION: u64 = 2000;

#[derive(Clone, Copy, Debug, PartialEq, Eq, Hash)]
pub enum Path {
    /// cumulative_percentage_change
    Direct,
    /// AlgorithmV1::worst_case with only the execution component
    AlgoExec,
    /// AlgorithmV1::worst_case with only the DA component
    AlgoDa,
    /// UniversalGasPriceProvider::worst_case_gas_price
    Provider,
}

impl Path {
    fn name(self) -> &'static str {
        match self {
            Path::Direct => "cumulative_percentage_change",
            Path::AlgoExec => "AlgorithmV1::worst_case(exec)",
            Path::AlgoDa => "AlgorithmV1::worst_case(da)",
            Path::Provider => "UniversalGasPriceProvider::worst_case_gas_price",
        }
    }
    fn from_name(s: &str) -> Path {
        match s {
            "AlgorithmV1::worst_case(exec)" => Path::AlgoExec,
            "AlgorithmV1::worst_case(da)" => Path::AlgoDa,
            "UniversalGasPriceProvider::worst_case_gas_price" => Path::Provider,
            _ => Path::Direct,
        }
    }
}

fn updater(price_exec: u64, pct_exec: u16, price_da: u64, pct_da: u16, height: u32) -> AlgorithmUpdaterV1 {
    AlgorithmUpdaterV1 {
        new_scaled_exec_price: price_exec,
        min_exec_gas_price: 0,
        exec_gas_price_change_percent: pct_exec,
        l2_block_height: height,
        l2_block_fullness_threshold_percent: ClampedPercentage::new(50),
        new_scaled_da_gas_price: price_da,
        gas_price_factor: NonZeroU64::new(1).unwrap(),
        min_da_gas_price: 0,
        max_da_gas_price: u64::MAX,
        max_da_gas_price_change_percent: pct_da,
        total_da_rewards: 0,
        latest_known_total_da_cost: 0,
        projected_total_da_cost: 0,
        da_p_component: 0,
        da_d_component: 0,
        last_profit: 0,
        second_to_last_profit: 0,
        latest_da_cost_per_byte: 0,
        l2_activity: L2ActivityTracker::new_always_normal(),
        unrecorded_blocks_bytes: 0,
    }
}

/// One family: a price, a percentage, a base height, evaluated for horizons 0..=max_h
#[derive(Clone, Copy, Debug)]
pub struct Family {
    pub path: Path,
    pub price: u64,
    pub pct: u64,
    pub base: u32,
    pub max_h: u32,
}

/// the estimate through the chosen public entry point
fn estimate(f: &Family, h: u32) -> Result<u64, String> {
    let target = f.base + h;
    match f.path {
        Path::Direct => catch(|| cumulative_percentage_change(f.price, f.base, f.pct, target)),
        Path::AlgoExec => {
            let u = updater(f.price, f.pct as u16, 0, 0, f.base);
            catch(|| u.algorithm().worst_case(target))
        }
        Path::AlgoDa => {
            let u = updater(0, 0, f.price, f.pct as u16, f.base);
            catch(|| u.algorithm().worst_case(target))
        }
        Path::Provider => {
            let p = UniversalGasPriceProvider::new_from_inner(LatestGasPrice::new(f.base, f.price), f.pct as u16);
            catch(|| p.worst_case_gas_price(target.into()).expect("always Some"))
        }
    }
}

/// c(h+1) from c(h): integer compounding with rounding down, saturating
fn compound_step(c: u64, pct: u64) -> u64 {
    let inc = (c as u128).saturating_mul(pct as u128) / 100;
    let next = (c as u128).saturating_add(inc);
    if next > u64::MAX as u128 { u64::MAX } else { next as u64 }
}

fn region(h: u64, pct: u64) -> &'static str {
    if h <= TABLE_EDGE && pct <= TABLE_EDGE { "table" } else { "formula" }
}

fn magnitude(v: u64) -> &'static str {
    if v < (1u64 << 53) { "<2^53" } else { ">=2^53" }
}

struct Ctx<'a> {
    report: &'a Report,
    st: Option<u32>,
    seed: u64,
    shard: usize,
    /// `--f64_precision count`: deficits explained by f64 rounding alone are counted, not reported
    f64_class_counted_only: bool,
}

/// judge a family; every horizon is one evaluation
fn run_family(ctx: &Ctx, local: &mut Local, f: &Family, mode: &str) {
    let mut c = f.price; // c(0)
    let mut prev: Option<u64> = None;
    let witness = |h: u32| {
        json!({"seed": ctx.seed, "shard": ctx.shard, "mode": mode, "path": f.path.name(),
               "price": f.price.to_string(), "pct": f.pct.to_string(), "base": f.base, "max_h": f.max_h, "failing_h": h})
    };
    for h in 0..=f.max_h {
        if h > 0 {
            c = compound_step(c, f.pct);
        }
        local.eval();
        local.count(&format!("calls.{}", region(h as u64, f.pct)));
        if f.price < COMPENSATION_CUTOFF / 2 && c >= COMPENSATION_CUTOFF && c < COMPENSATION_CUTOFF.saturating_mul(2) {
            local.count("observed.compounded_just_above_cutoff_from_price_well_below");
            if (5..=10).contains(&h) && (f.pct == 30 || f.pct == 50) {
                local.count("observed.compounded_just_above_cutoff.pct30or50_blocks5to10");
            }
        }
        if c == u64::MAX && f.price != u64::MAX {
            local.count("observed.compounded_saturated");
        }
        let got = match estimate(f, h) {
            Ok(v) => v,
            Err(p) => {
                // percentages of the components this entry point evaluates (AlgorithmV1 always
                // evaluates both its execution and its DA component; the unused one has 0 %)
                let pcts: &[u64] = match f.path {
                    Path::AlgoExec | Path::AlgoDa => &[f.pct, 0],
                    _ => &[f.pct],
                };
                let hh = h as u64;
                let edge = pcts
                    .iter()
                    .any(|q| (hh == TABLE_EDGE && *q <= TABLE_EDGE) || (*q == TABLE_EDGE && hh <= TABLE_EDGE));
                let s = if p.contains("index out of bounds") {
                    if edge { "panic index_out_of_bounds table_edge".to_string() } else { "panic index_out_of_bounds elsewhere".to_string() }
                } else if p.contains("overflow") {
                    format!("panic arithmetic_overflow region={}", region(h as u64, f.pct))
                } else {
                    format!("panic other region={}", region(h as u64, f.pct))
                };
                local.count("observed.panic");
                local.violation(
                    ctx.report,
                    sig(ctx.st, &s),
                    || format!("{} panicked for price {} pct {} horizon {h} (base height {}): {p}", f.path.name(), f.price, f.pct, f.base),
                    || witness(h),
                );
                // the chain for monotonicity is interrupted at a failing horizon
                prev = None;
                continue;
            }
        };
        let mut got_obs = got;
        if ctx.st == Some(1) && h == 7 {
            // self-test 1: corrupt one observed estimate downwards
            got_obs = got / 2;
        }
        if ctx.st == Some(2) && h % 2 == 1 {
            // self-test 2: feed the oracle the estimate of the previous horizon (a stale-by-one wrapper)
            got_obs = estimate(f, h - 1).unwrap_or(got);
        }
        if ctx.st == Some(3) {
            // self-test 3: a wrapper that rounds the estimate down to a multiple of 1024
            got_obs = got & !1023;
        }
        if ctx.st == Some(4) && f.price < COMPENSATION_CUTOFF && got > COMPENSATION_CUTOFF + COMPENSATION && got < u64::MAX {
            // self-test 4: a wrapper that decides the +2000 compensation from the *input* price
            // instead of the compounded product, i.e. the compensation is missing here
            got_obs = got - COMPENSATION;
        }
        if let Some(p) = prev {
            if got_obs < p {
                let reg = if region(h as u64 - 1, f.pct) != region(h as u64, f.pct) {
                    "table->formula".to_string()
                } else {
                    region(h as u64, f.pct).to_string()
                };
                local.violation(
                    ctx.report,
                    sig(ctx.st, &format!("not_monotone_in_horizon region={reg}")),
                    || {
                        format!(
                            "{}: f({})={p} > f({h})={got_obs} for price {} pct {} (base height {})",
                            f.path.name(), h - 1, f.price, f.pct, f.base
                        )
                    },
                    || witness(h),
                );
            }
        }
        if got_obs < c {
            let deficit = c - got_obs;
            // Classification only (the verdict is the strict comparison above).
            // `bound` = rounding error that the f64 evaluation of price*(1+pct/100)^h as
            // exp(h*ln(1+pct/100)) can legitimately accumulate, in units in the last place of
            // the result: the base 1+pct/100 is rounded once and that error is amplified h
            // times (h units); ln() and the product h*ln() each perturb the exponent
            // y = ln(c/price) relatively, which exp() turns into ~y units each (2y, with
            // y <= 0.7*log2(c/price)); exp itself, the u64->f64 conversion and the final
            // product add one each (3).
            let log2_ratio = (64 - c.leading_zeros()).saturating_sub(63 - f.price.max(1).leading_zeros()) as u128;
            let units: u128 = h as u128 + 3 + (14 * log2_ratio) / 10 + 2;
            let bound: u128 = (units * (c as u128)) >> 52;
            let above_cutoff = (c as u128) > COMPENSATION_CUTOFF as u128 + bound;
            let s = if !above_cutoff {
                // Below the documented cutoff (or within rounding distance of it, where the
                // estimator's own f64 comparison may fall either way) the code documents no
                // compensation at all.
                if (deficit as u128) <= bound {
                    local.count("observed.deficit_within_f64_precision.below_cutoff");
                    if ctx.f64_class_counted_only {
                        prev = Some(got_obs);
                        continue;
                    }
                    "below_compounded f64_precision_only region=below_compensation_cutoff".to_string()
                } else {
                    format!("below_compounded region={} magnitude{}", region(h as u64, f.pct), magnitude(c))
                }
            } else if bound > COMPENSATION as u128 && deficit as u128 + COMPENSATION as u128 <= bound {
                // Above the cutoff the documented +2000 was added, so the raw error is
                // deficit+2000. Only where the rounding bound itself exceeds 2000 can float
                // rounding alone defeat the compensation.
                local.count("observed.deficit_within_f64_precision.above_cutoff_rounding_exceeds_compensation");
                if ctx.f64_class_counted_only {
                    prev = Some(got_obs);
                    continue;
                }
                "below_compounded f64_precision_only region=above_compensation_cutoff rounding_bound_exceeds_2000".to_string()
            } else {
                // the documented compensation must cover float rounding here
                "below_compounded region=above_compensation_cutoff".to_string()
            };
            local.violation(
                ctx.report,
                sig(ctx.st, &s),
                || {
                    format!(
                        "{}: estimate {got_obs} < compounded price {c} (deficit {deficit}) for price {} pct {} horizon {h} (base height {})",
                        f.path.name(), f.price, f.pct, f.base
                    )
                },
                || witness(h),
            );
        } else {
            local.count("oracle.bound_held");
        }
        if got == u64::MAX {
            local.count("observed.estimate_saturated");
        }
        prev = Some(got_obs);
    }
    // evidence
    let crosses = f.max_h as u64 > TABLE_EDGE && f.pct <= TABLE_EDGE;
    if crosses {
        local.count("families.crossing_table_edge_in_horizon");
    }
    if f.price > 0 && f.pct > 0 && f.max_h > 0 {
        local.distinct(hash64(&(f.path, f.price, f.pct, f.max_h)));
    }
}

pub fn prices() -> Vec<u64> {
    let p53 = 1u64 << 53;
    vec![
        0,
        1,
        2,
        3,
        7,
        99,
        100,
        101,
        1_000,
        12_345,
        1_000_000,
        1_000_000_007,
        1_000_000_000_000,
        10u64.pow(14),
        10u64.pow(15),
        2 * 10u64.pow(15),
        3 * 10u64.pow(15),
        5 * 10u64.pow(15),
        p53 / 4096,
        p53 / 64,
    ]
}

/// prices at and above 2^53 where f64 cannot represent every integer
pub fn big_prices() -> Vec<u64> {
    let p53 = 1u64 << 53;
    vec![p53 - 1, p53, p53 + 1, 10u64.pow(16), 16948547188989277, 10u64.pow(17), 10u64.pow(18), u64::MAX / 2, u64::MAX - 1, u64::MAX]
}

pub fn run(args: &Args, report: &Report) {
    let st = selftest(args);
    let f64c = args.extra.get("f64_precision").map(|v| v == "count").unwrap_or(false);
    report.info("f64_precision_class", json!(if f64c { "counted only (observed.deficit_within_f64_precision)" } else { "reported as violation" }));
    let rule = "exhaustive grid: every horizon 0..=64 x every percentage 0..=64 x a fixed price set (0,1,2,3,7,99,100,101,1e3,12345,\
                1e6,1e9+7,1e12,1e14,1e15,2e15,3e15,5e15,2^41,2^47 and the >=2^53 set 2^53-1,2^53,2^53+1,1e16,cutoff,1e17,1e18,u64::MAX/2,u64::MAX-1,\
                u64::MAX) x 2 base heights x 4 entry points — this contains the whole precomputed table, its edges and the \
                table/formula boundary in both directions; plus seeded random families (log-uniform prices, percentages up to \
                u16::MAX resp. u64 extremes on the direct path, horizons up to 2000). One evaluation = one (entry point, price, \
                percentage, horizon). distinct_nontrivial = distinct (entry point, price>0, pct>0, horizon>0 range) families";
    let assumptions = [
        "the property's 'maximal per-block increase with integer rounding down' is c+floor(c*pct/100), saturating at u64::MAX",
        "target heights do not overflow u32 (GraphQL rejects such horizons before calling the estimator)",
    ];

    if let Some(rp) = read_replay(args) {
        let g = |k: &str| rp.get(k).and_then(|x| x.as_str()).and_then(|s| s.parse::<u64>().ok());
        let n = |k: &str| rp.get(k).and_then(|x| x.as_u64());
        match (g("price"), g("pct"), n("base"), n("max_h")) {
            (Some(price), Some(pct), Some(base), Some(max_h)) => {
                let f = Family {
                    path: Path::from_name(rp.get("path").and_then(|x| x.as_str()).unwrap_or("")),
                    price,
                    pct,
                    base: base as u32,
                    max_h: max_h as u32,
                };
                let ctx = Ctx { report, st, seed: args.seed, shard: 0, f64_class_counted_only: f64c };
                let mut local = Local::new();
                run_family(&ctx, &mut local, &f, "replay");
                local.flush(report);
            }
            _ => report.inconclusive("replay file incomplete"),
        }
        report.finish(args, "exploration", rule, false, &assumptions);
        return;
    }

    // ---- exhaustive grid ---------------------------------------------------
    let max_h: u32 = 64;
    let max_pct: u64 = 64;
    let mut all_prices = prices();
    all_prices.extend(big_prices());
    let paths = [Path::Direct, Path::AlgoExec, Path::AlgoDa, Path::Provider];
    let bases = [0u32, 7_654_321];
    report.info(
        "grid",
        json!({"horizons": [0, max_h], "percentages": [0, max_pct], "prices": all_prices.iter().map(|p| p.to_string()).collect::<Vec<_>>(),
               "bases": bases, "paths": paths.iter().map(|p| p.name()).collect::<Vec<_>>()}),
    );
    {
        let report2 = report.clone();
        let seed = args.seed;
        let all_prices2 = all_prices.clone();
        let shards = (max_pct + 1) as usize;
        run_shards(report, args, shards, move |shard, _s| {
            let ctx = Ctx { report: &report2, st, seed, shard, f64_class_counted_only: f64c };
            let mut local = Local::new();
            let pct = shard as u64;
            for &path in &paths {
                for &base in &bases {
                    for &price in &all_prices2 {
                        let f = Family { path, price, pct, base, max_h };
                        local.count("grid.families");
                        run_family(&ctx, &mut local, &f, "grid");
                    }
                }
            }
            local.flush(&report2);
        });
    }

    // ---- random families -----------------------------------------------------
    {
        let report2 = report.clone();
        let seed = args.seed;
        let per_shard: usize = args.by_tier(1_500, 20_000);
        run_shards(report, args, 32, move |shard, s| {
            let ctx = Ctx { report: &report2, st, seed, shard, f64_class_counted_only: f64c };
            let mut local = Local::new();
            let mut rng = rng_for(s, &[tag("c35-random")]);
            for i in 0..per_shard {
                let path = *pick(&mut rng, &paths);
                // log-uniform price below 2^53 (above it f64 cannot hold every integer; the
                // grid covers that range with fixed prices)
                let bits = rng.gen_range(0..=52u32);
                let price = if bits == 0 { rng.gen_range(0..2u64) } else { rng.gen_range((1u64 << (bits - 1))..(1u64 << bits)) };
                let price = if chance(&mut rng, 15) {
                    // exact-compounding prices: multiples of powers of 100
                    let k = rng.gen_range(1..6u32);
                    (price % 1000 + 1).saturating_mul(100u64.pow(k))
                } else {
                    price
                };
                let pct: u64 = match rng.gen_range(0..10) {
                    0..=3 => rng.gen_range(0..=30),
                    4..=5 => rng.gen_range(20..=30),
                    6 => *pick(&mut rng, &[50u64, 100, 200, 300, 1000]),
                    7 => rng.gen_range(0..=1000),
                    8 => rng.gen_range(0..=u16::MAX as u64),
                    _ => {
                        if path == Path::Direct {
                            *pick(&mut rng, &[u16::MAX as u64 + 1, 1 << 32, u64::MAX / 100, u64::MAX])
                        } else {
                            u16::MAX as u64
                        }
                    }
                };
                let max_h: u32 = match rng.gen_range(0..10) {
                    0..=5 => rng.gen_range(20..=40),
                    6..=8 => rng.gen_range(0..=200),
                    _ => rng.gen_range(0..=2000),
                };
                let base = *pick(&mut rng, &[0u32, 1, 1000, u32::MAX - 2000]);
                let f = Family { path, price, pct, base, max_h };
                local.count("random.families");
                run_family(&ctx, &mut local, &f, "random");
                if i < 2 && report2.wants_sample() {
                    let hs = [0u32, 1, f.max_h / 2, f.max_h];
                    report2.sample(json!({"path": f.path.name(), "price": f.price.to_string(), "pct": f.pct,
                        "horizons": hs, "estimates": hs.iter().map(|h| estimate(&f, *h).map(|v| v.to_string()).unwrap_or_else(|e| e)).collect::<Vec<_>>()}));
                }
            }
            local.flush(&report2);
        });
    }

    if st.is_none() {
        report.require("calls.table", 500_000);
        report.require("calls.formula", 1_000_000);
        report.require("grid.families", 15_000);
        report.require("families.crossing_table_edge_in_horizon", 5_000);
        report.require("oracle.bound_held", 1_000_000);
        report.require("observed.compounded_saturated", 10_000);
        report.require("observed.estimate_saturated", 10_000);
        report.require("random.families", args.by_tier(40_000, 500_000));
        report.require("observed.compounded_just_above_cutoff_from_price_well_below", 10_000);
        report.require("observed.compounded_just_above_cutoff.pct30or50_blocks5to10", 50);
    }
    report.finish(args, "exploration", rule, false, &assumptions);
}
