//! Small helpers shared by the monitors of this crate.

use std::collections::{
    BTreeMap,
    HashSet,
};
use vcommon::{
    Args,
    Report,
};

/// Thread-local accumulation of counters / distinct hashes, flushed once per
/// shard so that the hot loops do not fight over the report mutex.
#[derive(Default)]
pub struct Local {
    counts: BTreeMap<String, u64>,
    distinct: HashSet<u64>,
    evals: u64,
    viol: BTreeMap<String, u64>,
}

impl Local {
    pub fn new() -> Self {
        Self::default()
    }

    pub fn count(&mut self, key: &str) {
        self.add(key, 1);
    }

    pub fn add(&mut self, key: &str, n: u64) {
        if let Some(v) = self.counts.get_mut(key) {
            *v += n;
        } else {
            self.counts.insert(key.to_string(), n);
        }
    }

    pub fn get(&self, key: &str) -> u64 {
        self.counts.get(key).copied().unwrap_or(0)
    }

    pub fn eval(&mut self) {
        self.evals += 1;
    }

    pub fn distinct(&mut self, h: u64) {
        self.distinct.insert(h);
    }

    /// Report a violation; the (possibly expensive) detail and replay values are
    /// only built for the first few occurrences of a signature in this shard,
    /// later ones are only counted.
    pub fn violation(
        &mut self,
        report: &Report,
        signature: String,
        detail: impl FnOnce() -> String,
        replay: impl FnOnce() -> vcommon::serde_json::Value,
    ) {
        let n = self.viol.entry(signature.clone()).or_insert(0);
        *n += 1;
        if *n <= 3 {
            report.violation(signature, detail(), replay());
        } else {
            report.violation(signature, String::new(), vcommon::serde_json::Value::Null);
        }
    }

    pub fn flush(&mut self, report: &Report) {
        for (k, v) in std::mem::take(&mut self.counts) {
            report.add(&k, v);
        }
        for h in std::mem::take(&mut self.distinct) {
            report.distinct_hash(h);
        }
        report.evals(self.evals);
        self.evals = 0;
    }
}

/// `--selftest n` selects harness-side perturbation `n` (1-based); `None` in
/// normal runs.
pub fn selftest(args: &Args) -> Option<u32> {
    args.extra.get("selftest").and_then(|s| s.parse().ok())
}

/// prefix used for every violation signature of a selftest run
pub fn sig(selftest: Option<u32>, s: &str) -> String {
    match selftest {
        Some(n) => format!("selftest:{n}:{s}"),
        None => s.to_string(),
    }
}
