//! C34 — gas prices stay within bounds and change at most the configured rate.
//!
//! System under observation: the real `AlgorithmUpdaterV1`
//! (`update_l2_block_data`, `update_da_record_data`, `algorithm()`).
//!
//! Oracle (from the property text), evaluated after every call:
//!  * execution price >= minimum; DA price within [minimum, maximum]
//!    (on the scaled state and on the prices exposed by `algorithm()`);
//!  * across one L2 block update the execution price moves by at most
//!    `exec_gas_price_change_percent` % of its previous value and the DA price by at
//!    most `max_da_gas_price_change_percent` %. The bound is exact in the scaled domain the
//!    updater works in: |new - old| <= floor(old * pct / 100) (the documented "can only
//!    change by a fixed amount each block" / "maximum percentage ... in a single block"
//!    with integer division; no rounding allowance - a move of 1 when old*pct/100 < 1
//!    exceeds the percentage). Only a value that was outside its bounds and lands exactly
//!    on the bound it was clamped to is exempt; the same
//!    per-call DA rate is required from a DA record update;
//!  * an L2 update for a height other than the next one returns an error and
//!    leaves the updater and the unrecorded-blocks map unchanged.

use crate::util::{
    Local,
    selftest,
    sig,
};
use fuel_gas_price_algorithm::v1::{
    AlgorithmUpdaterV1,
    AlgorithmV1,
    Bytes,
    ClampedPercentage,
    DAGasPriceSafetyMode,
    Height,
    L2ActivityTracker,
    UnrecordedBlocks,
};
use std::{
    collections::BTreeMap,
    num::NonZeroU64,
};
use vcommon::{
    rand::Rng,
    serde_json::{
        Value,
        json,
    },
    *,
};

#[derive(Clone, Debug)]
pub enum Step {
    /// consecutive L2 block
    L2 { used: u64, capacity: u64, bytes: u64, fee: u128 },
    /// L2 block with a wrong height
    L2Wrong { height: u32, used: u64, capacity: u64, bytes: u64, fee: u128 },
    /// DA record over heights lo..=hi (possibly empty)
    Da { lo: u32, hi: u32, bytes: u32, cost: u128 },
}

impl Step {
    fn to_json(&self) -> Value {
        match self {
            Step::L2 { used, capacity, bytes, fee } => {
                json!({"k": "l2", "used": used.to_string(), "capacity": capacity.to_string(), "bytes": bytes.to_string(), "fee": fee.to_string()})
            }
            Step::L2Wrong { height, used, capacity, bytes, fee } => {
                json!({"k": "l2wrong", "height": height, "used": used.to_string(), "capacity": capacity.to_string(), "bytes": bytes.to_string(), "fee": fee.to_string()})
            }
            Step::Da { lo, hi, bytes, cost } => {
                json!({"k": "da", "lo": lo, "hi": hi, "bytes": bytes, "cost": cost.to_string()})
            }
        }
    }
    fn from_json(v: &Value) -> Option<Step> {
        let s = |k: &str| v.get(k).and_then(|x| x.as_str()).map(|x| x.to_string());
        let n64 = |k: &str| s(k).and_then(|x| x.parse::<u64>().ok());
        let n128 = |k: &str| s(k).and_then(|x| x.parse::<u128>().ok());
        let n32 = |k: &str| v.get(k).and_then(|x| x.as_u64()).map(|x| x as u32);
        Some(match v.get("k")?.as_str()? {
            "l2" => Step::L2 { used: n64("used")?, capacity: n64("capacity")?, bytes: n64("bytes")?, fee: n128("fee")? },
            "l2wrong" => Step::L2Wrong {
                height: n32("height")?,
                used: n64("used")?,
                capacity: n64("capacity")?,
                bytes: n64("bytes")?,
                fee: n128("fee")?,
            },
            "da" => Step::Da { lo: n32("lo")?, hi: n32("hi")?, bytes: n32("bytes")?, cost: n128("cost")? },
            _ => return None,
        })
    }
}

/// configurations in which price * pct / 100 is below one unit most of the time while the
/// PID controller keeps receiving non-zero profit / loss signals
fn gen_tiny_updater(rng: &mut rand::rngs::StdRng) -> AlgorithmUpdaterV1 {
    let min_exec = *pick(rng, &[0u64, 1, 3]);
    let min_da = *pick(rng, &[0u64, 1, 3]);
    let max_da = min_da + *pick(rng, &[2u64, 10, 60, 500, 1_000_000]);
    let small_pct: [u16; 8] = [0, 1, 1, 2, 5, 10, 10, 50];
    let comp: [i64; 8] = [1, -1, 2, -2, 10, -10, 1000, 0];
    let (mut p, d) = (*pick(rng, &comp), *pick(rng, &comp));
    if p == 0 && d == 0 {
        p = 1;
    }
    let activity = L2ActivityTracker::new(
        rng.gen_range(0..4),
        rng.gen_range(0..4),
        rng.gen_range(0..4),
        rng.gen_range(0..12),
        ClampedPercentage::new(*pick(rng, &[0u8, 20, 50, 100])),
    );
    AlgorithmUpdaterV1 {
        new_scaled_exec_price: min_exec + rng.gen_range(0..120),
        min_exec_gas_price: min_exec,
        exec_gas_price_change_percent: *pick(rng, &small_pct),
        l2_block_height: *pick(rng, &[0u32, 1, 1000]),
        l2_block_fullness_threshold_percent: ClampedPercentage::new(*pick(rng, &[1u8, 50, 99])),
        new_scaled_da_gas_price: (min_da + rng.gen_range(0..120)).min(max_da),
        gas_price_factor: NonZeroU64::new(1).unwrap(),
        min_da_gas_price: min_da,
        max_da_gas_price: max_da,
        max_da_gas_price_change_percent: *pick(rng, &small_pct),
        total_da_rewards: *pick(rng, &[0u128, 1_000, 1_000_000]),
        latest_known_total_da_cost: *pick(rng, &[0u128, 1_000, 1_000_000]),
        projected_total_da_cost: *pick(rng, &[0u128, 1_000, 1_000_000]),
        da_p_component: p,
        da_d_component: d,
        last_profit: *pick(rng, &[0i128, 5, -5, 1_000_000, -1_000_000]),
        second_to_last_profit: *pick(rng, &[0i128, 5, -5, 1_000_000, -1_000_000]),
        latest_da_cost_per_byte: *pick(rng, &[0u128, 1, 100]),
        l2_activity: activity,
        unrecorded_blocks_bytes: 0,
    }
}

fn gen_updater(rng: &mut rand::rngs::StdRng) -> AlgorithmUpdaterV1 {
    if chance(rng, 35) {
        return gen_tiny_updater(rng);
    }
    let factor = *pick(rng, &[1u64, 1, 2, 100, 1_000_000]);
    let min_exec = *pick(rng, &[0u64, 1, 10, 1000]);
    let min_da = *pick(rng, &[0u64, 1, 10, 1000]);
    let max_da = match rng.gen_range(0..6) {
        0 => min_da,
        1 => min_da + 1,
        2 => min_da.saturating_mul(10).max(5),
        3 => 1_000_000,
        4 => u64::MAX / factor,
        _ => min_da + rng.gen_range(0..1000),
    };
    let pcts: [u16; 12] = [0, 1, 2, 5, 10, 50, 99, 100, 101, 250, 1000, u16::MAX];
    let exec_pct = *pick(rng, &pcts);
    let da_pct = *pick(rng, &pcts);
    let comp: [i64; 15] = [0, 1, -1, 2, -2, 10, -10, 100, -100, 1000, -1000, 1_000_000, -1_000_000, i64::MAX, i64::MIN];
    let lo_exec = min_exec * factor;
    let (lo_da, hi_da) = (min_da * factor, max_da.saturating_mul(factor));
    // initial prices: mostly inside the bounds, sometimes outside
    let exec0 = match rng.gen_range(0..10) {
        0 => lo_exec.saturating_sub(rng.gen_range(0..5)),
        1 => 0,
        2 => u64::MAX - rng.gen_range(0..3),
        3 => lo_exec,
        _ => lo_exec.saturating_add(rng.gen_range(0..10_000u64).saturating_mul(*pick(rng, &[1u64, 1000, 1_000_000_000]))),
    };
    let da0 = match rng.gen_range(0..10) {
        0 => lo_da.saturating_sub(1),
        1 => hi_da.saturating_add(1),
        2 => lo_da,
        3 => hi_da,
        _ => {
            let span = hi_da - lo_da;
            lo_da + if span == 0 { 0 } else { rng.gen_range(0..=span.min(1_000_000_000)) }
        }
    };
    let activity = L2ActivityTracker::new(
        rng.gen_range(0..6),
        rng.gen_range(0..6),
        rng.gen_range(0..6),
        rng.gen_range(0..20),
        ClampedPercentage::new(*pick(rng, &[0u8, 1, 20, 50, 99, 100, 200])),
    );
    AlgorithmUpdaterV1 {
        new_scaled_exec_price: exec0,
        min_exec_gas_price: min_exec,
        exec_gas_price_change_percent: exec_pct,
        l2_block_height: *pick(rng, &[0u32, 1, 7, 1000, 1 << 20]),
        l2_block_fullness_threshold_percent: ClampedPercentage::new(*pick(rng, &[0u8, 1, 50, 99, 100, 150])),
        new_scaled_da_gas_price: da0,
        gas_price_factor: NonZeroU64::new(factor).unwrap(),
        min_da_gas_price: min_da,
        max_da_gas_price: max_da,
        max_da_gas_price_change_percent: da_pct,
        total_da_rewards: *pick(rng, &[0u128, 1, 1_000_000, u128::MAX / 2, u128::MAX]),
        latest_known_total_da_cost: *pick(rng, &[0u128, 1, 1_000_000, u128::MAX / 2]),
        projected_total_da_cost: *pick(rng, &[0u128, 1, 1_000_000, u128::MAX / 2]),
        da_p_component: *pick(rng, &comp),
        da_d_component: *pick(rng, &comp),
        last_profit: *pick(rng, &[0i128, 1, -1, 1_000_000, -1_000_000, i128::MAX, i128::MIN]),
        second_to_last_profit: *pick(rng, &[0i128, 1, -1, 1_000_000, -1_000_000, i128::MAX, i128::MIN]),
        latest_da_cost_per_byte: *pick(rng, &[0u128, 1, 100, 1_000_000_000, u128::MAX]),
        l2_activity: activity,
        unrecorded_blocks_bytes: *pick(rng, &[0u128, 0, 1000, u128::MAX]),
    }
}

fn gen_step(rng: &mut rand::rngs::StdRng, next_height: u32, first_height: u32) -> Step {
    let capacity = *pick(rng, &[1u64, 100, 1_000_000, 30_000_000, u64::MAX]);
    let used = match rng.gen_range(0..8) {
        0 => 0,
        1 => capacity,
        2 => capacity / 2,
        3 => capacity.saturating_add(1),
        4 => u64::MAX,
        5 => capacity / 100,
        _ => rng.gen_range(0..=capacity),
    };
    let bytes = *pick(rng, &[0u64, 1, 100, 1000, 100_000, u64::MAX]);
    let fee = *pick(rng, &[0u128, 1, 1000, 1_000_000_000, 1_000_000_000_000_000_000, u128::MAX]);
    match rng.gen_range(0..100) {
        0..=64 => Step::L2 { used, capacity, bytes, fee },
        65..=77 => {
            let height = match rng.gen_range(0..6) {
                0 => next_height.wrapping_sub(1), // the current height again
                1 => next_height + 1,             // skipping one
                2 => 0,
                3 => next_height.wrapping_sub(2),
                4 => u32::MAX,
                _ => rng.r#gen::<u32>(),
            };
            if height == next_height {
                Step::L2 { used, capacity, bytes, fee }
            } else {
                Step::L2Wrong { height, used, capacity, bytes, fee }
            }
        }
        _ => {
            let span = next_height - first_height;
            let lo = first_height + if span == 0 { 0 } else { rng.gen_range(0..=span) };
            let (lo, hi) = match rng.gen_range(0..5) {
                0 => (lo + 1, lo), // empty
                1 => (lo, lo),
                _ => (lo, lo + rng.gen_range(0..6)),
            };
            Step::Da {
                lo,
                hi,
                bytes: *pick(rng, &[0u32, 1, 100, 1_000_000, u32::MAX]),
                cost: *pick(rng, &[0u128, 1, 1_000_000_000, 100_000_000_000_000_000_000, u128::MAX]),
            }
        }
    }
}

/// parse `name: <digits>` out of the Debug rendering of AlgorithmV1 (its fields are private)
fn field(dbg: &str, name: &str) -> Option<u64> {
    let i = dbg.find(&format!("{name}: "))?;
    let rest = &dbg[i + name.len() + 2..];
    let num: String = rest.chars().take_while(|c| c.is_ascii_digit()).collect();
    num.parse().ok()
}

/// the unrecorded-blocks port: a map that counts the mutations it receives
#[derive(Default)]
struct Unrecorded {
    map: BTreeMap<Height, Bytes>,
    mutations: u64,
}

impl UnrecordedBlocks for Unrecorded {
    fn insert(&mut self, height: Height, bytes: Bytes) -> Result<(), String> {
        self.mutations += 1;
        self.map.insert(height, bytes);
        Ok(())
    }
    fn remove(&mut self, height: &Height) -> Result<Option<Bytes>, String> {
        self.mutations += 1;
        Ok(self.map.remove(height))
    }
}

struct View {
    exec: u64,
    da: u64,
    for_height: u64,
    calculate: u64,
}

fn view(a: &AlgorithmV1) -> Option<View> {
    let d = format!("{a:?}");
    Some(View {
        exec: field(&d, "new_exec_price")?,
        da: field(&d, "new_da_gas_price")?,
        for_height: field(&d, "for_height")?,
        calculate: a.calculate(),
    })
}

struct Ctx<'a> {
    report: &'a Report,
    st: Option<u32>,
    seed: u64,
    shard: usize,
}

struct Bounds {
    lo_exec: u64,
    lo_da: u64,
    hi_da: u64,
}

fn bounds(u: &AlgorithmUpdaterV1) -> Option<Bounds> {
    let f = u.gas_price_factor.get();
    Some(Bounds {
        lo_exec: u.min_exec_gas_price.checked_mul(f)?,
        lo_da: u.min_da_gas_price.checked_mul(f)?,
        hi_da: u.max_da_gas_price.saturating_mul(f),
    })
}

/// largest move the configured percentage permits from `old` (exact, scaled domain)
fn allowed_move(old: u64, pct: u16) -> u128 {
    (old as u128) * (pct as u128) / 100
}

/// |new - old| <= floor(old*pct/100), unless `old` was outside its bounds and `new`
/// sits exactly on the bound it was clamped to
fn rate_ok(old: u64, new: u64, pct: u16, clamp_up_to: Option<u64>, clamp_down_to: Option<u64>) -> bool {
    let allowed = allowed_move(old, pct);
    if new > old {
        (new - old) as u128 <= allowed || clamp_up_to.is_some_and(|lo| new == lo && old < lo)
    } else {
        (old - new) as u128 <= allowed || clamp_down_to.is_some_and(|hi| new == hi && old > hi)
    }
}

fn run_sequence(
    ctx: &Ctx,
    local: &mut Local,
    init: &AlgorithmUpdaterV1,
    steps: &[Step],
    mode: &str,
    config_id: u64,
) -> bool {
    let mut u = init.clone();
    let mut unrecorded = Unrecorded::default();
    let b = match bounds(&u) {
        Some(b) => b,
        None => {
            local.count("excluded.min_times_factor_overflows");
            return true;
        }
    };
    let mut exec_established = u.new_scaled_exec_price >= b.lo_exec;
    let mut da_established = u.new_scaled_da_gas_price >= b.lo_da && u.new_scaled_da_gas_price <= b.hi_da;
    let witness = |upto: usize| {
        json!({"seed": ctx.seed, "shard": ctx.shard, "mode": mode, "config": config_id,
               "init_postcard_hex": postcard::to_allocvec(init).map(hex::encode).unwrap_or_default(),
               "init_debug": format!("{init:?}"),
               "steps": steps[..upto].iter().map(|s| s.to_json()).collect::<Vec<_>>()})
    };
    for (i, step) in steps.iter().enumerate() {
        local.eval();
        let before = u.clone();
        let unrec_before = unrecorded.mutations;
        let mut fail: Option<(String, String)> = None;
        let mut l2_ok = false;
        let mut da_ok = false;
        match step {
            Step::L2 { used, capacity, bytes, fee } => {
                let h = before.l2_block_height + 1;
                let cap = NonZeroU64::new(*capacity).unwrap();
                match catch(|| u.update_l2_block_data(h, *used, cap, *bytes, *fee, &mut unrecorded)) {
                    Ok(Ok(())) => {
                        l2_ok = true;
                        local.count("steps.l2_ok");
                    }
                    Ok(Err(e)) => {
                        fail = Some(("consecutive_l2_update_rejected".into(), format!("height {h}: {e:?}")));
                    }
                    Err(p) => {
                        ctx.report.inconclusive(format!("update_l2_block_data panicked: {p}; witness {}", witness(i + 1)));
                        return false;
                    }
                }
            }
            Step::L2Wrong { height, used, capacity, bytes, fee } => {
                let cap = NonZeroU64::new(*capacity).unwrap();
                let r = catch(|| u.update_l2_block_data(*height, *used, cap, *bytes, *fee, &mut unrecorded));
                if ctx.st == Some(2) {
                    // self-test 2: a wrapper that touches the state on the rejected path
                    u.total_da_rewards = u.total_da_rewards.wrapping_add(1);
                }
                match r {
                    Ok(Ok(())) => {
                        fail = Some((
                            "nonconsecutive_l2_update_accepted".into(),
                            format!("height {height} accepted while the next height is {}", before.l2_block_height + 1),
                        ));
                    }
                    Ok(Err(_)) => {
                        local.count("steps.l2_rejected_wrong_height");
                        if u != before {
                            fail = Some((
                                "nonconsecutive_l2_update_changed_state".into(),
                                format!("rejected update for height {height} changed the updater: before {before:?} after {u:?}"),
                            ));
                        } else if unrecorded.mutations != unrec_before {
                            fail = Some((
                                "nonconsecutive_l2_update_changed_unrecorded_blocks".into(),
                                format!("rejected update for height {height} changed the unrecorded blocks"),
                            ));
                        }
                    }
                    Err(p) => {
                        ctx.report.inconclusive(format!("update_l2_block_data panicked: {p}"));
                        return false;
                    }
                }
            }
            Step::Da { lo, hi, bytes, cost } => {
                #[allow(clippy::reversed_empty_ranges)]
                let r = catch(|| u.update_da_record_data(*lo..=*hi, *bytes, *cost, &mut unrecorded));
                match r {
                    Ok(Ok(())) => {
                        if lo <= hi {
                            da_ok = true;
                            local.count("steps.da_record_ok");
                        } else {
                            local.count("steps.da_record_empty_range");
                            if u != before {
                                fail = Some((
                                    "empty_da_record_changed_state".into(),
                                    "DA record update with an empty height range changed the updater".into(),
                                ));
                            }
                        }
                    }
                    Ok(Err(_)) => local.count("steps.da_record_err"),
                    Err(p) => {
                        ctx.report.inconclusive(format!("update_da_record_data panicked: {p}"));
                        return false;
                    }
                }
            }
        }

        // ---- observation ----------------------------------------------------
        let (old_exec, old_da) = (before.new_scaled_exec_price, before.new_scaled_da_gas_price);
        let (mut new_exec, mut new_da) = (u.new_scaled_exec_price, u.new_scaled_da_gas_price);
        if ctx.st == Some(1) && l2_ok {
            // self-test 1: corrupt the observed execution price beyond the allowed rate
            let allowed = ((old_exec as u128) * (u.exec_gas_price_change_percent as u128) / 100) as u64;
            new_exec = old_exec.saturating_add(allowed).saturating_add(5);
        }
        if ctx.st == Some(3) && (l2_ok || da_ok) {
            // self-test 3: corrupt the observed DA price above its maximum
            new_da = b.hi_da.saturating_add(1);
        }
        if ctx.st == Some(4)
            && (l2_ok || da_ok)
            && old_da > b.lo_da
            && old_da < b.hi_da
            && allowed_move(old_da, u.max_da_gas_price_change_percent) == 0
        {
            // self-test 4: the observed DA price creeps by one unit although the configured
            // percentage of the previous price rounds down to zero (a `max_change().max(1)` style bug)
            new_da = old_da + 1;
        }
        if l2_ok {
            exec_established = true;
        }
        if l2_ok || da_ok {
            da_established = true;
        }
        if fail.is_none() && exec_established && new_exec < b.lo_exec {
            fail = Some((
                "exec_price_below_min".into(),
                format!("scaled exec price {new_exec} < min {} ", b.lo_exec),
            ));
        }
        if fail.is_none() && da_established {
            if new_da < b.lo_da {
                fail = Some(("da_price_out_of_bounds side=below_min".into(), format!("scaled DA price {new_da} < min {}", b.lo_da)));
            } else if new_da > b.hi_da {
                fail = Some(("da_price_out_of_bounds side=above_max".into(), format!("scaled DA price {new_da} > max {}", b.hi_da)));
            }
        }
        if fail.is_none() && l2_ok {
            if !rate_ok(old_exec, new_exec, u.exec_gas_price_change_percent, Some(b.lo_exec), None) {
                let dir = if new_exec > old_exec { "up" } else { "down" };
                fail = Some((
                    format!("exec_rate_exceeded dir={dir}"),
                    format!("exec price {old_exec} -> {new_exec} with {}% allowed", u.exec_gas_price_change_percent),
                ));
            }
            if new_exec == b.lo_exec && new_exec != old_exec {
                local.count("events.exec_clamped_to_min");
            }
            let allowed = allowed_move(old_exec, u.exec_gas_price_change_percent);
            if allowed == 0 && old_exec > 0 {
                // the percentage of a positive price rounds down to nothing: no move permitted
                local.count("rate.exec_allowed_zero_price_positive");
            }
            if allowed > 0 && (new_exec as i128 - old_exec as i128).unsigned_abs() == allowed {
                local.count("rate.exec_moved_exactly_allowed");
            }
            if new_exec > old_exec {
                local.count("events.exec_up");
            } else if new_exec < old_exec {
                local.count("events.exec_down");
            }
        }
        if fail.is_none() && (l2_ok || da_ok) {
            if !rate_ok(old_da, new_da, u.max_da_gas_price_change_percent, Some(b.lo_da), Some(b.hi_da)) {
                let dir = if new_da > old_da { "up" } else { "down" };
                let via = if l2_ok { "l2_update" } else { "da_record" };
                fail = Some((
                    format!("da_rate_exceeded dir={dir} via={via}"),
                    format!("DA price {old_da} -> {new_da} with {}% allowed", u.max_da_gas_price_change_percent),
                ));
            }
            let allowed = allowed_move(old_da, u.max_da_gas_price_change_percent);
            if allowed == 0 && old_da > 0 {
                local.count("rate.da_allowed_zero_price_positive");
                // evidence that the controller wanted to move although nothing is permitted:
                // the (post-update) profit is at least one P unit, or the profit slope one D unit
                let p_signal = u.da_p_component != 0
                    && u.last_profit.unsigned_abs() >= (u.da_p_component as i128).unsigned_abs();
                let slope = u.last_profit.saturating_sub(u.second_to_last_profit);
                let d_signal =
                    u.da_d_component != 0 && slope.unsigned_abs() >= (u.da_d_component as i128).unsigned_abs();
                if p_signal || d_signal {
                    local.count("rate.da_allowed_zero_with_profit_signal");
                    if old_da > b.lo_da && old_da < b.hi_da {
                        local.count("rate.da_allowed_zero_with_profit_signal_strictly_inside_bounds");
                    }
                }
                if matches!(u.l2_activity.safety_mode(), DAGasPriceSafetyMode::AlwaysDecrease) {
                    local.count("rate.da_allowed_zero_in_always_decrease_mode");
                }
            }
            if allowed > 0 && (new_da as i128 - old_da as i128).unsigned_abs() == allowed {
                local.count("rate.da_moved_exactly_allowed");
            }
            if new_da != old_da {
                if new_da == b.lo_da {
                    local.count("events.da_at_min_after_move");
                }
                if new_da == b.hi_da {
                    local.count("events.da_at_max_after_move");
                }
                if new_da > old_da {
                    local.count("events.da_up");
                } else {
                    local.count("events.da_down");
                }
            }
            match u.l2_activity.safety_mode() {
                DAGasPriceSafetyMode::Normal => local.count("events.activity_normal"),
                DAGasPriceSafetyMode::Capped => local.count("events.activity_capped"),
                DAGasPriceSafetyMode::AlwaysDecrease => local.count("events.activity_always_decrease"),
            }
        }
        // the exposed algorithm must show the same prices, descaled
        if fail.is_none() {
            match catch(|| u.algorithm()).ok().and_then(|a| view(&a)) {
                Some(v) => {
                    let f = u.gas_price_factor.get();
                    let want_exec = u.new_scaled_exec_price / f;
                    let want_da = u.new_scaled_da_gas_price / f;
                    if v.exec != want_exec || v.da != want_da || v.for_height != u.l2_block_height as u64 {
                        fail = Some((
                            "algorithm_view_mismatch".into(),
                            format!(
                                "algorithm() shows exec {} da {} for_height {}, state has exec {want_exec} da {want_da} height {}",
                                v.exec, v.da, v.for_height, u.l2_block_height
                            ),
                        ));
                    } else if v.calculate != want_exec.saturating_add(want_da) {
                        fail = Some((
                            "algorithm_calculate_not_sum".into(),
                            format!("calculate()={} but exec {want_exec} + da {want_da}", v.calculate),
                        ));
                    } else if exec_established && ctx.st.is_none() && v.exec < u.min_exec_gas_price {
                        fail = Some(("exposed_exec_price_below_min".into(), format!("{} < {}", v.exec, u.min_exec_gas_price)));
                    } else if da_established
                        && ctx.st.is_none()
                        && (v.da < u.min_da_gas_price || v.da > u.max_da_gas_price)
                    {
                        fail = Some((
                            "exposed_da_price_out_of_bounds".into(),
                            format!("{} not in [{}, {}]", v.da, u.min_da_gas_price, u.max_da_gas_price),
                        ));
                    }
                }
                None => {
                    ctx.report.inconclusive("cannot read AlgorithmV1 through its Debug rendering");
                    return false;
                }
            }
        }
        if let Some((s, why)) = fail {
            local.violation(
                ctx.report,
                sig(ctx.st, &s),
                || format!("step {i} {step:?}: {why}"),
                || witness(i + 1),
            );
            return false;
        }
    }
    true
}

pub fn run(args: &Args, report: &Report) {
    let st = selftest(args);
    let rule = "seeded random configurations (percentages 0..=65535 incl. 0, 100, >100; factor 1..1e6; min=max; PID components \
                incl. 0 and i64 extremes; small activity ranges; initial prices inside and outside the bounds; 35% 'tiny' \
                configurations with factor 1, prices 0..120, percentages 0/1/2/5/10/50 and small non-zero P/D so that \
                floor(price*pct/100)=0 under a non-zero profit signal) each driven \
                by a long sequence of consecutive L2 updates, wrong-height L2 updates and DA record batches (empty, recorded \
                and unrecorded heights, zero bytes, costs up to u128::MAX). distinct_nontrivial = distinct configurations whose \
                sequence saw both an exec and a DA price move and at least one rejection";
    let assumptions = [
        "configurations satisfy min_da <= max_da and min * gas_price_factor fits into u64 (others are excluded and counted)",
        "l2 heights stay below u32::MAX",
        "the Debug rendering of AlgorithmV1 shows its (private) prices; cross-checked against calculate()",
    ];

    if let Some(rp) = read_replay(args) {
        let init: Option<AlgorithmUpdaterV1> = rp
            .get("init_postcard_hex")
            .and_then(|v| v.as_str())
            .and_then(|h| hex::decode(h).ok())
            .and_then(|b| postcard::from_bytes(&b).ok());
        let steps: Vec<Step> = rp
            .get("steps")
            .and_then(|o| o.as_array())
            .map(|a| a.iter().filter_map(Step::from_json).collect())
            .unwrap_or_default();
        match init {
            Some(init) => {
                let ctx = Ctx { report, st, seed: args.seed, shard: 0 };
                let mut local = Local::new();
                run_sequence(&ctx, &mut local, &init, &steps, "replay", 0);
                local.flush(report);
            }
            None => report.inconclusive("replay file has no init"),
        }
        report.finish(args, "exploration", rule, false, &assumptions);
        return;
    }

    let shards = 64usize;
    let configs_per_shard: usize = args.by_tier(250, 2_500);
    let steps_per_config: usize = args.by_tier(1_500, 4_000);
    let report2 = report.clone();
    let seed = args.seed;
    run_shards(report, args, shards, move |shard, s| {
        let ctx = Ctx { report: &report2, st, seed, shard };
        let mut local = Local::new();
        for c in 0..configs_per_shard {
            let mut rng = rng_for(s, &[tag("c34"), c as u64]);
            let init = gen_updater(&mut rng);
            let first = init.l2_block_height;
            // generate the whole step list up front (pure function of the rng stream)
            let mut next = first + 1;
            let mut steps = Vec::with_capacity(steps_per_config);
            // a few long sequences per shard, the rest shorter
            let len = if c % 10 == 0 { steps_per_config * 7 } else { steps_per_config / 4 };
            for _ in 0..len {
                let stp = gen_step(&mut rng, next, first);
                if matches!(stp, Step::L2 { .. }) {
                    next += 1;
                }
                steps.push(stp);
            }
            local.count("configs");
            let before = (
                local_get(&local, "events.exec_up") + local_get(&local, "events.exec_down"),
                local_get(&local, "events.da_up") + local_get(&local, "events.da_down"),
                local_get(&local, "steps.l2_rejected_wrong_height"),
            );
            let ok = run_sequence(&ctx, &mut local, &init, &steps, "random", c as u64);
            let after = (
                local_get(&local, "events.exec_up") + local_get(&local, "events.exec_down"),
                local_get(&local, "events.da_up") + local_get(&local, "events.da_down"),
                local_get(&local, "steps.l2_rejected_wrong_height"),
            );
            if ok && after.0 > before.0 && after.1 > before.1 && after.2 > before.2 {
                local.count("configs.nontrivial");
                local.distinct(hash64(&(shard, c)));
                if report2.wants_sample() {
                    report2.sample(json!({
                        "config": {"exec_pct": init.exec_gas_price_change_percent, "da_pct": init.max_da_gas_price_change_percent,
                                   "factor": init.gas_price_factor.get(), "min_exec": init.min_exec_gas_price,
                                   "min_da": init.min_da_gas_price, "max_da": init.max_da_gas_price,
                                   "p": init.da_p_component, "d": init.da_d_component},
                        "first_steps": steps.iter().take(6).map(|s| s.to_json()).collect::<Vec<_>>(),
                        "steps": steps.len(),
                    }));
                }
            }
        }
        local.flush(&report2);
    });

    if st.is_none() {
        report.require("steps.l2_ok", args.by_tier(3_000_000, 30_000_000));
        report.require("steps.l2_rejected_wrong_height", 50_000);
        report.require("steps.da_record_ok", 50_000);
        report.require("steps.da_record_err", 5_000);
        report.require("steps.da_record_empty_range", 5_000);
        report.require("events.exec_up", 50_000);
        report.require("events.exec_down", 50_000);
        report.require("events.exec_clamped_to_min", 1_000);
        report.require("events.da_up", 20_000);
        report.require("events.da_down", 20_000);
        report.require("events.da_at_min_after_move", 500);
        report.require("events.da_at_max_after_move", 500);
        report.require("events.activity_normal", 10_000);
        report.require("events.activity_capped", 10_000);
        report.require("events.activity_always_decrease", 10_000);
        report.require("configs.nontrivial", 500);
        report.require("rate.da_allowed_zero_price_positive", 100_000);
        report.require("rate.da_allowed_zero_with_profit_signal", 50_000);
        report.require("rate.da_allowed_zero_with_profit_signal_strictly_inside_bounds", 20_000);
        report.require("rate.da_allowed_zero_in_always_decrease_mode", 10_000);
        report.require("rate.exec_allowed_zero_price_positive", 100_000);
        report.require("rate.da_moved_exactly_allowed", 10_000);
        report.require("rate.exec_moved_exactly_allowed", 100_000);
    }
    report.finish(args, "exploration", rule, false, &assumptions);
}

fn local_get(local: &Local, key: &str) -> u64 {
    local.get(key)
}
