//! C28 — the sync status always describes the gap to the best known height.
//!
//! System under observation: the real `fuel_core_sync::state::State`
//! (`new`, `observe`, `commit`, `failed_to_process`), observed through
//! `process_range()` and its `Debug` rendering (the only public views).
//!
//! Oracle (not a copy of the transition code): the reference model keeps two
//! numbers, `C` = highest height ever committed (or the initial committed height)
//! and `B` = best height still believed to exist: `observe(h)` raises `B`;
//! a failed range that overlaps the gap `[C+1 (or 0) ..= B]` withdraws the
//! knowledge from its start on (`B := start-1`, or unknown). The status must then
//! be: nothing known -> Uninitialized; `B` unknown or `B <= C` -> Committed(C);
//! otherwise Processing(C+1 or 0 ..= B). Additionally the committed height that the
//! status implies never decreases.

use crate::util::{
    Local,
    selftest,
    sig,
};
use fuel_core_sync::state::State;
use std::collections::{
    HashMap,
    HashSet,
    VecDeque,
};
use vcommon::{
    rand::Rng,
    serde_json::{
        Value,
        json,
    },
    *,
};

#[derive(Clone, Copy, Debug, PartialEq, Eq, Hash)]
pub enum Op {
    Observe(u32),
    Commit(u32),
    /// failed_to_process(a..=b); empty when a > b
    Failed(u32, u32),
}

impl Op {
    fn to_json(self) -> Value {
        match self {
            Op::Observe(h) => json!(["observe", h]),
            Op::Commit(h) => json!(["commit", h]),
            Op::Failed(a, b) => json!(["failed", a, b]),
        }
    }
    fn from_json(v: &Value) -> Option<Op> {
        let a = v.as_array()?;
        let k = a.first()?.as_str()?;
        let x = a.get(1)?.as_u64()? as u32;
        Some(match k {
            "observe" => Op::Observe(x),
            "commit" => Op::Commit(x),
            _ => Op::Failed(x, a.get(2)?.as_u64()? as u32),
        })
    }
}

/// decoded public view of the status
#[derive(Clone, Copy, Debug, PartialEq, Eq, Hash)]
pub enum St {
    Uninitialized,
    Committed(u32),
    Processing(u32, u32),
}

impl St {
    /// committed height implied by the status (None = nothing committed)
    fn implied_committed(self) -> Option<u32> {
        match self {
            St::Uninitialized => None,
            St::Committed(h) => Some(h),
            St::Processing(a, _) => a.checked_sub(1),
        }
    }
}

/// Decode the observable status of the real state.
fn decode(s: &State) -> Result<St, String> {
    let dbg = format!("{s:?}");
    let from_dbg = if dbg.contains("Uninitialized") {
        St::Uninitialized
    } else if let Some(i) = dbg.find("Committed(") {
        let rest = &dbg[i + "Committed(".len()..];
        let num: String = rest.chars().take_while(|c| c.is_ascii_digit()).collect();
        St::Committed(num.parse().map_err(|_| format!("cannot parse {dbg}"))?)
    } else if let Some(i) = dbg.find("Processing(") {
        let rest = &dbg[i + "Processing(".len()..];
        let a: String = rest.chars().take_while(|c| c.is_ascii_digit()).collect();
        let rest = rest[a.len()..].strip_prefix("..=").ok_or_else(|| format!("cannot parse {dbg}"))?;
        let b: String = rest.chars().take_while(|c| c.is_ascii_digit()).collect();
        St::Processing(
            a.parse().map_err(|_| format!("cannot parse {dbg}"))?,
            b.parse().map_err(|_| format!("cannot parse {dbg}"))?,
        )
    } else {
        return Err(format!("cannot parse {dbg}"));
    };
    // the functional view must agree with the rendering
    match (s.process_range(), from_dbg) {
        (Some(r), St::Processing(a, b)) if *r.start() == a && *r.end() == b => Ok(from_dbg),
        (None, St::Uninitialized) | (None, St::Committed(_)) => Ok(from_dbg),
        (pr, _) => Err(format!("process_range() = {pr:?} disagrees with {dbg}")),
    }
}

/// the reference model
#[derive(Clone, Copy, Debug, PartialEq, Eq, Hash)]
pub struct Model {
    c: Option<u32>,
    b: Option<u32>,
}

impl Model {
    fn gap_start(&self) -> Option<u64> {
        match self.c {
            None => Some(0),
            Some(c) => {
                let n = c as u64 + 1;
                (n <= u32::MAX as u64).then_some(n)
            }
        }
    }

    fn gap(&self) -> Option<(u64, u64)> {
        let gs = self.gap_start()?;
        let b = self.b? as u64;
        (b >= gs).then_some((gs, b))
    }

    fn apply(&mut self, op: Op) {
        match op {
            Op::Observe(h) => self.b = Some(self.b.map_or(h, |b| b.max(h))),
            Op::Commit(h) => self.c = Some(self.c.map_or(h, |c| c.max(h))),
            Op::Failed(a, b) => {
                if a > b {
                    return;
                }
                if let Some((gs, ge)) = self.gap() {
                    let (a, b) = (a as u64, b as u64);
                    if a <= ge && b >= gs {
                        self.b = if a >= 1 && a - 1 >= gs { Some((a - 1) as u32) } else { None };
                    }
                }
            }
        }
    }

    fn expected(&self) -> St {
        match self.gap() {
            Some((gs, ge)) => St::Processing(gs as u32, ge as u32),
            None => match self.c {
                Some(c) => St::Committed(c),
                None => St::Uninitialized,
            },
        }
    }
}

fn apply_real(s: &mut State, op: Op) {
    match op {
        Op::Observe(h) => {
            s.observe(h);
        }
        Op::Commit(h) => s.commit(h),
        #[allow(clippy::reversed_empty_ranges)]
        Op::Failed(a, b) => s.failed_to_process(a..=b),
    }
}

/// harness-side wrong wrappers (oracle self-test): what is applied to the real
/// state deviates from what the oracle is told
fn apply_real_perturbed(n: u32, s: &mut State, op: Op) {
    match (n, op) {
        // 1: failures are silently dropped
        (1, Op::Failed(..)) => {}
        // 2: a commit below the committed height resets the state to that height
        (2, Op::Commit(h)) => {
            let before = decode(s).ok();
            s.commit(h);
            if let Some(St::Committed(c)) = before {
                if h < c {
                    *s = State::new(Some(h), None::<u32>);
                }
            }
        }
        // 3: observations are off by one
        (3, Op::Observe(h)) => {
            s.observe(h.saturating_add(1));
        }
        _ => apply_real(s, op),
    }
}

struct Ctx<'a> {
    report: &'a Report,
    st: Option<u32>,
    seed: u64,
}

/// judge one transition; returns false if the pair diverged
fn judge_step(
    ctx: &Ctx,
    local: &mut Local,
    before: St,
    after_real: &State,
    model_after: &Model,
    op: Option<Op>,
    witness: &dyn Fn() -> Value,
) -> bool {
    local.eval();
    let got = match decode(after_real) {
        Ok(g) => g,
        Err(e) => {
            ctx.report.inconclusive(format!("cannot decode state: {e}"));
            return false;
        }
    };
    match got {
        St::Uninitialized => local.count("status.uninitialized"),
        St::Committed(_) => local.count("status.committed"),
        St::Processing(..) => local.count("status.processing"),
    }
    let want = model_after.expected();
    if got != want {
        let kind = match (want, got) {
            (St::Processing(wa, wb), St::Processing(ga, gb)) => {
                if wa != ga {
                    "processing_start_not_after_committed"
                } else if gb < wb {
                    "processing_end_below_best_known"
                } else {
                    "processing_end_above_best_known"
                }
            }
            (St::Processing(..), _) => "gap_exists_but_not_processing",
            (_, St::Processing(..)) => "processing_without_gap",
            (St::Committed(_), St::Committed(_)) => "committed_height_not_highest_committed",
            (St::Committed(_), St::Uninitialized) => "committed_forgotten",
            (St::Uninitialized, St::Committed(_)) => "committed_invented",
            _ => "status_mismatch",
        };
        let opk = match op {
            None => "new",
            Some(Op::Observe(_)) => "observe",
            Some(Op::Commit(_)) => "commit",
            Some(Op::Failed(..)) => "failed",
        };
        local.violation(
            ctx.report,
            sig(ctx.st, &format!("{kind} after={opk}")),
            || format!("after {op:?} from {before:?}: expected {want:?} (model {model_after:?}), observed {got:?}"),
            witness,
        );
        return false;
    }
    if got.implied_committed() < before.implied_committed() {
        local.violation(
            ctx.report,
            sig(ctx.st, "committed_height_decreased"),
            || format!("after {op:?}: status went from {before:?} to {got:?}"),
            witness,
        );
        return false;
    }
    true
}

fn ops_over(universe: &[u32]) -> Vec<Op> {
    let mut ops = Vec::new();
    for &h in universe {
        ops.push(Op::Observe(h));
        ops.push(Op::Commit(h));
    }
    for &a in universe {
        for &b in universe {
            ops.push(Op::Failed(a, b));
        }
    }
    ops
}

fn inits_over(universe: &[u32]) -> Vec<(Option<u32>, Option<u32>)> {
    let mut v: Vec<Option<u32>> = vec![None];
    v.extend(universe.iter().map(|h| Some(*h)));
    let mut out = Vec::new();
    for c in &v {
        for o in &v {
            out.push((*c, *o));
        }
    }
    out
}

fn classify(local: &mut Local, before: St, m_before: &Model, op: Op) -> bool {
    // returns whether the transition is "non-trivial" by the stated rule
    match op {
        Op::Failed(a, b) => {
            if a > b {
                local.count("ops.failed_empty_range");
                return false;
            }
            match m_before.gap() {
                Some((gs, ge)) if (a as u64) <= ge && (b as u64) >= gs => {
                    if (a as u64) <= gs {
                        local.count("ops.failed_covering_gap_start");
                    } else {
                        local.count("ops.failed_inside_or_at_end_of_gap");
                    }
                    true
                }
                Some(_) => {
                    local.count("ops.failed_outside_gap");
                    false
                }
                None => {
                    local.count("ops.failed_while_no_gap");
                    false
                }
            }
        }
        Op::Commit(h) => match before {
            St::Processing(a, b) => {
                if h < a {
                    local.count("ops.commit_below_processing");
                    false
                } else if h < b {
                    local.count("ops.commit_inside_processing");
                    true
                } else {
                    local.count("ops.commit_finishing_processing");
                    true
                }
            }
            St::Committed(c) => {
                if h <= c {
                    local.count("ops.commit_not_above_committed");
                } else {
                    local.count("ops.commit_above_committed");
                }
                false
            }
            St::Uninitialized => {
                local.count("ops.commit_uninitialized");
                false
            }
        },
        Op::Observe(h) => match before {
            St::Processing(_, b) => {
                if h > b {
                    local.count("ops.observe_extends");
                    true
                } else {
                    local.count("ops.observe_not_above_end");
                    false
                }
            }
            St::Committed(c) => {
                if h > c {
                    local.count("ops.observe_opens_gap");
                    true
                } else {
                    local.count("ops.observe_not_above_committed");
                    false
                }
            }
            St::Uninitialized => {
                local.count("ops.observe_uninitialized");
                true
            }
        },
    }
}

/// Closure of the reachable (real state, model) pairs: since both are values
/// whose next value only depends on the current one and the operation, judging
/// every operation from every reachable pair judges every finite sequence.
fn closure(ctx: &Ctx, local: &mut Local, universe: &[u32], name: &str) {
    let ops = ops_over(universe);
    let mut seen: HashSet<(State, Model)> = HashSet::new();
    // path back to an initial state, for witnesses
    let mut parent: HashMap<(State, Model), Option<((State, Model), Op)>> = HashMap::new();
    let mut init_of: HashMap<(State, Model), (Option<u32>, Option<u32>)> = HashMap::new();
    let mut queue = VecDeque::new();
    for (c, o) in inits_over(universe) {
        let s = State::new(c, o);
        let m = Model { c, b: o };
        let w = || json!({"seed": ctx.seed, "mode": "closure", "init": [c, o], "ops": []});
        local.count("closure.initial_states");
        if !judge_step(ctx, local, St::Uninitialized, &s, &m, None, &w) {
            continue;
        }
        if seen.insert((s.clone(), m)) {
            parent.insert((s.clone(), m), None);
            init_of.insert((s.clone(), m), (c, o));
            queue.push_back((s, m));
        }
    }
    let path = |parent: &HashMap<(State, Model), Option<((State, Model), Op)>>,
                init_of: &HashMap<(State, Model), (Option<u32>, Option<u32>)>,
                node: &(State, Model),
                last: Op| {
        let mut ops = vec![last];
        let mut cur = node.clone();
        while let Some(Some((p, op))) = parent.get(&cur) {
            ops.push(*op);
            cur = p.clone();
        }
        ops.reverse();
        let init = init_of.get(&cur).copied().unwrap_or((None, None));
        json!({"seed": ctx.seed, "mode": "closure", "init": [init.0, init.1],
               "ops": ops.iter().map(|o| o.to_json()).collect::<Vec<_>>()})
    };
    while let Some((s, m)) = queue.pop_front() {
        let before = match decode(&s) {
            Ok(b) => b,
            Err(e) => {
                ctx.report.inconclusive(e);
                continue;
            }
        };
        for &op in &ops {
            let mut s2 = s.clone();
            let mut m2 = m;
            match ctx.st {
                Some(n) => apply_real_perturbed(n, &mut s2, op),
                None => apply_real(&mut s2, op),
            }
            m2.apply(op);
            let nontrivial = classify(local, before, &m, op);
            if nontrivial {
                local.distinct(hash64(&("closure", name, before, m, op)));
            }
            local.count("closure.transitions");
            let node = (s.clone(), m);
            let w = || path(&parent, &init_of, &node, op);
            if !judge_step(ctx, local, before, &s2, &m2, Some(op), &w) {
                continue;
            }
            if seen.insert((s2.clone(), m2)) {
                parent.insert((s2.clone(), m2), Some(((s.clone(), m), op)));
                queue.push_back((s2, m2));
            }
        }
    }
    local.add(&format!("closure.reachable_pairs.{name}"), seen.len() as u64);
}

/// run one explicit sequence from an initial state, judging every step
fn run_sequence(
    ctx: &Ctx,
    local: &mut Local,
    init: (Option<u32>, Option<u32>),
    ops: &[Op],
    mode: &str,
    shard: usize,
) -> bool {
    let mut s = State::new(init.0, init.1);
    let mut m = Model { c: init.0, b: init.1 };
    let w = |upto: usize| {
        json!({"seed": ctx.seed, "shard": shard, "mode": mode, "init": [init.0, init.1],
               "ops": ops[..upto].iter().map(|o| o.to_json()).collect::<Vec<_>>()})
    };
    if !judge_step(ctx, local, St::Uninitialized, &s, &m, None, &|| w(0)) {
        return false;
    }
    let mut nontrivial = 0;
    for (i, &op) in ops.iter().enumerate() {
        let before = match decode(&s) {
            Ok(b) => b,
            Err(e) => {
                ctx.report.inconclusive(e);
                return false;
            }
        };
        if classify(local, before, &m, op) {
            nontrivial += 1;
        }
        match ctx.st {
            Some(n) => apply_real_perturbed(n, &mut s, op),
            None => apply_real(&mut s, op),
        }
        m.apply(op);
        if !judge_step(ctx, local, before, &s, &m, Some(op), &|| w(i + 1)) {
            return false;
        }
    }
    if nontrivial >= 2 {
        local.distinct(hash64(&(mode, init, ops)));
        local.count("sequences.nontrivial");
    }
    true
}

/// all sequences of exactly `len` ops (every prefix is judged on the way)
fn dfs(
    ctx: &Ctx,
    local: &mut Local,
    s: &State,
    m: &Model,
    ops: &[Op],
    depth: usize,
    len: usize,
    trail: &mut Vec<Op>,
    init: (Option<u32>, Option<u32>),
    cache: &mut HashMap<State, St>,
) {
    if depth == len {
        local.count("dfs.sequences");
        return;
    }
    let before = match cache.get(s) {
        Some(b) => *b,
        None => match decode(s) {
            Ok(b) => {
                cache.insert(s.clone(), b);
                b
            }
            Err(e) => {
                ctx.report.inconclusive(e);
                return;
            }
        },
    };
    for &op in ops {
        let mut s2 = s.clone();
        let mut m2 = *m;
        match ctx.st {
            Some(n) => apply_real_perturbed(n, &mut s2, op),
            None => apply_real(&mut s2, op),
        }
        m2.apply(op);
        trail.push(op);
        // cheap judgement through the decode cache
        local.eval();
        let got = match cache.get(&s2) {
            Some(g) => Some(*g),
            None => match decode(&s2) {
                Ok(g) => {
                    cache.insert(s2.clone(), g);
                    Some(g)
                }
                Err(e) => {
                    ctx.report.inconclusive(e);
                    None
                }
            },
        };
        let ok = match got {
            Some(g) => g == m2.expected() && g.implied_committed() >= before.implied_committed(),
            None => false,
        };
        if !ok {
            // re-judge through the full path to get signature and witness
            let t = trail.clone();
            let w = || {
                json!({"seed": ctx.seed, "mode": "dfs", "init": [init.0, init.1],
                       "ops": t.iter().map(|o| o.to_json()).collect::<Vec<_>>()})
            };
            judge_step(ctx, local, before, &s2, &m2, Some(op), &w);
        } else {
            dfs(ctx, local, &s2, &m2, ops, depth + 1, len, trail, init, cache);
        }
        trail.pop();
    }
}

pub fn run(args: &Args, report: &Report) {
    let st = selftest(args);
    let rule = "(a) closure: every operation observe(h)/commit(h)/failed(a..=b) (h,a,b in the universe, empty ranges \
                included) applied to every reachable pair (real State, reference model) from every State::new(c,o) — this \
                judges every finite sequence over the universe; (b) every explicit sequence up to a fixed length over a \
                smaller universe; (c) seeded random sequences up to length 40 over small, sparse and near-u32::MAX \
                universes. distinct_nontrivial = distinct (status, model, op) transitions in which the op overlaps the \
                gap / moves the range, plus distinct sequences with >= 2 such ops";
    let assumptions = [
        "the Debug rendering of State shows its status (cross-checked against process_range() on every observation)",
    ];
    let ctx = Ctx { report, st, seed: args.seed };

    if let Some(rp) = read_replay(args) {
        let init = rp.get("init").and_then(|i| i.as_array()).map(|a| {
            (
                a.first().and_then(|x| x.as_u64()).map(|x| x as u32),
                a.get(1).and_then(|x| x.as_u64()).map(|x| x as u32),
            )
        });
        let ops: Vec<Op> = rp
            .get("ops")
            .and_then(|o| o.as_array())
            .map(|a| a.iter().filter_map(Op::from_json).collect())
            .unwrap_or_default();
        match init {
            Some(init) => {
                let mut local = Local::new();
                run_sequence(&ctx, &mut local, init, &ops, "replay", 0);
                local.flush(report);
            }
            None => report.inconclusive("replay file has no init"),
        }
        report.finish(args, "exploration", rule, false, &assumptions);
        return;
    }

    // (a) closures
    let m = u32::MAX;
    let low: Vec<u32> = (0..args.by_tier(8u32, 12)).collect();
    let high: Vec<u32> = (0..args.by_tier(8u32, 12)).map(|i| m - i).rev().collect();
    let mixed: Vec<u32> = vec![0, 1, 2, 5, 1000, m - 2, m - 1, m];
    let mut local = Local::new();
    for (name, u) in [("low", &low), ("high", &high), ("mixed", &mixed)] {
        closure(&ctx, &mut local, u, name);
    }
    local.flush(report);
    report.info("closure_universes", json!({"low": low, "high": high, "mixed": mixed}));

    // (b) explicit exhaustive sequences
    {
        let report2 = report.clone();
        let seed = args.seed;
        let u4: Vec<u32> = vec![0, 1, 2, 3];
        let u3: Vec<u32> = vec![0, 1, 2];
        let len_all_inits: usize = args.by_tier(4, 5);
        let len_from_uninit: usize = args.by_tier(6, 7);
        report.info(
            "dfs",
            json!({"universe4_all_inits_len": len_all_inits, "universe3_from_uninitialized_len": len_from_uninit}),
        );
        let inits = inits_over(&u4);
        let ops4 = ops_over(&u4);
        let ops3 = ops_over(&u3);
        let n_first = ops3.len();
        let total = inits.len() + n_first;
        run_shards(report, args, total, move |shard, _s| {
            let ctx = Ctx { report: &report2, st, seed };
            let mut local = Local::new();
            let mut cache = HashMap::new();
            if shard < inits.len() {
                let init = inits[shard];
                let s = State::new(init.0, init.1);
                let m = Model { c: init.0, b: init.1 };
                let mut trail = Vec::new();
                dfs(&ctx, &mut local, &s, &m, &ops4, 0, len_all_inits, &mut trail, init, &mut cache);
            } else {
                // sequences from Uninitialized, sharded by the first op
                let first = ops3[shard - inits.len()];
                let init = (None, None);
                let mut s = State::new(None::<u32>, None::<u32>);
                let mut m = Model { c: None, b: None };
                match st {
                    Some(n) => apply_real_perturbed(n, &mut s, first),
                    None => apply_real(&mut s, first),
                }
                m.apply(first);
                let w = || json!({"seed": seed, "mode": "dfs", "init": [Value::Null, Value::Null], "ops": [first.to_json()]});
                if judge_step(&ctx, &mut local, St::Uninitialized, &s, &m, Some(first), &w) {
                    let mut trail = vec![first];
                    dfs(&ctx, &mut local, &s, &m, &ops3, 1, len_from_uninit, &mut trail, init, &mut cache);
                }
            }
            local.flush(&report2);
        });
    }

    // (c) random long sequences
    {
        let report2 = report.clone();
        let seed = args.seed;
        let per_shard: usize = args.by_tier(3_000, 40_000);
        run_shards(report, args, 32, move |shard, s| {
            let ctx = Ctx { report: &report2, st, seed };
            let mut local = Local::new();
            let mut rng = rng_for(s, &[tag("c28-random")]);
            for _ in 0..per_shard {
                let universe: Vec<u32> = match rng.gen_range(0..4) {
                    0 => (0..8).collect(),
                    1 => (0..8).map(|i| u32::MAX - 7 + i).collect(),
                    2 => {
                        let mut v: Vec<u32> = (0..8).map(|_| rng.r#gen::<u32>()).collect();
                        v.sort();
                        v
                    }
                    _ => {
                        let base = rng.gen_range(0..1000u32);
                        (0..6).map(|i| base + i * rng.gen_range(1..4)).collect()
                    }
                };
                let pickh = |rng: &mut rand::rngs::StdRng| universe[rng.gen_range(0..universe.len())];
                let init = (
                    chance(&mut rng, 60).then(|| pickh(&mut rng)),
                    chance(&mut rng, 60).then(|| pickh(&mut rng)),
                );
                let len = rng.gen_range(1..=40);
                let ops: Vec<Op> = (0..len)
                    .map(|_| match rng.gen_range(0..10) {
                        0..=3 => Op::Observe(pickh(&mut rng)),
                        4..=6 => Op::Commit(pickh(&mut rng)),
                        _ => {
                            let a = pickh(&mut rng);
                            let b = pickh(&mut rng);
                            if chance(&mut rng, 90) { Op::Failed(a.min(b), a.max(b)) } else { Op::Failed(a, b) }
                        }
                    })
                    .collect();
                local.count("random.sequences");
                let ok = run_sequence(&ctx, &mut local, init, &ops, "random", shard);
                if ok && report2.wants_sample() && ops.len() > 8 {
                    report2.sample(json!({"init": [init.0, init.1],
                        "ops": ops.iter().map(|o| o.to_json()).collect::<Vec<_>>()}));
                }
            }
            local.flush(&report2);
        });
    }

    if st.is_none() {
        report.require("closure.transitions", 15_000);
        report.require("dfs.sequences", args.by_tier(5_000_000, 50_000_000));
        report.require("random.sequences", args.by_tier(50_000, 500_000));
        report.require("sequences.nontrivial", args.by_tier(20_000, 200_000));
        report.require("ops.failed_covering_gap_start", 10_000);
        report.require("ops.failed_inside_or_at_end_of_gap", 10_000);
        report.require("ops.failed_outside_gap", 10_000);
        report.require("ops.commit_inside_processing", 10_000);
        report.require("ops.commit_finishing_processing", 10_000);
        report.require("ops.commit_below_processing", 5_000);
        report.require("ops.observe_extends", 10_000);
        report.require("ops.observe_opens_gap", 10_000);
        report.require("status.uninitialized", 10_000);
        report.require("status.committed", 100_000);
        report.require("status.processing", 100_000);
    }
    report.finish(args, "exploration", rule, st.is_none(), &assumptions);
}
