//! Pure-logic monitors: C27 (sync batching), C28 (sync state), C31 (peer slots
//! and reputation), C34 (gas price bounds / rate), C35 (worst-case estimates).
//! Every monitor drives the real fuel-core code and judges each observed result
//! with an oracle written from the property text.

use vcommon::*;

mod c27;
mod c28;
mod c31;
mod c34;
mod c35;
mod util;

fn main() {
    let args = Args::parse();
    install_quiet_panic_hook();
    let report = Report::new(&args.property);
    match args.property.as_str() {
        "C27" => c27::run(&args, &report),
        "C28" => c28::run(&args, &report),
        "C31" => c31::run(&args, &report),
        "C34" => c34::run(&args, &report),
        "C35" => c35::run(&args, &report),
        other => {
            report.inconclusive(format!("property {other} not implemented in this monitor"));
            report.finish(&args, "exploration", "", false, &[]);
        }
    }
}
