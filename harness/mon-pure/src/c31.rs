//! C31 — peer slots and reputation are accounted correctly.
//!
//! System under observation: the real `fuel_core_p2p::peer_manager::PeerManager`
//! together with the `ConnectionState` sequence-lock reader that
//! `ConnectionTracker::allow_peer` consults during the handshake.
//!
//! Oracle (from the property text): a set-of-connected-peers model.
//!  * the connected non-reserved peers reported by the manager are exactly the
//!    admitted, not yet disconnected ones and never more than the limit;
//!  * a *new* non-reserved peer is admitted (the manager does not ask to
//!    disconnect it) exactly when fewer than `max` non-reserved peers are connected;
//!  * after every operation the handshake-side flag "slot available" equals
//!    (connected non-reserved < max);
//!  * reserved peers are always admitted, and are never handed to the punisher
//!    because of an application or gossip score;
//!  * no reported score exceeds `MAX_APP_SCORE`.

use crate::util::{
    Local,
    selftest,
    sig,
};
use fuel_core_p2p::{
    PeerId,
    peer_manager::{
        ConnectionState,
        PeerManager,
        Punisher,
    },
};
use fuel_core_services::seqlock::SeqLockReader;
use fuel_core_types::services::p2p::peer_reputation::{
    MAX_APP_SCORE,
    MIN_APP_SCORE,
};
use std::collections::{
    BTreeSet,
    HashSet,
};
use vcommon::{
    rand::Rng,
    serde_json::{
        Value,
        json,
    },
    *,
};

#[derive(Clone, Copy, Debug, PartialEq)]
pub enum Op {
    Connect(usize),
    Disconnect(usize),
    Identify(usize),
    Heartbeat(usize, u32),
    AppScore(usize, f64),
    Gossip(usize, f64),
    Decay,
}

impl Op {
    fn kind(&self) -> &'static str {
        match self {
            Op::Connect(_) => "connect",
            Op::Disconnect(_) => "disconnect",
            Op::Identify(_) => "identify",
            Op::Heartbeat(..) => "heartbeat",
            Op::AppScore(..) => "app_score",
            Op::Gossip(..) => "gossip_score",
            Op::Decay => "decay",
        }
    }
    fn to_json(self) -> Value {
        match self {
            Op::Connect(p) => json!(["connect", p]),
            Op::Disconnect(p) => json!(["disconnect", p]),
            Op::Identify(p) => json!(["identify", p]),
            Op::Heartbeat(p, h) => json!(["heartbeat", p, h]),
            Op::AppScore(p, s) => json!(["app_score", p, fmt_f(s)]),
            Op::Gossip(p, s) => json!(["gossip_score", p, fmt_f(s)]),
            Op::Decay => json!(["decay"]),
        }
    }
    fn from_json(v: &Value) -> Option<Op> {
        let a = v.as_array()?;
        let k = a.first()?.as_str()?;
        let p = a.get(1).and_then(|x| x.as_u64()).unwrap_or(0) as usize;
        let f = || a.get(2).and_then(|x| x.as_str()).and_then(|s| s.parse::<f64>().ok());
        Some(match k {
            "connect" => Op::Connect(p),
            "disconnect" => Op::Disconnect(p),
            "identify" => Op::Identify(p),
            "heartbeat" => Op::Heartbeat(p, a.get(2)?.as_u64()? as u32),
            "app_score" => Op::AppScore(p, f()?),
            "gossip_score" => Op::Gossip(p, f()?),
            "decay" => Op::Decay,
            _ => return None,
        })
    }
}

fn fmt_f(f: f64) -> String {
    format!("{f:?}")
}

/// deterministic peer ids (sha2-256 multihash of an index)
fn peer_id(i: usize) -> PeerId {
    let mut bytes = vec![0x12u8, 0x20];
    let mut body = [0u8; 32];
    body[0] = i as u8;
    body[31] = 0xA5;
    bytes.extend_from_slice(&body);
    PeerId::from_bytes(&bytes).expect("valid multihash")
}

#[derive(Default)]
struct RecordingPunisher {
    banned: Vec<PeerId>,
}

impl Punisher for RecordingPunisher {
    fn ban_peer(&mut self, peer_id: PeerId) {
        self.banned.push(peer_id);
    }
}

#[derive(Clone, Debug)]
pub struct Setup {
    pub n_peers: usize,
    pub n_reserved: usize, // peers 0..n_reserved are reserved
    pub max: usize,
}

struct World {
    setup: Setup,
    ids: Vec<PeerId>,
    pm: PeerManager,
    reader: SeqLockReader<ConnectionState>,
    punisher: RecordingPunisher,
    // model: connected peers by index
    connected: BTreeSet<usize>,
    _rx: tokio::sync::broadcast::Receiver<usize>,
}

impl World {
    fn new(setup: &Setup) -> World {
        let ids: Vec<PeerId> = (0..setup.n_peers).map(peer_id).collect();
        let reserved: HashSet<PeerId> = ids[..setup.n_reserved].iter().cloned().collect();
        let (writer, reader) = ConnectionState::new();
        let (tx, rx) = tokio::sync::broadcast::channel(16);
        let pm = PeerManager::new(tx, reserved, writer, setup.max);
        World {
            setup: setup.clone(),
            ids,
            pm,
            reader,
            punisher: RecordingPunisher::default(),
            connected: BTreeSet::new(),
            _rx: rx,
        }
    }

    fn is_reserved(&self, p: usize) -> bool {
        p < self.setup.n_reserved
    }

    fn model_nonreserved(&self) -> usize {
        self.connected.iter().filter(|p| !self.is_reserved(**p)).count()
    }
}

struct Ctx<'a> {
    report: &'a Report,
    st: Option<u32>,
    seed: u64,
    shard: usize,
}

/// Executes `ops` on a fresh manager, judging after every step.
/// Returns false when a violation (or harness problem) ended the sequence.
fn run_sequence(ctx: &Ctx, local: &mut Local, setup: &Setup, ops: &[Op], mode: &str) -> bool {
    let mut w = World::new(setup);
    let max = setup.max;
    let witness = |upto: usize| {
        json!({"seed": ctx.seed, "shard": ctx.shard, "mode": mode,
               "setup": {"n_peers": setup.n_peers, "n_reserved": setup.n_reserved, "max": setup.max},
               "ops": ops[..upto].iter().map(|o| o.to_json()).collect::<Vec<_>>()})
    };
    let mut saw_disconnect_while_full = false;
    let mut saw_connect_after_that = false;
    let mut saw_refusal = false;

    // initial observation
    let avail0 = w.reader.read().available_slot();
    if avail0 != (0 < max) {
        local.violation(
            ctx.report,
            sig(ctx.st, &format!("slot_flag available={avail0} free={} after=new", 0 < max)),
            || format!("fresh manager with max={max}: available_slot()={avail0}"),
            || witness(0),
        );
        return false;
    }

    for (i, &op) in ops.iter().enumerate() {
        local.eval();
        local.count(&format!("ops.{}", op.kind()));
        let count_before = w.model_nonreserved();
        let banned_before = w.punisher.banned.len();
        let mut fail: Option<(String, String)> = None;
        match op {
            Op::Connect(p) => {
                let id = w.ids[p];
                let res = catch(|| w.pm.handle_peer_connected(&id));
                let should_disconnect = match res {
                    Ok(r) => r,
                    Err(e) => {
                        ctx.report.inconclusive(format!("handle_peer_connected panicked: {e}"));
                        return false;
                    }
                };
                let should_disconnect = if ctx.st == Some(3) && !w.is_reserved(p) && count_before >= max {
                    // self-test 3: the observation of a refusal is flipped
                    !should_disconnect
                } else {
                    should_disconnect
                };
                if w.is_reserved(p) {
                    if count_before >= max {
                        local.count("events.reserved_connect_while_full");
                    }
                    if should_disconnect {
                        fail = Some((
                            "reserved_peer_refused".into(),
                            format!("reserved peer {p} was refused ({count_before}/{max} non-reserved connected)"),
                        ));
                    }
                    w.connected.insert(p);
                } else if w.connected.contains(&p) {
                    // duplicate connection event of an admitted peer: not a *new* peer;
                    // the property only requires that accounting stays intact
                    local.count("events.duplicate_connect");
                    if should_disconnect {
                        local.count("events.duplicate_connect_refused");
                    }
                } else {
                    let free = count_before < max;
                    if free {
                        local.count("events.connect_admitted");
                        if saw_disconnect_while_full {
                            saw_connect_after_that = true;
                        }
                    } else {
                        local.count("events.connect_refused_full");
                        saw_refusal = true;
                    }
                    if should_disconnect == free {
                        fail = Some((
                            format!("admission_wrong admitted={} free={free}", !should_disconnect),
                            format!(
                                "new non-reserved peer {p}: manager said disconnect={should_disconnect} with {count_before}/{max} connected"
                            ),
                        ));
                    }
                    if free {
                        w.connected.insert(p);
                    }
                }
            }
            Op::Disconnect(p) => {
                let id = w.ids[p];
                if !w.is_reserved(p) && w.connected.contains(&p) {
                    if count_before == max {
                        local.count("events.disconnect_while_full");
                        saw_disconnect_while_full = true;
                    } else {
                        local.count("events.disconnect_while_not_full");
                    }
                } else if !w.connected.contains(&p) {
                    local.count("events.disconnect_of_unconnected");
                }
                let drop_it = ctx.st == Some(2) && w.connected.contains(&p) && !w.is_reserved(p);
                if !drop_it {
                    // self-test 2: the wrapper "forgets" to forward the disconnect
                    if let Err(e) = catch(|| w.pm.handle_peer_disconnect(id)) {
                        ctx.report.inconclusive(format!("handle_peer_disconnect panicked: {e}"));
                        return false;
                    }
                }
                w.connected.remove(&p);
            }
            Op::Identify(p) => {
                let id = w.ids[p];
                let _ = catch(|| w.pm.handle_peer_identified(&id, vec![], format!("agent-{p}")));
            }
            Op::Heartbeat(p, h) => {
                let id = w.ids[p];
                let _ = catch(|| w.pm.handle_peer_info_updated(&id, h.into()));
            }
            Op::AppScore(p, s) => {
                let id = w.ids[p];
                let (pm, pun) = (&mut w.pm, &mut w.punisher);
                if let Err(e) = catch(|| pm.update_app_score(id, s, "verif", pun)) {
                    ctx.report.inconclusive(format!("update_app_score panicked: {e}"));
                    return false;
                }
            }
            Op::Gossip(p, s) => {
                let id = w.ids[p];
                let (pm, pun) = (&w.pm, &mut w.punisher);
                if let Err(e) = catch(|| pm.handle_gossip_score_update(id, s, pun)) {
                    ctx.report.inconclusive(format!("handle_gossip_score_update panicked: {e}"));
                    return false;
                }
            }
            Op::Decay => {
                let _ = catch(|| w.pm.batch_update_score_with_decay());
            }
        }

        // ---- observations after the operation --------------------------------
        // bans
        for b in w.punisher.banned[banned_before..].to_vec() {
            let idx = w.ids.iter().position(|x| *x == b);
            match idx {
                Some(p) if w.is_reserved(p) => {
                    fail.get_or_insert((
                        format!("reserved_peer_banned via={}", op.kind()),
                        format!("reserved peer {p} was handed to the punisher after {op:?}"),
                    ));
                }
                Some(_) => local.count(&format!("events.ban_nonreserved_via_{}", op.kind())),
                None => {
                    fail.get_or_insert(("ban_of_unknown_peer".into(), format!("punisher got an unknown id after {op:?}")));
                }
            }
        }
        // connected sets
        let observed: Vec<usize> = w
            .pm
            .get_peers_ids()
            .filter_map(|id| w.ids.iter().position(|x| x == id))
            .collect();
        let obs_set: BTreeSet<usize> = observed.iter().cloned().collect();
        let obs_nonres = obs_set.iter().filter(|p| !w.is_reserved(**p)).count();
        if obs_nonres > max {
            fail.get_or_insert((
                "nonreserved_count_exceeds_max".into(),
                format!("{obs_nonres} non-reserved peers connected, limit {max}"),
            ));
        }
        if obs_set != w.connected {
            let extra: Vec<_> = obs_set.difference(&w.connected).collect();
            let missing: Vec<_> = w.connected.difference(&obs_set).collect();
            let what = if !extra.is_empty() { "manager_keeps_disconnected_or_refused_peer" } else { "manager_lost_connected_peer" };
            fail.get_or_insert((
                format!("connected_set_mismatch {what} after={}", op.kind()),
                format!("manager reports {obs_set:?}, expected {:?} (extra {extra:?}, missing {missing:?})", w.connected),
            ));
        }
        if w.pm.total_peers_connected() != observed.len() {
            fail.get_or_insert((
                "total_peers_connected_inconsistent".into(),
                format!("total_peers_connected()={} but {} ids listed", w.pm.total_peers_connected(), observed.len()),
            ));
        }
        // slot flag as seen by the handshake approver
        let count_now = w.model_nonreserved();
        let free = count_now < max;
        let mut avail = w.reader.read().available_slot();
        if ctx.st == Some(1) && matches!(op, Op::Heartbeat(..)) {
            // self-test 1: corrupt the observed flag
            avail = !avail;
        }
        if avail != free {
            fail.get_or_insert((
                format!("slot_flag available={avail} free={free} after={}", op.kind()),
                format!(
                    "after {op:?}: {count_now}/{max} non-reserved peers connected but the handshake-side flag says available_slot()={avail}"
                ),
            ));
        }
        if free {
            local.count("observed.slot_free");
        } else {
            local.count("observed.slot_full");
        }
        // scores
        for (id, info) in w.pm.get_all_peers() {
            let mut score = info.score;
            if ctx.st == Some(4) && matches!(op, Op::Decay) {
                score += 1000.0;
            }
            if score > MAX_APP_SCORE {
                let p = w.ids.iter().position(|x| x == id);
                fail.get_or_insert((
                    "score_above_max".into(),
                    format!("peer {p:?} has score {score} > {MAX_APP_SCORE}"),
                ));
            }
            if score == MAX_APP_SCORE {
                local.count("observed.score_at_max");
            }
            if score < MIN_APP_SCORE {
                local.count("observed.score_below_min");
            }
        }

        if let Some((s, why)) = fail {
            local.violation(ctx.report, sig(ctx.st, &s), || why.clone(), || witness(i + 1));
            return false;
        }
    }
    if saw_disconnect_while_full && saw_connect_after_that && saw_refusal {
        local.count("sequences.nontrivial");
        let shape: Vec<(&str, usize)> = ops
            .iter()
            .map(|o| match o {
                Op::Connect(p) | Op::Disconnect(p) | Op::Identify(p) => (o.kind(), *p),
                Op::Heartbeat(p, _) | Op::AppScore(p, _) | Op::Gossip(p, _) => (o.kind(), *p),
                Op::Decay => (o.kind(), 0),
            })
            .collect();
        local.distinct(hash64(&(setup.max, setup.n_reserved, shape)));
    }
    true
}

fn gen_ops(rng: &mut rand::rngs::StdRng, setup: &Setup, len: usize) -> Vec<Op> {
    let mut ops = Vec::with_capacity(len);
    let n = setup.n_peers;
    for _ in 0..len {
        let p = rng.gen_range(0..n);
        let op = match rng.gen_range(0..100) {
            0..=34 => Op::Connect(p),
            35..=59 => Op::Disconnect(p),
            60..=64 => Op::Identify(p),
            65..=69 => Op::Heartbeat(p, rng.gen_range(0..100)),
            70..=84 => Op::AppScore(
                p,
                *pick(rng, &[-200.0, -60.0, -50.0, -49.9, -10.0, -1.0, 0.0, 1.0, 10.0, 100.0, 150.0, 151.0, 1e9, f64::INFINITY, f64::MAX]),
            ),
            85..=94 => Op::Gossip(p, *pick(rng, &[-1e9, -16000.1, -16000.0, -15999.9, -100.0, 0.0, 100.0, f64::NEG_INFINITY])),
            _ => Op::Decay,
        };
        ops.push(op);
    }
    ops
}

pub fn run(args: &Args, report: &Report) {
    let st = selftest(args);
    let rule = "(a) every sequence of connect/disconnect events of a fixed length over 1 reserved + 3 non-reserved peers for \
                limits 1..=3 (each on a fresh PeerManager); (b) seeded random sequences (length 10..=80) of connect / \
                disconnect / identify / heartbeat / app-score / gossip-score / decay over 6 peers (0..=2 reserved), limits \
                1..=3. A sequence is non-trivial if a connected non-reserved peer disconnected while all slots were taken, a \
                new peer connected afterwards, and at least one connect was refused; distinct by (limit, reserved, op/peer list)";
    let assumptions = [
        "ConnectionTracker::allow_peer (crate-private) returns reader.read().available_slot() for non-reserved peers, so the reader is observed directly",
        "limits >= 1 (with limit 0 the fresh ConnectionState says 'slot available' by construction; counted separately, not judged)",
        "score deltas never contain NaN",
    ];

    if let Some(rp) = read_replay(args) {
        let setup = rp.get("setup").map(|s| Setup {
            n_peers: s.get("n_peers").and_then(|x| x.as_u64()).unwrap_or(6) as usize,
            n_reserved: s.get("n_reserved").and_then(|x| x.as_u64()).unwrap_or(2) as usize,
            max: s.get("max").and_then(|x| x.as_u64()).unwrap_or(1) as usize,
        });
        let ops: Vec<Op> = rp
            .get("ops")
            .and_then(|o| o.as_array())
            .map(|a| a.iter().filter_map(Op::from_json).collect())
            .unwrap_or_default();
        match setup {
            Some(setup) => {
                let ctx = Ctx { report, st, seed: args.seed, shard: 0 };
                let mut local = Local::new();
                run_sequence(&ctx, &mut local, &setup, &ops, "replay");
                local.flush(report);
            }
            None => report.inconclusive("replay file has no setup"),
        }
        report.finish(args, "exploration", rule, false, &assumptions);
        return;
    }

    // (a) exhaustive connect/disconnect sequences
    {
        let len: usize = args.by_tier(6, 7);
        let report2 = report.clone();
        let seed = args.seed;
        let n_peers = 4usize;
        let alphabet: Vec<Op> = (0..n_peers).flat_map(|p| [Op::Connect(p), Op::Disconnect(p)]).collect();
        let a = alphabet.len();
        report.info("exhaustive", json!({"peers": n_peers, "reserved": 1, "limits": [1, 2, 3], "length": len}));
        // shard by (limit, first two ops)
        let shards = 3 * a * a;
        run_shards(report, args, shards, move |shard, _s| {
            let ctx = Ctx { report: &report2, st, seed, shard };
            let mut local = Local::new();
            let max = 1 + shard / (a * a);
            let first = (shard / a) % a;
            let second = shard % a;
            let setup = Setup { n_peers, n_reserved: 1, max };
            let rest = len - 2;
            let mut ops = vec![alphabet[first], alphabet[second]];
            ops.resize(len, Op::Decay);
            for code in 0..a.pow(rest as u32) {
                let mut c = code;
                for d in 0..rest {
                    ops[2 + d] = alphabet[c % a];
                    c /= a;
                }
                local.count("exhaustive.sequences");
                run_sequence(&ctx, &mut local, &setup, &ops, "exhaustive");
            }
            local.flush(&report2);
        });
    }

    // (b) random sequences with reputation traffic
    {
        let report2 = report.clone();
        let seed = args.seed;
        let per_shard: usize = args.by_tier(2_500, 40_000);
        run_shards(report, args, 32, move |shard, s| {
            let ctx = Ctx { report: &report2, st, seed, shard };
            let mut local = Local::new();
            let mut rng = rng_for(s, &[tag("c31-random")]);
            for _ in 0..per_shard {
                let setup = Setup {
                    n_peers: 6,
                    n_reserved: *pick(&mut rng, &[0usize, 1, 2, 2]),
                    max: rng.gen_range(1..=3),
                };
                let len = rng.gen_range(10..=80);
                let ops = gen_ops(&mut rng, &setup, len);
                local.count("random.sequences");
                let ok = run_sequence(&ctx, &mut local, &setup, &ops, "random");
                if ok && report2.wants_sample() {
                    report2.sample(json!({"setup": {"reserved": setup.n_reserved, "max": setup.max},
                        "ops": ops.iter().take(25).map(|o| o.to_json()).collect::<Vec<_>>()}));
                }
            }
            // limit 0: observed, not judged (outside the stated domain)
            let (_w, reader) = ConnectionState::new();
            if reader.read().available_slot() {
                local.count("not_judged.limit0_fresh_flag_says_available");
            }
            local.flush(&report2);
        });
    }

    if st.is_none() {
        report.require("exhaustive.sequences", args.by_tier(700_000, 6_000_000));
        report.require("random.sequences", args.by_tier(50_000, 500_000));
        report.require("events.disconnect_while_full", 100_000);
        report.require("events.connect_refused_full", 100_000);
        report.require("events.connect_admitted", 100_000);
        report.require("events.reserved_connect_while_full", 10_000);
        report.require("events.duplicate_connect", 10_000);
        report.require("events.ban_nonreserved_via_app_score", 1_000);
        report.require("events.ban_nonreserved_via_gossip_score", 1_000);
        report.require("observed.score_at_max", 1_000);
        report.require("observed.slot_full", 100_000);
        report.require("observed.slot_free", 100_000);
    }
    report.finish(args, "exploration", rule, false, &assumptions);
}
